"""C44 Helper-assisted uploads are equivalent to direct uploads.

Decided: the structural necessary conditions of the resume bookkeeping in
CHKCiphertextFetcher, of the incoming -> encoding hand-over, and of the
derivation of verify cap / read cap on the assisted path (DESIGN.md section 5,
C44).  Lowest strength: equivalence of the produced shares is not decided."""
from sa.h import *

EXPLANATION = (
    "Decided (structural, all paths): (1) CHKCiphertextFetcher._start_reading starts _have at the size of the "
    "incoming file whenever that file exists and opens that same file for binary append; (2) every "
    "self._f.write(x) is followed by _have += len(x) before the next write / exit, every increment is preceded by "
    "such a write, and nothing else stores _have or writes the file; (3) ciphertext is requested at offset _have "
    "with length min(expected - have, CHUNK_SIZE>0), _fetch reports completion only under expected - have == 0, "
    "the data callback never reports completion early and _loop fires its Deferred only when told finished; "
    "(4) the only rename in offloaded.py is incoming -> encoding in _done after closing the file, _done is "
    "registered after _start_reading on the fetch chain with no failure-swallowing link before it, "
    "_start_reading returns the Deferred it hands to _loop, the fetch is bypassed only when the encoding file "
    "exists, and _start starts a chain only after testing and then switching a once-only flag (a second add_reader "
    "must not start a second fetch into the same incoming file) and never switches the flag without starting a chain; (5) CHKUploadHelper inherits the encoding pipeline of CHKUploader unchanged, starts it only after "
    "fetcher and local reader are ready, reader and fetcher share the encoding file, incoming and encoding paths "
    "live in different directories and are functions of the storage index; (6) both upload paths get their read "
    "cap from the same closure, built from the uploadable's own key and the fields of the returned verify cap; "
    "(7) the assisted verify cap is built from the client's storage index / k / N / size and the helper's UEB "
    "hash, which the helper takes from the CHKUploader verify cap or from the hash of the fetched UEB, and the "
    "already-present short cut is taken only with all N shares found and a fetched UEB, no upload helper is then "
    "created or used, and Helper._did_chk_check creates an upload helper only after seeing that _active_uploads has "
    "none for the storage index and registers it on every path, and Helper._check_chk's callback returns the "
    "HelperUploadResults whenever the check found the file; (8) the client serves read_encrypted at the "
    "requested offset and advances its position in a callback of the read whose Deferred it returns, by the requested "
    "length after a hash-only read; (9) every plaintext chunk the client "
    "consumes is fed to the single stateful AES-CTR encryptor whether or not hash_only is set, no step of the read "
    "chain RemoteEncryptedUploadable._read_encrypted -> EncryptAnUploadable.read_encrypted -> _read_encrypted -> "
    "_hash_and_encrypt_plaintext -> aes.encrypt_data(self._encryptor, chunk) is control-dependent on hash_only, and "
    "the encryptor is created only when none exists (a design that repositions the encryptor instead is reported as "
    "undecided); (10) a failed ciphertext transfer reaches the fetcher's and the upload helper's errbacks, both "
    "notify their observers / call Helper.upload_finished(self._storage_index, ..) on every path and evaluate nothing "
    "before that which raises in the early-failure state (state only a later chain stage creates, attributes still "
    "None, must-exist file operations, unless tested or inside try), and upload_finished removes the storage index "
    "from _active_uploads under the key it was registered with, which CHKUploadHelper.__init__ stores as "
    "self._storage_index from its own argument; (11) in Uploader.upload, AssistedUploader.start and CHKUploader.start the "
    "uploadable and every wrapper built around it (EncryptAnUploadable, RemoteEncryptedUploadable: read position, hashers, "
    "AES-CTR state) is handed to at most one consumer on every path, callbacks and errbacks registered on that path "
    "included (no fallback or retry re-reads an object that a first, helper-assisted, upload may have advanced); "
    "(12) Helper.remote_upload_chk answers only with the upload already active for the storage index or with the Deferred "
    "of self._check_chk(storage_index) followed by _did_chk_check for that storage index, nothing else calls "
    "_did_chk_check / _make_chk_upload_helper / chk_upload, _check_chk answers only with the Deferred of a checker made "
    "for its storage index in this call, and _did_chk_check reports only its own argument as already present (state that "
    "outlives the call never stands in for the grid check); (13) the loop in which EncryptAnUploadable.read_encrypted reads, "
    "hashes and encrypts the requested length chunk by chunk - a control-flow loop (plain or in an inlineCallbacks body) "
    "around the site that gets to self.original.read, or deferredutil.until(action, condition), whose own loop is checked "
    "to be left only on condition() - is left only on tests whose value does not depend on the ciphertext produced by "
    "_hash_and_encrypt_plaintext (its result, the result of helpers / Deferreds that hand it on, fields of an accumulator "
    "object that a method stores it or something computed from it in), except on ways out taken only with hash_only "
    "off; a loop exit that depends on a helper result mixing ciphertext with other values, or a read loop of another "
    "shape (recursion), is reported as undecided. The sites of (9) and (13) are found by role from read_encrypted "
    "through nested defs, lambdas, callback registrations and helper methods, the flag followed through the arguments. "
    "Undecided: byte equality of shares, crash interleavings between write and rename, foolscap transport, "
    "honesty of the helper and of the storage servers answering the already-present query; that the chunk sizes "
    "requested from the plaintext add up to exactly the requested length (arithmetic of the byte counter); exceptions other than "
    "the modelled early-failure ones inside the failure handlers; the value of the expected size (what get_size "
    "answered); data still buffered in an incoming file that a failure handler left open (OS buffering / garbage "
    "collection timing); uploadables whose read() is really asynchronous; liveness (a fetch that never starts or "
    "spins) except where named above; edits inside the CHKUploader pipeline, which both upload paths share.")
TECHNIQUE = "static analysis: CFG path rules with typestate monitors, Deferred-chain order, who-may-write sweeps, normal-form agreement"

OFF = "immutable.offloaded"
FETCH = OFF + ":CHKCiphertextFetcher"
UH = OFF + ":CHKUploadHelper"
HELPER = OFF + ":Helper"
LCR = OFF + ":LocalCiphertextReader"
CUF = OFF + ":CHKCheckerAndUEBFetcher"
UP = "immutable.upload"

NEEDED = norm_src("self._expected_size - self._have")
NEG_NEEDED = norm_src("self._have - self._expected_size")
SIZE_OF_INCOMING = re.compile(
    r"^(os\.stat\(self\._incoming_file\)(\[stat\.ST_SIZE\]|\[6\]|\.st_size)"
    r"|os\.path\.getsize\(self\._incoming_file\)"
    r"|(\w+\.)*get_filesize\(self\._incoming_file\))$")
RENAMES = {"rename", "renames", "replace", "move", "move_into_place", "rename_no_overwrite", "replace_file",
           "copy", "copyfile", "copy2", "link", "symlink"}


# --------------------------------------------------------------------- helpers
def _inner(f, nd):
    """False when `nd` belongs to a def nested in f.  (Engine work-around: own_nodes() descends into a
    nested def that is a direct statement of the function body, so sweeps report such nodes for the
    parent as well as for the nested function.)"""
    for g in f.nested.values():
        if isinstance(g.node, (ast.FunctionDef, ast.AsyncFunctionDef)) and any(x is nd for x in ast.walk(g.node)):
            return False
    return True


def _calls(fn, tail=None, into_lambda=False):
    return [c for c in calls_in_func(fn, tail, into_lambda=into_lambda) if _inner(fn, c)]


def _regs(fn):
    return [x for x in registrations(fn) if _inner(fn, x.call)]


def _own(fn):
    return [n for n in func_own_nodes(fn) if _inner(fn, n)]


class _Sweep:
    """Calls / attribute stores / method-value references of ONE module, each attributed to its
    innermost function (a package-wide callgraph sweep for names like 'write' or 'open' is slow)."""

    def __init__(self, idx, mod):
        self.calls, self.stores, self.refs = [], [], []
        for fn in idx.funcs.values():
            if fn.module is not mod:
                continue
            nodes = _own(fn)
            callee = {id(n.func) for n in nodes if isinstance(n, ast.Call)}
            for n in nodes:
                if isinstance(n, ast.Call):
                    self.calls.append(CallSite(fn, n))
                elif isinstance(n, ast.Attribute):
                    if isinstance(n.ctx, ast.Load):
                        if id(n) not in callee:
                            self.refs.append((fn, n))
                    else:
                        self.stores.append((fn, n))

    def calls_named(self, *tails):
        return [cs for cs in self.calls if cs.tail in tails]

    def attr_stores(self, attr):
        return [(f, n) for (f, n) in self.stores if n.attr == attr]

    def refs_named(self, attr):
        return [(f, n) for (f, n) in self.refs if n.attr == attr]


def _is_file_move(c):
    return call_tail(c) in RENAMES and (call_name(c).startswith(("os.", "shutil.", "fileutil.")) or isinstance(c.func, ast.Name))


def _reaching_value(fnorm, node, name):
    """AST of the unique definition of local `name` reaching `node` (None when not unique)."""
    ds = fnorm.rd.get(node.id, {}).get(name)
    if not ds or len(ds) != 1:
        return None
    (d,) = tuple(ds)
    if d < 0:
        return None
    return assign_value(fnorm.cfg.nodes[d], name)


def _reaching_values(fnorm, node, name, depth=4):
    """[(defining CFG node, value AST)] for every definition of local `name` that reaches `node`, plain copies of
    other locals followed back (x = E; y = x  ->  E); None when one of them is not a plain assignment
    (parameter, loop target, ...) or none reaches."""
    ds = fnorm.rd.get(node.id, {}).get(name)
    if not ds:
        return None
    out = []
    for d in sorted(ds):
        if d < 0:
            return None
        dn = fnorm.cfg.nodes[d]
        v = assign_value(dn, name)
        if v is None:
            return None
        if isinstance(v, ast.Name) and depth > 0 and fnorm.rd.get(dn.id, {}).get(v.id):
            sub = _reaching_values(fnorm, dn, v.id, depth - 1)
            if sub is None:
                return None
            out += sub
        else:
            out.append((dn, v))
    return out


def _node_of(fn, call):
    for n in fn.cfg().nodes:
        if any(c is call for c in node_calls(n, into_lambda=True)):
            return n
    raise AnalysisError("call not found in the CFG of %s" % fn.qual)


def _cb_func(idx, fn, target):
    """FuncInfo of a callback target registered inside fn (nested def, self.method, lambda)."""
    if isinstance(target, ast.Name):
        p = fn
        while p is not None:
            if target.id in p.nested:
                return p.nested[target.id]
            p = p.parent
        return None
    if isinstance(target, ast.Attribute) and isinstance(target.value, ast.Name) and target.value.id == "self" \
            and fn.cls is not None:
        return fn.cls.lookup(target.attr)
    if isinstance(target, ast.Lambda):
        return idx.lambda_func(fn, target)
    return None


def _is_min_of_needed(fnorm, node, e, folder, cls):
    """e is `needed` or min(needed, positive constants / CHUNK_SIZE)."""
    if fnorm.norm(node, e) == NEEDED:
        return True
    e = fnorm.resolve(node, e)
    if isinstance(e, ast.Call) and call_name(e) == "min" and not e.keywords:
        parts = [fnorm.norm(node, a) for a in e.args]
        if NEEDED not in parts:
            return False
        for a, s in zip(e.args, parts):
            if s == NEEDED:
                continue
            try:
                v = folder.fold(a, fnorm.fn.module, cls)
            except NotConstant:
                return False
            if not (isinstance(v, int) and v > 0):
                return False
        return True
    return False


def _done_fact(f, min_ok):
    """The comparison f = (op, l, r) means 'no ciphertext is missing': expected - have == 0 (or <= 0)."""
    if not f:
        return False
    op, l, r = f
    both = {l, r}
    if op == "==":
        if both == {"self._expected_size", "self._have"}:
            return True
        if "0" in both:
            o = (both - {"0"}).pop() if len(both) == 2 else "0"
            return o in (NEEDED, NEG_NEEDED) or min_ok(o)
    if op == "<=":
        if (l, r) == ("self._expected_size", "self._have"):
            return True
        if (l, r) == ("0", NEG_NEEDED) or (l, r) == (NEEDED, "0"):
            return True
        if r == "0" and min_ok(l):
            return True
    if op == "false":
        return l == NEEDED or min_ok(l)
    return False


def _falsy_const(e):
    return e is None or (isinstance(e, ast.Constant) and not e.value)


def _truthy_const(e):
    return isinstance(e, ast.Constant) and bool(e.value)


def run(ctx: Context):
    idx = ctx.idx
    _ATTR_TABLES.clear()      # per-run cache: another index (self-test overlay, sweep worker) must not see it
    folder = get_folder(idx)
    offmod = idx.module("allmydata." + OFF)
    cg = _Sweep(idx, offmod)
    fetcher = idx.cls(FETCH)

    # -- 1. resume offset ---------------------------------------------------
    with ctx.rule("C44.1", "R1", "_start_reading: _have == size of the incoming file whenever it exists (0 only when "
                  "it does not); the file opened for the fetch is that same file, in binary append mode",
                  expected=2) as r:
        fn = idx.func(FETCH + "._start_reading")
        cfg = fn.cfg()
        fnorm = FlowNorm(fn)

        def classify(n):
            v = assign_value(n, "self._have")
            if v is None:
                return "other"
            if isinstance(v, ast.IfExp):
                t = fnorm.at(n).cmp(v.test, True)
                if t == ("truth", "os.path.exists(self._incoming_file)", None) \
                        and SIZE_OF_INCOMING.match(fnorm.norm(n, v.body)) and fnorm.norm(n, v.orelse) == "0":
                    return "ok"
                return "other"
            s = fnorm.norm(n, v)
            if SIZE_OF_INCOMING.match(s):
                return "size"
            if s == "0":
                return "zero"
            return "other"

        def transfer(n, lab, nxt, st):
            ex, hv = st
            f = fnorm.edge_fact(n, lab)
            if f and f[1] == "os.path.exists(self._incoming_file)" and f[0] in ("truth", "false"):
                ex = "T" if f[0] == "truth" else "F"
            if n.kind == "except":
                hn = C._handler_names(n.ast.type) or []
                if set(hn) & {"OSError", "IOError", "EnvironmentError", "FileNotFoundError"}:
                    ex = "F"
            if lab != "exc" and "self._have" in node_stores(n):
                hv = classify(n)
            return (ex, hv)
        stores_have = cfg.find(stores("self._have"))
        if not stores_have:
            raise AnchorVanished("_start_reading no longer stores self._have")
        for n in stores_have:
            r.site(fn, n.ast, "_have := " + classify(n))
        loops = cfg.find(has_call_named("self._loop"))
        if not loops:
            raise AnchorVanished("_start_reading no longer starts self._loop")
        visited, parent = explore(cfg, ("?", "unset"), transfer)
        r.count(len(visited))
        reported = set()
        for (nid, st) in sorted(visited):
            n = cfg.nodes[nid]
            if not (n in loops or n.kind == "exit"):
                continue
            ex, hv = st
            bad = None
            if hv in ("unset", "other"):
                bad = "_have is %s when the fetch loop starts" % ("not set" if hv == "unset" else "not the incoming file's size")
            elif hv == "zero" and ex != "F":
                bad = "_have is 0 although the incoming file may already hold ciphertext (resume would append a " \
                      "second copy of the prefix)"
            if bad and bad not in reported:
                reported.add(bad)
                r.violation(fn, fn.loc(n.ast) if n.ast is not None else fn.loc(), bad, witness(cfg, parent, (nid, st)))
        # the file object written by the fetch
        opens = []
        for n in cfg.find(stores("self._f")):
            v = assign_value(n, "self._f")
            if isinstance(v, ast.Call) and call_tail(v) == "open":
                opens.append((n, v))
        if not opens:
            raise AnchorVanished("_start_reading no longer opens self._f")
        for (n, c) in opens:
            r.site(fn, c, "open")
            r.require(fnorm.norm(n, arg(c, 0, "file")) == "self._incoming_file", fn, fn.loc(c),
                      "the fetch writes to %s, not to the incoming file whose size seeded _have" % src(fn, arg(c, 0, "file")))
            m = arg(c, 1, "mode")
            try:
                mode = folder.fold(m, fn.module, fn.cls) if m is not None else "r"
            except NotConstant:
                mode = None
            ok = isinstance(mode, str) and "a" in mode and "b" in mode and "w" not in mode and "x" not in mode
            r.require(ok, fn, fn.loc(c), "incoming file is opened with mode %r: a resumed fetch must append in binary "
                      "mode to the bytes already counted in _have" % (mode,))

    # -- 2. write / count pairing -------------------------------------------
    with ctx.rule("C44.2", "R10/R4", "every self._f.write(x) is followed by _have += len(x) before the next write or "
                  "exit and vice versa; only _start_reading and the data callback store _have / write the file",
                  expected=2) as r:
        fetch = idx.func(FETCH + "._fetch")
        gd = _data_callback(idx, fetch)
        cfg = gd.cfg()
        fnorm = FlowNorm(gd)

        def write_arg(n):
            for c in node_calls(n):
                if call_name(c) == "self._f.write" and len(c.args) == 1:
                    return fnorm.norm(n, c.args[0])
            return None

        def counts(n, what):
            a = n.ast
            if n.kind != "stmt":
                return False
            want = "len(%s)" % what
            if isinstance(a, ast.AugAssign) and attr_path(a.target) == "self._have" and isinstance(a.op, ast.Add):
                return fnorm.norm(n, a.value) == want
            v = assign_value(n, "self._have")
            if v is not None:
                s = fnorm.norm(n, v)
                return s in (norm_src("self._have + len(%s)" % what), "self._f.tell()")
            return False

        def counts_any(n):
            return n.kind == "stmt" and "self._have" in node_stores(n)
        writes = [n for n in cfg.nodes if write_arg(n) is not None]
        if not writes:
            raise AnchorVanished("the read_encrypted callback no longer writes self._f")
        for wn in writes:
            what = write_arg(wn)
            r.site(gd, wn.ast, "write(%s)" % what)

            def transfer(n, lab, nxt, st, _wn=wn, _what=what):
                if lab == "exc":
                    return None
                if st == 1 and (counts(n, _what) or write_arg(n) is not None):
                    return None
                return 1
            visited, parent = explore(cfg, 0, transfer, start=wn)
            r.count(len(visited))
            for (nid, st) in sorted(visited):
                n = cfg.nodes[nid]
                if st == 1 and (n.kind == "exit" or write_arg(n) is not None):
                    r.violation(gd, gd.loc(wn.ast), "self._f.write(%s) is not followed by _have += len(%s) on every path "
                                "(a resumed or continued fetch would request the wrong offset)" % (what, what),
                                witness(cfg, parent, (nid, st)))
                    break
        incs = cfg.find(counts_any)
        if not incs:
            raise AnchorVanished("the read_encrypted callback no longer advances self._have")
        for n in incs:
            r.site(gd, n.ast, "_have advance")
            ok = any(counts(n, write_arg(w)) for w in writes)
            r.require(ok, gd, gd.loc(n.ast), "_have is advanced by %s, not by the length of the data written" % src(gd, n.ast))
        for (n, w) in find_path_avoiding(cfg, counts_any, gate_node=lambda m: write_arg(m) is not None, kill=counts_any):
            r.violation(gd, gd.loc(n.ast), "_have is advanced without writing the data first (path: %s)" % w.brief(), w)
        # who may store _have / write the file
        allowed = {idx.func(FETCH + "._start_reading").qual, gd.qual}
        for (f, nd) in cg.attr_stores("_have"):
            if f.module is not offmod or not _inner(f, nd):
                continue
            if f.qual in allowed:
                continue
            if f.name == "__init__":
                continue
            r.violation(f, f.loc(nd), "%s stores _have outside the resume bookkeeping" % short(f))
        for cs in cg.calls_named("write", "writelines", "truncate", "seek"):
            if cs.fn.module is not offmod or not _inner(cs.fn, cs.call):
                continue
            recv = attr_path(cs.call.func.value) if isinstance(cs.call.func, ast.Attribute) else None
            if recv == "self._f" and cs.fn.qual != gd.qual:
                r.violation(cs.fn, cs.loc, "%s touches the incoming file (%s) outside the counted write" % (short(cs.fn), cs.name))
            if recv == "self._f" and cs.fn.qual == gd.qual and cs.tail != "write":
                r.violation(cs.fn, cs.loc, "%s on the incoming file breaks the append-only bookkeeping" % cs.name)

    # -- 3. request and completion ------------------------------------------
    with ctx.rule("C44.3", "R1", "_fetch requests (self._have, min(expected - have, CHUNK_SIZE)); completion is reported "
                  "only under expected - have == 0; the data callback never reports completion early; _loop fires only "
                  "when finished", expected=4) as r:
        fn = idx.func(FETCH + "._fetch")
        cfg = fn.cfg()
        fnorm = FlowNorm(fn)
        try:
            chunk = folder.class_attr(fetcher, "CHUNK_SIZE")
        except NotConstant:
            chunk = None
        r.require(isinstance(chunk, int) and chunk > 0, fetcher.qual, fn.loc(),
                  "CHUNK_SIZE folds to %r: with a chunk size <= 0 the fetch reports completion without any data" % (chunk,))
        reads = [(n, c) for n in cfg.nodes for c in node_calls(n)
                 if call_name(c) == "self.call" and c.args and isinstance(c.args[0], ast.Constant)
                 and c.args[0].value == "read_encrypted"]
        if not reads:
            raise AnchorVanished("_fetch no longer calls read_encrypted")
        for (n, c) in reads:
            r.site(fn, c, "read_encrypted request")
            r.require(len(c.args) == 3 and not c.keywords, fn, fn.loc(c), "read_encrypted is not called with (offset, length)")
            if len(c.args) == 3:
                r.require(fnorm.norm(n, c.args[1]) == "self._have", fn, fn.loc(c),
                          "ciphertext is requested at offset %s, not at the number of bytes already on disk (self._have)"
                          % src(fn, c.args[1]))
                r.require(_is_min_of_needed(fnorm, n, c.args[2], folder, fetcher), fn, fn.loc(c),
                          "requested length %s is not min(expected - have, positive chunk size)" % fnorm.norm(n, c.args[2]))

        def min_ok_at(node):
            def min_ok(s):
                # s is the normal form of a min(...) whose arguments are `needed` and positive constants
                m = re.match(r"^min\((.*)\)$", s)
                if not m:
                    return False
                try:
                    e = parse_expr(s)
                except SyntaxError:
                    return False
                parts = [norm_src(ast.unparse(a)) for a in e.args]
                if NEEDED not in parts:
                    return False
                for a, p in zip(e.args, parts):
                    if p == NEEDED:
                        continue
                    try:
                        v = folder.fold(a, fn.module, fetcher)
                    except NotConstant:
                        return False
                    if not (isinstance(v, int) and v > 0):
                        return False
                return True
            return min_ok

        def done_edge(n, lab):
            return _done_fact(fnorm.edge_fact(n, lab), min_ok_at(n))
        rets = cfg.find(is_return)
        fin = [n for n in rets if _truthy_const(_ret_expr(fnorm, n))]
        if not fin:
            raise AnchorVanished("_fetch has no completion return")
        for n in fin:
            r.site(fn, n.ast, "completion")
        for (n, w) in find_path_avoiding(cfg, lambda x: x in fin, gate_edge=done_edge,
                                         kill=stores_any(["self._have", "self._expected_size"])):
            r.violation(fn, fn.loc(n.ast), "_fetch reports completion without having checked that expected - have == 0 "
                        "(path: %s): the partial file would be moved into CHK_encoding and encoded" % w.brief(), w)
        for n in rets:
            v = _ret_expr(fnorm, n)
            if _truthy_const(v) or _falsy_const(v) or isinstance(v, ast.Name) \
                    or (isinstance(n.ast.value, ast.Name) and isinstance(v, ast.Call)):
                continue
            f = fnorm.at(n).cmp(v, True)
            r.require(_done_fact(f, min_ok_at(n)), fn, fn.loc(n.ast), "_fetch returns %s as its completion flag" % src(fn, v))
        # the data callback: falsy, or the completion comparison itself
        gd = _data_callback(idx, fn)
        gnorm = FlowNorm(gd)
        r.site(gd, None, "data callback")
        for n in gd.cfg().find(is_return):
            v = _ret_expr(gnorm, n)
            if _falsy_const(v):
                continue
            f = gnorm.at(n).cmp(v, True)
            r.require(not _truthy_const(v) and _done_fact(f, lambda s: False), gd, gd.loc(n.ast),
                      "the read_encrypted callback returns %s: the loop would stop after this chunk" % src(gd, v))
        # _loop
        lp = idx.func(FETCH + "._loop")
        fire = first_positional_params(lp)[0]
        dvars = {attr_path(t) for n in _own(lp) if isinstance(n, ast.Assign)
                 and any(attr_path(x) == "self._fetch" for x in own_nodes(n.value)) for t in n.targets}
        dvars.discard(None)
        if len(dvars) != 1:
            raise AnchorVanished("the Deferred of self._fetch not found in _loop")
        regs = [x for x in _regs(lp) if x.recv in dvars]
        if not regs:
            raise AnchorVanished("no callback on the Deferred of self._fetch in _loop")
        first = regs[0]
        r.require(first.kind in ("cb", "pair"), lp, lp.loc(first.call), "the first link after _fetch is %r" % first)
        okf = _cb_func(idx, lp, first.target)
        if okf is None:
            raise AnchorVanished("callback of _loop not resolvable")
        fin_p = first_positional_params(okf)[0]
        ocfg = okf.cfg()
        onorm = FlowNorm(okf)
        fires = ocfg.find(has_call_named(fire + ".callback"))
        if not fires:
            raise AnchorVanished("_loop's callback no longer fires %s" % fire)
        for n in fires:
            r.site(okf, n.ast, "fire")
        for (n, w) in find_path_avoiding(ocfg, has_call_named(fire + ".callback"),
                                         gate_edge=lambda n, lab: onorm.edge_fact(n, lab) == ("truth", fin_p, None),
                                         kill=stores(fin_p)):
            r.violation(okf, okf.loc(n.ast), "the fetch Deferred fires although _fetch did not report completion "
                        "(path: %s)" % w.brief(), w)
        again = [c for c in _calls(okf, "_loop") if call_name(c) == "self._loop"]
        r.require(bool(again) and all(len(c.args) == 1 and attr_path(c.args[0]) == fire for c in again), okf, okf.loc(),
                  "the unfinished branch does not continue the loop with the same Deferred")

    # -- 4. hand-over only after completion ---------------------------------
    with ctx.rule("C44.4", "R4/E7", "incoming -> encoding rename only in _done after close; _done follows _start_reading "
                  "on the fetch chain with nothing swallowing failures in between; _start_reading returns the Deferred "
                  "given to _loop; the bypass needs the encoding file; one chain per fetcher", expected=4) as r:
        done = idx.func(FETCH + "._done")
        n_ren = 0
        for cs in cg.calls_named(*RENAMES):
            for tail in [cs.tail]:
                if cs.fn.module is not offmod or not _inner(cs.fn, cs.call):
                    continue
                if not _is_file_move(cs.call):
                    continue     # str.replace, dict.copy, ... : not file operations
                n_ren += 1
                r.site(cs.fn, cs.call, "rename-like")
                if cs.fn.qual != done.qual:
                    r.violation(cs.fn, cs.loc, "%s moves a file (%s) outside the completion step _done" % (short(cs.fn), cs.name))
                    continue
                a = [norm_plain(x) for x in cs.call.args]
                r.require(a[:2] == ["self._incoming_file", "self._encoding_file"] and tail in ("rename", "replace", "move", "move_into_place", "rename_no_overwrite"),
                          done, cs.loc, "_done performs %s(%s)" % (cs.name, ", ".join(a)))
        if n_ren == 0:
            raise AnchorVanished("no incoming -> encoding rename in offloaded.py")
        dcfg = done.cfg()
        is_ren = lambda n: any(_is_file_move(c) for c in node_calls(n))
        for (n, w) in find_path_avoiding(dcfg, is_ren, gate_node=has_call_named("self._f.close")):
            r.violation(done, done.loc(n.ast), "ciphertext file is renamed before it is closed (flushed)", w)
        # opening the encoding file for writing anywhere in the module
        for cs in cg.calls_named("open"):
            if cs.fn.module is not offmod or not cs.call.args or not _inner(cs.fn, cs.call):
                continue
            if norm_plain(cs.call.args[0]).endswith("_encoding_file"):
                m = arg(cs.call, 1, "mode")
                try:
                    mode = folder.fold(m, cs.fn.module, cs.fn.cls) if m is not None else "r"
                except NotConstant:
                    mode = None
                r.require(isinstance(mode, str) and not (set(mode) & set("wax+")), cs.fn, cs.loc,
                          "%s opens the encoding file with mode %r" % (short(cs.fn), mode))
        # who references _done
        start = idx.func(FETCH + "._start")
        n_ref = 0
        for (f, nd) in cg.refs_named("_done"):
            if f.cls is not fetcher or not isinstance(nd, ast.Attribute) or not _inner(f, nd):
                continue
            n_ref += 1
            r.site(f, nd, "reference to _done")
            if f.qual != start.qual:
                r.violation(f, f.loc(nd), "%s uses _done (the incoming -> encoding move) as a value" % short(f))
        if n_ref == 0:
            raise AnchorVanished("_done is no longer registered anywhere")
        for cs in cg.calls_named("_done"):
            if cs.fn.cls is fetcher and cs.name == "self._done":
                r.violation(cs.fn, cs.loc, "%s calls _done directly" % short(cs.fn))
        # _start: per-path registration sequence
        scfg = start.cfg()
        snorm = FlowNorm(start)
        regs = _regs(start)
        reg_by_call = {id(x.call): x for x in regs}
        dvars = {x.recv for x in regs if x.recv}
        if len(dvars) != 1:
            raise AnchorVanished("the chain Deferred of _start is not a single variable: %s" % sorted(dvars))
        dv = dvars.pop()
        r.site(start, None, "fetch chain on %s" % dv)

        # once-only flags: self.<x> = <constant> stored by _start itself (today: self._started = True)
        def flag_store(n):
            a = n.ast
            if n.kind == "stmt" and isinstance(a, ast.Assign) and isinstance(a.value, ast.Constant):
                return [(attr_path(t), bool(a.value.value)) for t in a.targets
                        if (attr_path(t) or "").startswith("self.") and attr_path(t).count(".") == 1]
            return []
        flags = sorted({p for n in scfg.nodes for (p, _v) in flag_store(n)})
        r.site(start, None, "once-only flags %s" % flags)

        def s_transfer(n, lab, nxt, st):
            enc, seq, tested, armed, stored = st
            f = snorm.edge_fact(n, lab)
            if f and f[1] == "os.path.exists(self._encoding_file)" and f[0] in ("truth", "false"):
                enc = "T" if f[0] == "truth" else "F"
            for p in flags:
                v = _flag_on_edge(snorm, n, lab, p)
                if v is not None:
                    tested = tuple(sorted(set(tested) | {(p, v)}))
            if lab == "exc":
                return (enc, seq, tested, armed, stored)
            for (p, val) in flag_store(n):
                stored = True
                # the flag is switched to the value under which the test just passed sends later calls away
                if (p, "F" if val else "T") in tested:
                    armed = True
            if n.kind == "stmt" and dv in node_stores(n):
                v = assign_value(n, dv)
                is_fetch = v is not None and any(
                    isinstance(c, ast.Call) and call_name(c) == "self.call" and c.args
                    and isinstance(c.args[0], ast.Constant) and c.args[0].value == "get_size"
                    for c in own_nodes(v))
                seq = (("src", "fetch" if is_fetch else "other"),)
            for c in node_calls(n):
                x = reg_by_call.get(id(c))
                if x is not None and x.recv == dv:
                    seq = seq + ((x.kind, x.target_name()),)
            return (enc, seq, tested, armed, stored)
        visited, parent = explore(scfg, ("?", (), (), False, False), s_transfer)
        r.count(len(visited))
        seen_fetch = False
        once_reported = set()
        for (nid, st) in sorted(visited, key=lambda x: (x[0], str(x[1]))):
            if scfg.nodes[nid].kind != "exit":
                continue
            enc, seq, tested, armed, stored = st
            if not seq or seq[0][0] != "src":
                # the early 'already started' return: it must not have marked the fetcher as started
                if stored and "no-chain" not in once_reported:
                    once_reported.add("no-chain")
                    r.violation(start, start.loc(), "_start can mark the fetcher as started (%s) and finish without a fetch or "
                                "bypass chain (path: %s): the fetch never runs, when_done() never fires and the resumed "
                                "upload never completes" % (", ".join(flags), witness(scfg, parent, (nid, st)).brief()),
                                witness(scfg, parent, (nid, st)))
                continue
            if not armed and "twice" not in once_reported:
                once_reported.add("twice")
                w0 = witness(scfg, parent, (nid, st))
                r.violation(start, start.loc(), "_start can start a chain without having tested and then switched a once-only "
                            "flag (self._started) (path: %s): every add_reader - a client that reconnects to the active "
                            "upload helper - starts another fetch that appends to the same CHK_incoming file, so the "
                            "ciphertext is duplicated" % w0.brief(), w0)
            names = [t for (_k, t) in seq[1:]]
            w = witness(scfg, parent, (nid, st))
            if seq[0][1] == "fetch":
                seen_fetch = True
                want = ["self._got_size", "self._start_reading", "self._done", "self._done2"]
                pos = []
                for t in want:
                    pos.append(names.index(t) if t in names else -1)
                ok = all(p >= 0 for p in pos) and pos == sorted(pos)
                r.require(ok, start, start.loc(), "fetch chain is %s: the move into CHK_encoding (_done) must come after the "
                          "size is known and after _start_reading's Deferred fired, and before _done2" % names, w)
                if ok:
                    for (k, t) in seq[1:pos[2] + 2]:
                        r.require(k == "cb", start, start.loc(), "%s link %s before _done can turn a failed fetch into a "
                                  "success: the partial file would be moved into CHK_encoding" % (k, t), w)
            else:
                r.require(enc == "T", start, start.loc(), "the ciphertext fetch is bypassed on a path that did not see the "
                          "encoding file exist (path: %s)" % w.brief(), w)
                r.require("self._done2" in names and "self._done" not in names, start, start.loc(),
                          "bypass chain is %s" % names, w)
        if not seen_fetch:
            raise AnchorVanished("_start no longer starts a get_size fetch chain")
        # _start_reading returns the Deferred it gave to _loop
        sr = idx.func(FETCH + "._start_reading")
        rcfg = sr.cfg()
        lcalls = [c for c in _calls(sr, "_loop") if call_name(c) == "self._loop"]
        if len(lcalls) != 1 or len(lcalls[0].args) != 1 or not isinstance(lcalls[0].args[0], ast.Name):
            raise AnchorVanished("_start_reading: self._loop(<Deferred variable>) not found")
        dname = lcalls[0].args[0].id
        r.site(sr, lcalls[0], "loop Deferred %s" % dname)
        rn = FlowNorm(sr)
        ln = _node_of(sr, lcalls[0])
        dv_ = _reaching_value(rn, ln, dname)
        r.require(isinstance(dv_, ast.Call) and call_tail(dv_) == "Deferred" and not dv_.args, sr, sr.loc(lcalls[0]),
                  "_loop is given %s, not a fresh Deferred" % (src(sr, dv_) if dv_ is not None else dname))
        is_ret_d = lambda n: _returns_var(rn, n, dname)
        for (n, w) in find_path_avoiding(rcfg, lambda n: n.kind == "exit", gate_node=is_ret_d, skip_exc_edges=True):
            r.violation(sr, sr.loc(), "_start_reading can finish without returning the Deferred that _loop fires: _done "
                        "would move a partial file into CHK_encoding (path: %s)" % w.brief(), w)
        for (n, w) in find_path_avoiding(rcfg, is_ret_d, gate_node=has_call_named("self._loop"), kill=stores(dname)):
            r.violation(sr, sr.loc(n.ast), "the returned Deferred was not handed to _loop", w)

    # -- 5. same encoding pipeline on the helper ----------------------------
    with ctx.rule("C44.5", "R6/E7", "CHKUploadHelper inherits CHKUploader's pipeline unchanged and starts it after fetcher "
                  "and reader; reader and fetcher share the encoding file; incoming/encoding paths are distinct functions "
                  "of the storage index", expected=8) as r:
        uh = idx.cls(UH)
        base = idx.cls(UP + ":CHKUploader")
        r.require(base in uh.mro(), uh.qual, uh.module.relpath, "CHKUploadHelper no longer derives from upload.CHKUploader")
        for name in ("start_encrypted", "locate_all_shareholders", "set_shareholders", "_encrypted_done"):
            m = uh.lookup(name)
            if m is None:
                raise AnchorVanished("CHKUploader.%s" % name)
            r.site(m, None, "pipeline step")
            r.require(m.cls is base, m, m.loc(), "the helper overrides %s: helper-side and direct uploads no longer share "
                      "the encode/placement code" % name)
        # direct path enters through the same method
        st = idx.func(UP + ":CHKUploader.start")
        se = [c for c in _calls(st, "start_encrypted") if call_name(c) == "self.start_encrypted"]
        r.require(bool(se), st, st.loc(), "CHKUploader.start no longer delegates to start_encrypted")
        r.site(st, se[0] if se else None, "direct entry")
        # __init__ chain
        init = idx.func(UH + ".__init__")
        regs = _regs(init)
        se_regs = [x for x in regs if isinstance(x.target, ast.Lambda)
                   and any(call_name(c) == "self.start_encrypted" for c in contains_call(x.target.body, "start_encrypted"))] \
            + [x for x in regs if x.target_name() == "self.start_encrypted"]
        if len(se_regs) != 1 or not se_regs[0].recv:
            raise AnchorVanished("CHKUploadHelper.__init__: the link that calls self.start_encrypted")
        dvn = se_regs[0].recv
        chain = [x for x in regs if x.recv == dvn]
        srcs = [n.value for n in _own(init) if isinstance(n, ast.Assign) and any(attr_path(t) == dvn for t in n.targets)]
        r.require(len(srcs) == 1 and isinstance(srcs[0], ast.Call) and call_name(srcs[0]) == "self._fetcher.when_done",
                  init, init.loc(srcs[0] if srcs else None),
                  "the encoding chain starts from %s, not from the fetcher's when_done(): encoding could start on a partial "
                  "or missing ciphertext file" % (src(init, srcs[0]) if srcs else "?"))
        r.site(init, None, "helper chain %s" % chain)

        def calls_of(x):
            f = _cb_func(idx, init, x.target)
            if f is None:
                return set()
            return {call_name(c) for c in _calls(f)} | ({x.target_name()} if not isinstance(x.target, ast.Lambda) else set())
        i_rs = [i for i, x in enumerate(chain) if "self._reader.start" in calls_of(x)]
        i_se = [i for i, x in enumerate(chain) if "self.start_encrypted" in calls_of(x)]
        i_fin = [i for i, x in enumerate(chain) if x.target_name() == "self._finished"]
        ok = bool(i_rs and i_se and i_fin) and i_rs[0] < i_se[0] < i_fin[0]
        r.require(ok, init, init.loc(), "helper chain %s: encoding must start after the fetcher is done and the local reader "
                  "opened, and _finished must consume its result" % chain)
        if ok:
            for x in chain[:i_fin[0] + 1]:
                r.require(x.kind == "cb", init, init.loc(x.call), "%r before _finished swallows or duplicates a result" % x)
            f = _cb_func(idx, init, chain[i_se[0]].target)
            for c in _calls(f, "start_encrypted"):
                r.require(len(c.args) == 1 and attr_path(c.args[0]) == "self._reader", init, init.loc(c),
                          "start_encrypted is given %s, not the local ciphertext reader" % src(init, c.args[0]))
        # fetcher / reader share the encoding file
        fcall = [c for c in _calls(init, "CHKCiphertextFetcher")]
        rcall = [c for c in _calls(init, "LocalCiphertextReader")]
        if len(fcall) != 1 or len(rcall) != 1:
            raise AnchorVanished("CHKUploadHelper.__init__: fetcher / reader construction")
        finit = idx.func(FETCH + ".__init__")
        rinit = idx.func(LCR + ".__init__")
        fmap = _ctor_attr_map(finit)
        rmap = _ctor_attr_map(rinit)
        if "_incoming_file" not in fmap or "_encoding_file" not in fmap or "_encoding_file" not in rmap:
            raise AnchorVanished("constructor parameter -> attribute map of fetcher/reader")
        fa = _bind(finit, fcall[0])
        ra = _bind(rinit, rcall[0])
        inorm = N(init)
        r.site(init, fcall[0], "fetcher/reader files")
        enc_f = inorm.norm(fa[fmap["_encoding_file"]])
        enc_r = inorm.norm(ra[rmap["_encoding_file"]])
        inc_f = inorm.norm(fa[fmap["_incoming_file"]])
        r.require(enc_f == enc_r, init, init.loc(rcall[0]), "the reader encodes from %s but the fetcher moves the ciphertext to %s" % (enc_r, enc_f))
        r.require(inc_f != enc_f, init, init.loc(fcall[0]), "fetcher's incoming and encoding file are the same expression %s" % inc_f)
        # local reader reads that file
        ls = idx.func(LCR + ".start")
        lops = [c for c in _calls(ls, "open")]
        if not lops:
            raise AnchorVanished("LocalCiphertextReader.start no longer opens the file")
        for c in lops:
            r.site(ls, c, "reader open")
            m = arg(c, 1, "mode")
            try:
                mode = folder.fold(m, ls.module, ls.cls) if m is not None else "r"
            except NotConstant:
                mode = None
            r.require(norm_plain(c.args[0]) == "self._encoding_file" and mode == "rb", ls, ls.loc(c),
                      "local reader opens %s" % src(ls, c))
        # paths: distinct directories, keyed by the storage index
        mk = idx.func(HELPER + "._make_chk_upload_helper")
        ucall = [c for c in _calls(mk, "chk_upload")]
        if len(ucall) != 1:
            raise AnchorVanished("_make_chk_upload_helper no longer calls self.chk_upload")
        uinit = idx.func(UH + ".__init__")
        ub = _bind(uinit, ucall[0])
        mnorm = FlowNorm(mk)
        un = _node_of(mk, ucall[0])
        r.site(mk, ucall[0], "upload helper paths")
        si_p = first_positional_params(mk)[0]
        pats = {}
        for pname, attr in (("incoming_file", "self._chk_incoming"), ("encoding_file", "self._chk_encoding")):
            e = ub.get(pname)
            if e is None:
                raise AnchorVanished("CHKUploadHelper.__init__ parameter %s" % pname)
            s = mnorm.norm(un, e)
            m = re.match(r"^os\.path\.join\(%s, (.+)\)$" % re.escape(attr), s)
            r.require(m is not None, mk, mk.loc(ucall[0]), "%s is %s, not a file directly inside %s" % (pname, s, attr))
            if m:
                pats[pname] = m.group(1)
                r.require(re.search(r"\bsi_b2a\(%s\)" % re.escape(si_p), m.group(1)) is not None, mk, mk.loc(ucall[0]),
                          "%s name %s is not derived from the storage index alone" % (pname, m.group(1)))
        r.require(mnorm.norm(un, ub.get("storage_index")) == si_p, mk, mk.loc(ucall[0]), "upload helper is created for another storage index")
        hinit = idx.func(HELPER + ".__init__")
        dirs = {}
        for n in hinit.cfg().nodes:
            for attr in ("self._chk_incoming", "self._chk_encoding"):
                v = assign_value(n, attr)
                if v is not None:
                    dirs[attr] = N(hinit).norm(v)
        if len(dirs) != 2:
            raise AnchorVanished("Helper.__init__ no longer sets _chk_incoming/_chk_encoding")
        r.site(hinit, None, "helper directories")
        r.require(dirs["self._chk_incoming"] != dirs["self._chk_encoding"], hinit, hinit.loc(),
                  "CHK_incoming and CHK_encoding are the same directory (%s): a partial file would be taken for a complete one"
                  % dirs["self._chk_incoming"])

    # -- 6. one read-cap derivation for both paths --------------------------
    with ctx.rule("C44.6", "R2/R6", "Uploader.upload: both uploaders are followed by the same turn_verifycap_into_read_cap "
                  "link; the read cap is CHKFileURI(uploadable's key, fields of the returned verify cap)", expected=4) as r:
        gs = idx.func(UP + ":Uploader.upload._got_size")
        cfg = gs.cfg()
        gnorm = FlowNorm(gs)
        turn = gs.nested.get("turn_verifycap_into_read_cap")
        if turn is None:
            raise AnchorVanished("Uploader.upload._got_size.turn_verifycap_into_read_cap")
        regs = _regs(gs)
        treg = [x for x in regs if isinstance(x.target, ast.Name) and x.target.id == turn.name]
        if len(treg) != 1:
            raise AnchorVanished("registration of turn_verifycap_into_read_cap")
        treg = treg[0]
        r.require(treg.kind == "cb", gs, gs.loc(treg.call), "read-cap link registered as %s" % treg.kind)
        is_treg = lambda n: any(c is treg.call for c in node_calls(n))

        def makes(cls_name):
            return lambda n: n.kind == "stmt" and isinstance(n.ast, ast.Assign) and isinstance(n.ast.value, ast.Call) \
                and call_tail(n.ast.value) == cls_name
        for cls_name in ("AssistedUploader", "CHKUploader"):
            ns = cfg.find(makes(cls_name))
            if not ns:
                raise AnchorVanished("Uploader.upload no longer creates %s" % cls_name)
            for n in ns:
                r.site(gs, n.ast, cls_name)
            for (n, w) in find_path_from_to_avoiding(cfg, makes(cls_name), is_treg):
                r.violation(gs, gs.loc(n.ast), "an upload through %s can return without the read-cap derivation "
                            "turn_verifycap_into_read_cap (path: %s)" % (cls_name, w.brief()), w)
        # start links and the returned Deferred are the Deferred carrying the read-cap link
        starts = [x for x in regs if isinstance(x.target, ast.Lambda)
                  and any(call_tail(c) == "start" for c in contains_call(x.target.body, "start"))]
        r.require(len(starts) >= 2 and all(x.recv == treg.recv for x in starts), gs, gs.loc(),
                  "uploader.start links are not on the Deferred %s that derives the read cap" % treg.recv)
        for n in cfg.find(is_return):
            if any(is_treg(m) for m in cfg.nodes) and n.ast.value is not None and not _returns_var(gnorm, n, treg.recv) \
                    and not any(contains_call(x, "start") for x in _ret_chain(gnorm, n)):
                r.violation(gs, gs.loc(n.ast), "_got_size returns %s, not the Deferred carrying the read-cap link" % src(gs, n.ast.value))
        # every path from the registration leads to `return d2`
        for (n, w) in find_path_from_to_avoiding(cfg, is_treg, lambda m: _returns_var(gnorm, m, treg.recv)):
            r.violation(gs, gs.loc(n.ast), "read-cap Deferred is not returned", w)
        # the encrypted uploadable wraps the same uploadable whose key makes the read cap
        eus = [c for c in _calls(gs, "EncryptAnUploadable")]
        if len(eus) != 1:
            raise AnchorVanished("EncryptAnUploadable construction in Uploader.upload")
        wrapped = norm_plain(eus[0].args[0])
        keycalls = [c for c in _calls(turn, "get_encryption_key")]
        if len(keycalls) != 1:
            raise AnchorVanished("get_encryption_key call in turn_verifycap_into_read_cap")
        r.site(turn, keycalls[0], "key source")
        r.require(attr_path(keycalls[0].func.value) == wrapped, turn, turn.loc(keycalls[0]),
                  "the read-cap key comes from %s but the ciphertext was encrypted from %s" % (src(turn, keycalls[0].func.value), wrapped))
        for x in starts:
            for c in contains_call(x.target.body, "start"):
                r.require(bool(c.args) and isinstance(c.args[0], ast.Name)
                          and gnorm.resolve(_node_of(gs, x.call), c.args[0]) is eus[0], gs, gs.loc(c),
                          "uploader.start is given %s, not the EncryptAnUploadable of this upload" % src(gs, c.args[0] if c.args else c))
        # put_readcap_into_results
        tregs = _regs(turn)
        kv = {attr_path(t) for n in _own(turn) if isinstance(n, ast.Assign) and n.value is keycalls[0] for t in n.targets}
        kreg = [x for x in tregs if x.recv in kv]
        if len(kreg) != 1 or kreg[0].kind != "cb":
            raise AnchorVanished("callback on get_encryption_key()")
        put = _cb_func(idx, turn, kreg[0].target)
        if put is None:
            raise AnchorVanished("put_readcap_into_results")
        key_p = first_positional_params(put)[0]
        ur_p = first_positional_params(turn)[0]
        pn = FlowNorm(put)
        caps = [c for c in _calls(put, "CHKFileURI")]
        if len(caps) != 1:
            raise AnchorVanished("CHKFileURI construction")
        c = caps[0]
        cn = _node_of(put, c)
        r.site(put, c, "read cap")
        V = r"(\w+\.)*from_string\(%s\.get_verifycapstr\(\)\)" % re.escape(ur_p)
        fields = ["key", "uri_extension_hash", "needed_shares", "total_shares", "size"]
        got = {}
        for i, fname in enumerate(fields):
            e = arg(c, i, fname)
            got[fname] = pn.norm(cn, e) if e is not None else None
        r.require(got["key"] == key_p, put, put.loc(c), "read cap key is %s, not the uploadable's encryption key" % got["key"])
        for fname in fields[1:]:
            r.require(got[fname] is not None and re.match("^" + V + r"\." + fname + "$", got[fname]) is not None, put, put.loc(c),
                      "read cap field %s is %s, not taken from the verify cap returned by the upload" % (fname, got[fname]))
        sets = [x for x in _calls(put, "set_uri")]
        r.require(len(sets) == 1 and attr_path(sets[0].func.value) == ur_p
                  and re.match(r"^(\w+\.)*CHKFileURI\(.*\)\.to_string\(\)$", pn.norm(_node_of(put, sets[0]), sets[0].args[0])) is not None,
                  put, put.loc(), "the read cap is not stored into the upload results with set_uri")
        for n in put.cfg().find(is_return):
            r.require(_returns_var(pn, n, ur_p), put, put.loc(n.ast), "returns %s" % src(put, n.ast.value))
        tn_ = FlowNorm(turn)
        for n in turn.cfg().find(is_return):
            r.require(any(_returns_var(tn_, n, k_) for k_ in kv), turn, turn.loc(n.ast), "turn_verifycap_into_read_cap returns %s, "
                      "not the Deferred that stores the read cap" % src(turn, n.ast.value))

    # -- 7. assisted verify cap / helper result fields ----------------------
    with ctx.rule("C44.7", "R6/R1", "AssistedUploader builds the verify cap from its own SI/k/N/size and the helper's UEB "
                  "hash; the helper derives that hash from the CHKUploader verify cap or from the fetched UEB; "
                  "already-present needs all N shares and a UEB and creates/uses no upload helper; one registered upload "
                  "helper per storage index", expected=7) as r:
        au = UP + ":AssistedUploader"
        bv = idx.func(au + "._build_verifycap")
        hp = first_positional_params(bv)[0]
        bn = FlowNorm(bv)
        caps = [c for c in _calls(bv, "CHKFileVerifierURI")]
        if len(caps) != 1:
            raise AnchorVanished("CHKFileVerifierURI construction in _build_verifycap")
        c = caps[0]
        cn = _node_of(bv, c)
        r.site(bv, c, "assisted verify cap")
        want = {"storage_index": "self._storage_index", "uri_extension_hash": hp + ".uri_extension_hash",
                "needed_shares": "self._needed_shares", "total_shares": "self._total_shares", "size": "self._size"}
        for i, fname in enumerate(["storage_index", "uri_extension_hash", "needed_shares", "total_shares", "size"]):
            e = arg(c, i, fname)
            s = bn.norm(cn, e) if e is not None else None
            r.require(s == want[fname], bv, bv.loc(c), "verify cap field %s is %s (expected %s)" % (fname, s, want[fname]))
        urs = [x for x in _calls(bv, "UploadResults")]
        if len(urs) != 1:
            raise AnchorVanished("UploadResults construction in _build_verifycap")
        vs = kwarg(urs[0], "verifycapstr")
        r.require(vs is not None and re.match(r"^(\w+\.)*CHKFileVerifierURI\(.*\)\.to_string\(\)$", bn.norm(_node_of(bv, urs[0]), vs)) is not None,
                  bv, bv.loc(urs[0]), "upload results carry verifycapstr=%s" % (src(bv, vs) if vs is not None else None))
        # where the client-side ingredients come from
        ast_ = idx.func(au + ".start")
        sp = first_positional_params(ast_)
        r.site(ast_, None, "client ingredients")
        _require_store(r, ast_, "self._storage_index", lambda s: s == sp[1], "the storage_index argument")
        gsz = idx.func(au + "._got_size")
        _require_store(r, gsz, "self._size", lambda s: s == first_positional_params(gsz)[0], "the size reported by the uploadable")
        gp = idx.func(au + "._got_all_encoding_parameters")
        pp = first_positional_params(gp)[0]
        _require_store(r, gp, "self._needed_shares", lambda s: s == pp + "[0]", "k = params[0]")
        _require_store(r, gp, "self._total_shares", lambda s: s == pp + "[2]", "N = params[2]")
        chain = [x.target_name() for x in _regs(ast_) if x.kind == "cb"]
        order = [t for t in chain if t in ("self._got_size", "self._got_all_encoding_parameters", "self._contact_helper", "self._build_verifycap")]
        r.require(order == ["self._got_size", "self._got_all_encoding_parameters", "self._contact_helper", "self._build_verifycap"],
                  ast_, ast_.loc(), "AssistedUploader.start chain order is %s" % order)
        # the SI handed to AssistedUploader.start is the encrypted uploadable's
        gs = idx.func(UP + ":Uploader.upload._got_size")
        regs = _regs(gs)
        for i, x in enumerate(regs):
            if isinstance(x.target, ast.Lambda) and any(call_tail(cc) == "start" and len(cc.args) == 2
                                                        for cc in contains_call(x.target.body, "start")):
                cc = [cc for cc in contains_call(x.target.body, "start") if len(cc.args) == 2][0]
                lam_p = [a.arg for a in x.target.args.args]
                prev = regs[i - 1] if i > 0 else None
                ok = len(lam_p) == 1 and isinstance(cc.args[1], ast.Name) and cc.args[1].id == lam_p[0] and prev is not None \
                    and prev.recv == x.recv and isinstance(prev.target, ast.Lambda) \
                    and isinstance(prev.target.body, ast.Call) and call_tail(prev.target.body) == "get_storage_index" \
                    and norm_plain(prev.target.body.func.value) == norm_plain(cc.args[0])
                r.require(ok, gs, gs.loc(cc), "AssistedUploader.start is not given eu.get_storage_index() of the same encrypted uploadable")
        # helper side: fresh upload
        fin = idx.func(UH + "._finished")
        fp = first_positional_params(fin)[0]
        r.site(fin, None, "helper results of an upload")
        Vh = r"(\w+\.)*from_string\(%s\.get_verifycapstr\(\)\)" % re.escape(fp)
        hv = _hur_var(fin)
        _require_store(r, fin, hv + ".uri_extension_hash", lambda s: re.match("^" + Vh + r"\.uri_extension_hash$", s) is not None,
                       "the UEB hash of the verify cap CHKUploader produced")
        _require_store(r, fin, hv + ".uri_extension_data", lambda s: s == fp + ".get_uri_extension_data()",
                       "the UEB data CHKUploader produced")
        fires = [cc for cc in _calls(fin, "fire") if call_name(cc) == "self._finished_observers.fire"]
        r.require(bool(fires) and all(len(cc.args) == 1 and attr_path(cc.args[0]) == hv for cc in fires), fin, fin.loc(),
                  "_finished does not hand the HelperUploadResults to the waiting client")
        # helper side: already present
        ck = idx.func(HELPER + "._check_chk")
        regs = _regs(ck)
        cvar = {attr_path(t) for n in _own(ck) if isinstance(n, ast.Assign)
                and isinstance(n.value, ast.Call) and call_tail(n.value) == "check" for t in n.targets}
        cregs = [x for x in regs if x.recv in cvar and x.kind == "cb"]
        if not cregs:
            raise AnchorVanished("callback on c.check() in Helper._check_chk")
        chk = _cb_func(idx, ck, cregs[0].target)
        rp = first_positional_params(chk)[0]
        r.site(chk, None, "helper results when already present")
        hv2 = _hur_var(chk)
        _require_store(r, chk, hv2 + ".uri_extension_hash", lambda s: s == rp + "[2]", "element 2 of the checker's result")
        _require_store(r, chk, hv2 + ".uri_extension_data", lambda s: s == rp + "[1]", "element 1 of the checker's result")
        cfgk = chk.cfg()
        kn = FlowNorm(chk)
        nonnull = lambda n: is_return(n) and not _falsy_const(_ret_expr(kn, n))
        for (n, w) in find_path_avoiding(cfgk, nonnull, gate_edge=lambda n, lab: kn.edge_fact(n, lab) == ("truth", rp, None)):
            r.violation(chk, chk.loc(n.ast), "already-present results are returned although the check found nothing", w)

        def found_transfer(n, lab, nxt, st):
            if lab == "exc":
                return None
            hv_, ok = st
            if rp in node_stores(n):
                hv_ = "?"
            v = _flag_on_edge(kn, n, lab, rp)
            if v is not None:
                if hv_ != "?" and hv_ != v:
                    return None
                hv_ = v
            if _returns_var(kn, n, hv2):
                ok = True
            return (hv_, ok)
        fvis, fpar = explore(cfgk, ("?", False), found_transfer)
        r.count(len(fvis))
        for (nid, st) in sorted(fvis):
            if cfgk.nodes[nid].kind == "exit" and st == ("T", False):
                w = witness(cfgk, fpar, (nid, st))
                r.violation(chk, chk.loc(), "the check found the file in the grid but %s does not return the "
                            "HelperUploadResults (path: %s): the helper does not report the file as present and it is "
                            "uploaded again" % (short(chk), w.brief()), w)
                break
        dn = idx.func(CUF + "._done")
        dnn = FlowNorm(dn)
        dcfg = dn.cfg()
        pos = [n for n in dcfg.find(is_return) if not _falsy_const(_ret_expr(dnn, n))]
        if not pos:
            raise AnchorVanished("CHKCheckerAndUEBFetcher._done has no positive return")
        for n in pos:
            r.site(dn, n.ast, "file-is-present verdict")
            v = _ret_expr(dnn, n)
            ok = isinstance(v, ast.Tuple) and len(v.elts) == 3 and attr_path(v.elts[1]) == "self._ueb_data" \
                and attr_path(v.elts[2]) == "self._ueb_hash"
            r.require(ok, dn, dn.loc(n.ast), "checker returns %s; Helper._check_chk expects (sharemap, ueb_data, ueb_hash)" % src(dn, v))

        def all_found(n, lab):
            f = dnn.edge_fact(n, lab)
            return bool(f) and f[0] in ("<=", "==") and {f[1], f[2]} == {"self._ueb_data['total_shares']", "len(self._found_shares)"} \
                and (f[0] == "==" or f[1] == "self._ueb_data['total_shares']")
        for (n, w) in find_path_avoiding(dcfg, lambda x: x in pos, gate_edge=all_found):
            r.violation(dn, dn.loc(n.ast), "the file is reported as already present without all N shares having been found "
                        "(path: %s)" % w.brief(), w)
        def ueb_known(n, lab):
            f = dnn.edge_fact(n, lab)
            if not f:
                return False
            if f[0] == "truth":
                return f[1] in ("self._ueb_data", "self._ueb_hash")
            return f[0] in ("is not", "!=") and "None" in (f[1], f[2]) \
                and bool({f[1], f[2]} & {"self._ueb_data", "self._ueb_hash"})
        for (n, w) in find_path_avoiding(dcfg, lambda x: x in pos, gate_edge=ueb_known,
                                         kill=stores_any(["self._ueb_data", "self._ueb_hash"])):
            r.violation(dn, dn.loc(n.ast), "the file-is-present verdict is reached without having seen that a UEB was fetched "
                        "(path: %s): with a UEB the file is never reported as present (it is uploaded again), without one "
                        "the verdict carries None as UEB hash" % w.brief(), w)
        gu = idx.func(CUF + "._got_uri_extension")
        up_ = first_positional_params(gu)[0]
        r.site(gu, None, "UEB hash of the fetched UEB")
        _require_store(r, gu, "self._ueb_hash", lambda s: re.match(r"^(\w+\.)*uri_extension_hash\(%s\)$" % re.escape(up_), s) is not None,
                       "uri_extension_hash of the fetched UEB")
        _require_store(r, gu, "self._ueb_data", lambda s: re.match(r"^(\w+\.)*unpack_extension\(%s\)$" % re.escape(up_), s) is not None,
                       "the unpacked fetched UEB")
        # no upload helper when already present; client uploads only when given one
        dc = idx.func(HELPER + "._did_chk_check")
        ap = first_positional_params(dc)[0]
        dcn = FlowNorm(dc)
        mk = dc.cfg().find(has_call("_make_chk_upload_helper"))
        if not mk:
            raise AnchorVanished("_did_chk_check no longer creates upload helpers")
        for n in mk:
            r.site(dc, n.ast, "upload helper creation")
        for (n, w) in find_path_avoiding(dc.cfg(), has_call("_make_chk_upload_helper"),
                                         gate_edge=lambda n, lab: dcn.edge_fact(n, lab) == ("false", ap, None)):
            r.violation(dc, dc.loc(n.ast), "an upload helper is created although the file was found in the grid", w)
        # one upload helper (one fetcher, one CHK_incoming file) per storage index: creation only when the registry has
        # no entry for that storage index, and the new upload helper is registered on every path
        for n in mk:
            for c in node_calls(n):
                if call_tail(c) != "_make_chk_upload_helper" or not c.args:
                    continue
                key = dcn.norm(n, c.args[0])
                getre = re.compile(r"^self\._active_uploads\.get\(%s(, None)?\)$" % re.escape(key))

                def absent(m, lab, _key=key, _getre=getre):
                    f = dcn.edge_fact(m, lab)
                    if not f:
                        return False
                    if f[0] == "not in" and f[1] == _key and f[2] == "self._active_uploads":
                        return True
                    if f[0] == "false" and _getre.match(f[1] or ""):
                        return True
                    return f[0] in ("is", "==") and "None" in (f[1], f[2]) \
                        and any(_getre.match(x or "") for x in (f[1], f[2]))
                for (n2, w) in find_path_avoiding(dc.cfg(), lambda x, _n=n: x is _n, gate_edge=absent,
                                                  kill=stores("self._active_uploads[]")):
                    r.violation(dc, dc.loc(c), "an upload helper is created for %s without having seen that _active_uploads has "
                                "none for it (path: %s): when the same file is asked for twice before the first check "
                                "finishes, two fetchers append to the same CHK_incoming file and the ciphertext is "
                                "duplicated" % (key, w.brief()), w)
        is_reg = lambda n: n.kind == "stmt" and "self._active_uploads[]" in node_stores(n) and isinstance(n.ast, ast.Assign)
        for (n, w) in find_path_from_to_avoiding(dc.cfg(), lambda x: any(x is m for m in mk) and not is_reg(x), is_reg):
            r.violation(dc, dc.loc(n.ast), "the new upload helper is not entered into _active_uploads on every path (path: %s): "
                        "the next request for the same file creates a second one fetching into the same CHK_incoming file"
                        % w.brief(), w)
        for n in dc.cfg().find(is_return):
            v = _ret_expr(dcn, n)
            if isinstance(v, ast.Tuple) and len(v.elts) == 2 and attr_path(v.elts[0]) == ap:
                r.require(_falsy_const(v.elts[1]), dc, dc.loc(n.ast), "already-present answer also carries an upload helper")
        ch = idx.func(au + "._contacted_helper")
        chn = FlowNorm(ch)
        ccfg = ch.cfg()
        ups = ccfg.find(lambda n: any(call_tail(c) == "callRemote" and c.args and isinstance(c.args[0], ast.Constant)
                                      and c.args[0].value == "upload" for c in node_calls(n, into_lambda=True)))
        if not ups:
            raise AnchorVanished("_contacted_helper no longer calls upload_helper.callRemote('upload')")
        for n in ups:
            r.site(ch, n.ast, "ciphertext upload")
        # the upload-helper variable: receiver of callRemote("upload")
        recvs = {attr_path(c.func.value) for n in ups for c in node_calls(n, into_lambda=True)
                 if call_tail(c) == "callRemote" and c.args and isinstance(c.args[0], ast.Constant) and c.args[0].value == "upload"}
        recvs.discard(None)
        if len(recvs) != 1:
            raise AnchorVanished("upload helper variable in _contacted_helper")
        uhv = recvs.pop()
        for (n, w) in find_path_avoiding(ccfg, lambda x: x in ups,
                                         gate_edge=lambda n, lab: (chn.edge_fact(n, lab) or (None, None, None))[0] in ("truth", "is not")
                                         and _names_var(chn, n, lab, uhv)):
            r.violation(ch, ch.loc(n.ast), "ciphertext upload is attempted without an upload helper", w)
        # without an upload helper, the helper's own results are returned
        rp_ = first_positional_params(ch)[0]
        for n in ccfg.find(is_return):
            v = n.ast.value
            if isinstance(v, ast.Name) and not any(_returns_var(chn, n, x.recv) for x in _regs(ch) if x.recv):
                r.require(chn.norm(n, v) == rp_ + "[0]", ch, ch.loc(n.ast), "returns %s instead of the helper's results" % chn.norm(n, v))

    # -- 8. client side: serve the requested offset -------------------------
    with ctx.rule("C44.8", "R1", "RemoteEncryptedUploadable.remote_read_encrypted: skips (hash-only) up to the requested "
                  "offset, never backwards, then reads `length` bytes for real; the position advances in a callback of "
                  "the read", expected=2) as r:
        rr = idx.func(UP + ":RemoteEncryptedUploadable.remote_read_encrypted")
        off, ln = first_positional_params(rr)[:2]
        cfg = rr.cfg()
        rn = FlowNorm(rr)
        skips = [(n, c) for n in cfg.nodes for c in node_calls(n) if call_name(c) == "self._read_encrypted"]
        r.require(bool(skips), rr, rr.loc(), "remote_read_encrypted no longer reads ahead to a requested offset beyond its "
                  "position: a resumed helper upload (offset = bytes already held) cannot be served")
        r.site(rr, None, "skip-ahead")
        for (n, c) in skips:
            a0 = arg(c, 0, "length")
            dep = depends_on(rr, a0) if a0 is not None else set()
            r.require(off in dep, rr, rr.loc(c), "the skipped amount %s does not depend on the requested offset" % src(rr, a0))
        ahead = lambda n, lab: rn.edge_fact(n, lab) in (("<", "self._offset", off), ("!=", "self._offset", off), ("!=", off, "self._offset"))
        for (n, w) in find_path_avoiding(cfg, lambda x: any(x is s for (s, _c) in skips), gate_edge=ahead):
            r.violation(rr, rr.loc(n.ast), "hash-only skip on a path where the offset is not ahead of the reader", w)
        regs = _regs(rr)
        real = None
        for x in regs:
            f = _cb_func(idx, rr, x.target)
            if f is None:
                continue
            for c in _calls(f, "_read_encrypted"):
                real = (x, f, c)
                break
            if real:
                break
        if real is None:
            raise AnchorVanished("the real read after the skip")
        x, f, c = real
        r.site(f, c, "real read")
        ho = kwarg(c, "hash_only") if kwarg(c, "hash_only") is not None else arg(c, 1)
        r.require(x.kind == "cb" and attr_path(arg(c, 0, "length")) == ln and isinstance(ho, ast.Constant) and ho.value is False,
                  f, f.loc(c), "after the skip the client reads %s" % src(f, c))
        rets = [n for n in f.cfg().find(is_return)]
        fnn = FlowNorm(f)
        r.require(all(_ret_expr(fnn, n) is c for n in rets) and bool(rets), f, f.loc(),
                  "the data read is not what is returned to the helper")
        at = lambda n, lab: fnn.edge_fact(n, lab) in (("==", "self._offset", off), ("==", off, "self._offset"))
        for (n, w) in find_path_avoiding(f.cfg(), lambda m: any(cc is c for cc in node_calls(m)), gate_edge=at):
            r.violation(f, f.loc(n.ast), "ciphertext is served without checking that the reader is at the requested offset", w)
        # _read_encrypted advances _offset by what it delivered
        re_ = idx.func(UP + ":RemoteEncryptedUploadable._read_encrypted")
        adv = [n for n in ast.walk(re_.node) if isinstance(n, ast.AugAssign) and attr_path(n.target) == "self._offset"]
        r.require(len(adv) >= 1 and all(isinstance(n.op, ast.Add) for n in adv), re_, re_.loc(),
                  "_read_encrypted no longer advances self._offset")
        # ... in a callback that really runs: registered on the Deferred of self._eu.read_encrypted(..), which is returned
        owners = {_innermost(re_, n).qual: _innermost(re_, n) for n in adv}
        ren_ = FlowNorm(re_)
        rregs = _regs(re_)
        rdv = {attr_path(t) for n in _own(re_) if isinstance(n, ast.Assign)
               and any(isinstance(c, ast.Call) and call_name(c) == "self._eu.read_encrypted" for c in own_nodes(n.value))
               for t in n.targets}
        rdv.discard(None)
        for g in owners.values():
            r.site(g, None, "offset advance")
            if g is re_:
                continue
            hooked = [x for x in rregs if x.kind in ("cb", "both", "pair") and x.recv in rdv
                      and _cb_func(idx, re_, x.target) is g]
            r.require(bool(hooked), re_, re_.loc(g.node), "%s advances self._offset but is not a callback of the Deferred of "
                      "self._eu.read_encrypted(..): the reader's position is lost, the next request looks like a skip and "
                      "the wrong ciphertext range is served" % g.name)
            # a hash-only read delivers no data: its advance must be the requested length, not the size of the result
            rp_len, rp_flag = first_positional_params(re_)[:2]
            gcfg_, gnorm_ = g.cfg(), FlowNorm(g)

            def by_length(n, _g=g):
                a = n.ast
                return n.kind == "stmt" and isinstance(a, ast.AugAssign) and isinstance(a.op, ast.Add) \
                    and attr_path(a.target) == "self._offset" and rp_len in depends_on(_g, a.value)

            def adv_transfer(n, lab, nxt, st):
                if lab == "exc":
                    return None
                hv_, ok = st
                v = _flag_on_edge(gnorm_, n, lab, rp_flag)
                if v is not None:
                    if hv_ != "?" and hv_ != v:
                        return None
                    hv_ = v
                return (hv_, ok or by_length(n))
            avis, apar = explore(gcfg_, ("?", False), adv_transfer)
            r.count(len(avis))
            for (nid, st) in sorted(avis):
                if gcfg_.nodes[nid].kind == "exit" and st[0] != "F" and not st[1]:
                    w = witness(gcfg_, apar, (nid, st))
                    r.violation(g, g.loc(), "after a %s read %s does not advance self._offset by the requested %s (path: %s): "
                                "a skip returns no data, so the position stays behind the requested offset and the resumed "
                                "transfer is refused or served from the wrong range" % (rp_flag, g.name, rp_len, w.brief()), w)
                    break
            for x in hooked:
                for (n, w) in find_path_from_to_avoiding(re_.cfg(),lambda m, _c=x.call: any(c is _c for c in node_calls(m)),
                                                         lambda m, _v=x.recv: _returns_var(ren_, m, _v)):
                    r.violation(re_, re_.loc(n.ast), "the Deferred that advances self._offset is not returned: the caller "
                                "serves the next range before the position is updated", w)

    # -- 9. keystream continuity on the client ------------------------------
    with ctx.rule("C44.9", "R10/R6", "every plaintext chunk the client consumes runs through the one stateful AES-CTR "
                  "encryptor whether or not hash_only is set (the flag decides only what is returned); the read chain "
                  "down to the encryptor is not control-dependent on hash_only; the encryptor is created once",
                  expected=6) as r:
        eau = idx.cls(UP + ":EncryptAnUploadable")
        he = idx.func(UP + ":EncryptAnUploadable._hash_and_encrypt_plaintext")
        hp = first_positional_params(he)
        if len(hp) < 2:
            raise AnchorVanished("_hash_and_encrypt_plaintext(data, hash_only) parameters")
        data_p, flag = hp[0], hp[1]
        hcfg = he.cfg()
        hnorm = FlowNorm(he)
        encs = []
        for n in hcfg.nodes:
            for c in node_calls(n):
                if call_tail(c) == "encrypt_data" and len(c.args) == 2 and hnorm.norm(n, c.args[0]) == "self._encryptor":
                    encs.append((n, c))
        if not encs:
            raise AnchorVanished("_hash_and_encrypt_plaintext no longer feeds self._encryptor (aes.encrypt_data(self._encryptor, ..))")
        enc_nodes = [n for (n, _c) in encs]
        is_enc = lambda n: any(n is m for m in enc_nodes)
        chunk_vars = set()
        for (n, c) in encs:
            r.site(he, c, "keystream advance")
            dep = depends_on(he, c.args[1])
            r.require(data_p in dep, he, he.loc(c), "the encryptor is fed %s, which is not the plaintext handed to "
                      "_hash_and_encrypt_plaintext" % src(he, c.args[1]))
            chunk_vars |= {l for l in leaves(c.args[1]) if "." not in l and l != data_p}
            g = _flag_guard(n, c, flag)
            r.require(g is None, he, he.loc(c), "aes.encrypt_data(self._encryptor, ..) is evaluated only under %s: skipped bytes "
                      "(hash_only=True) do not advance the AES-CTR keystream" % (src(he, g) if g is not None else ""))
        # E1: with hash_only set the encryptor must still be reachable
        def hv_only(n, lab, nxt, st):
            if lab == "exc":
                return None
            if flag in node_stores(n):
                st = "?"
            v = _flag_on_edge(hnorm, n, lab, flag)
            if v is not None:
                if st != "?" and st != v:
                    return None
                st = v
            return st
        visited, _parent = explore(hcfg, "?", hv_only)
        r.count(len(visited))
        if not any(is_enc(hcfg.nodes[nid]) and st != "F" for (nid, st) in visited):
            n0, c0 = encs[0]
            r.violation(he, he.loc(c0), "aes.encrypt_data(self._encryptor, ..) runs only when %s is false: bytes skipped "
                        "with hash_only=True (resume at offset > 0) do not advance the AES-CTR keystream, so the ciphertext "
                        "served after the skip is encrypted from the wrong counter" % flag)
        # E2: per consumed chunk
        def takes_chunk(n):
            if n.kind == "iter":
                return bool(chunk_vars & node_stores(n))
            return n.kind == "stmt" and isinstance(n.ast, (ast.Assign, ast.AnnAssign)) and bool(chunk_vars & node_stores(n))
        takers = hcfg.find(takes_chunk)
        if chunk_vars and not takers:
            raise AnchorVanished("_hash_and_encrypt_plaintext: where the chunk given to the encryptor is taken from the data")
        for n in takers:
            r.site(he, n.ast, "chunk taken")
        bad, nst = _flag_dependent_skips(he, flag, takes_chunk if takers else None, is_enc)
        r.count(nst)
        for (n, w) in bad:
            r.violation(he, he.loc(n.ast), "a plaintext chunk is consumed without going through self._encryptor when %s is set "
                        "(path: %s): the AES-CTR keystream falls behind the file offset and a resumed transfer gets "
                        "wrong ciphertext" % (flag, w.brief()), w)
        # the read chain above the encryptor
        # (found by role: from the entry point down through nested defs / lambdas / callback registrations / helper
        # methods of the same class - `x = yield self.helper(..)` in an inlineCallbacks body is a plain call here -
        # with the hash_only flag followed through the arguments of every hop)
        reu = idx.func(UP + ":RemoteEncryptedUploadable._read_encrypted")
        eau_top = idx.func(UP + ":EncryptAnUploadable.read_encrypted")
        chain = [(eau_top, "self._hash_and_encrypt_plaintext", "hash and encrypt"),
                 (eau_top, "self.original.read", "plaintext read"),
                 (reu, "self._eu.read_encrypted", "read through the encrypting wrapper")]
        done_levels = set()
        for (top, callee, what) in chain:
            tp = first_positional_params(top)
            if len(tp) < 2:
                raise AnchorVanished("%s(length, hash_only) parameters" % top.qual)
            paths = _role_sites(idx, top, callee, tp[1])
            if not paths:
                raise AnchorVanished("%s no longer reaches %s" % (top.qual, callee))
            for path in paths:
                g0, c0, _s0, _f0 = path[0]
                r.site(g0, c0, what)
                for (level, c, sub, lflag) in path:
                    key = (level.qual, id(c) if c is not None else sub.qual, lflag)
                    if key in done_levels or lflag is None:
                        continue
                    done_levels.add(key)
                    if c is not None:
                        gate = (lambda n, _c=c: any(x is _c for x in node_calls(n)))
                        for n in level.cfg().nodes:
                            if gate(n):
                                gd_ = _flag_guard(n, c, lflag)
                                r.require(gd_ is None, level, level.loc(c), "%s (%s) is evaluated only under %s: skipped bytes "
                                          "must be read, hashed and encrypted like served ones"
                                          % (callee, what, src(level, gd_) if gd_ is not None else ""))
                    else:
                        gate = _mentions(sub)
                    bad, nst = _flag_dependent_skips(level, lflag, None, gate)
                    r.count(nst)
                    for (n, w) in bad:
                        r.violation(level, level.loc(n.ast), "%s (%s) is skipped when %s is set (path: %s): skipped bytes must be "
                                    "read, hashed and encrypted like served ones or the keystream position is lost"
                                    % (callee, what, lflag, w.brief()), w)
        # one encryptor per upload
        ge = idx.func(UP + ":EncryptAnUploadable._get_encryptor")
        gcfg = ge.cfg()
        gnorm = FlowNorm(ge)
        fresh = gcfg.find(has_call("get_encryption_key"))
        if not fresh:
            raise AnchorVanished("_get_encryptor no longer asks for the encryption key")
        have_none = lambda n, lab: gnorm.edge_fact(n, lab) in (("false", "self._encryptor", None), ("is", "self._encryptor", "None"),
                                                              ("is", "None", "self._encryptor"), ("==", "self._encryptor", "None"))
        for n in fresh:
            r.site(ge, n.ast, "encryptor creation")
        for (n, w) in find_path_avoiding(gcfg, lambda x: any(x is m for m in fresh), gate_edge=have_none, kill=stores("self._encryptor")):
            r.violation(ge, ge.loc(n.ast), "_get_encryptor makes a new encryptor although one may exist (path: %s): every "
                        "read_encrypted call would restart the AES-CTR keystream at 0, so the ciphertext depends on the read "
                        "sizes, which differ between the helper's fetch and a direct upload" % w.brief(), w)
        n_store = 0
        for c in eau.mro():
            for m in c.methods.values():
                for x in ast.walk(m.node):
                    if isinstance(x, ast.Attribute) and isinstance(x.ctx, (ast.Store, ast.Del)) and attr_path(x) == "self._encryptor":
                        n_store += 1
                        inner = _innermost(m, x)
                        if inner.name == "__init__" or (inner.parent is not None and inner.parent.qual == ge.qual):
                            continue
                        raise AnalysisError("%s repositions self._encryptor: keystream continuity is not decided for this design"
                                            % inner.qual)
        if n_store < 2:
            raise AnchorVanished("stores of self._encryptor in EncryptAnUploadable")

    # -- 10. a failed transfer is reported and deregistered ------------------
    with ctx.rule("C44.10", "E7/R4", "a failure of the ciphertext transfer reaches the fetcher's and the upload helper's "
                  "errbacks, which notify their observers and call Helper.upload_finished on every path before anything "
                  "that can raise in the not-yet-encoding state; upload_finished drops the storage index from "
                  "_active_uploads (else the resumed upload is handed the dead upload helper)", expected=8) as r:
        uh = idx.cls(UH)
        init = idx.func(UH + ".__init__")
        comp = _components(idx, init)
        # (a) the upload helper's chain ends in an error handler
        regs = _regs(init)
        fin_i = [i for i, x in enumerate(regs) if x.target_name() == "self._finished"]
        if len(fin_i) != 1:
            raise AnchorVanished("CHKUploadHelper.__init__: registration of self._finished")
        dvn = regs[fin_i[0]].recv
        chain = [x for x in regs if x.recv == dvn]
        k = [i for i, x in enumerate(chain) if x.target_name() == "self._finished"][0]
        tail = [(x, _err_target(x)) for x in chain[k:] if _err_target(x) is not None and not (x is chain[k] and x.kind != "pair")]
        r.site(init, chain[k].call, "upload helper chain tail %s" % chain[k:])
        handler = None
        if r.require(bool(tail), init, init.loc(chain[k].call), "no errback after _finished on the upload helper's chain: a failed "
                     "fetch or encode is neither reported to the client nor removed from Helper._active_uploads"):
            handler = _cb_func(idx, init, tail[-1][1])
            if handler is None or handler.cls is None or uh not in handler.cls.mro() and handler.cls not in uh.mro():
                r.violation(init, init.loc(tail[-1][0].call), "failures of the upload helper's chain go to %s, which is not a "
                            "method of the upload helper: the failed upload is never removed from Helper._active_uploads"
                            % tail[-1][0].target_name())
                handler = None
        # (b) the two terminal handlers of the upload helper
        fin = idx.func(UH + "._finished")
        terminals = [(fin, False)] + ([(handler, True)] if handler is not None else [])
        for (h, failing) in terminals:
            hn = FlowNorm(h)
            fire = lambda n: any(call_name(c) == "self._finished_observers.fire" and len(c.args) == 1 for c in node_calls(n))

            def dereg(n, _hn=hn):
                for c in node_calls(n):
                    if call_name(c) == "self._helper.upload_finished" and c.args \
                            and _hn.norm(n, c.args[0]) == "self._storage_index":
                        return True
                return False
            r.site(h, None, "terminal handler (%s)" % ("failure" if failing else "success"))
            obligations = [(fire, "notifying the waiting client (self._finished_observers.fire)"),
                           (dereg, "deregistering the upload (self._helper.upload_finished(self._storage_index, ..))")]
            _check_handler(r, idx, h, obligations, comp if failing else None, init)
            if failing:
                p0 = first_positional_params(h)[0]
                for n in h.cfg().find(fire):
                    for c in node_calls(n):
                        if call_name(c) == "self._finished_observers.fire":
                            r.require(hn.norm(n, c.args[0]) == p0, h, h.loc(c), "the client is told %s, not the failure"
                                      % src(h, c.args[0]))
        # (c) Helper.upload_finished removes the entry, under the key it was registered with
        uf = idx.func(HELPER + ".upload_finished")
        si_p = first_positional_params(uf)[0]
        ufn = FlowNorm(uf)

        def drops(n):
            a = n.ast
            if n.kind == "stmt" and isinstance(a, ast.Delete):
                for t in a.targets:
                    if isinstance(t, ast.Subscript) and attr_path(t.value) == "self._active_uploads" \
                            and ufn.norm(n, t.slice) == si_p:
                        return True
            for c in node_calls(n):
                if call_name(c) == "self._active_uploads.pop" and c.args and ufn.norm(n, c.args[0]) == si_p:
                    return True
            return False
        r.site(uf, None, "deregistration")
        ws = find_path_avoiding(uf.cfg(), lambda n: n.kind == "exit", gate_node=drops, skip_exc_edges=True)
        for (n, w) in ws[:1]:
            r.violation(uf, uf.loc(), "Helper.upload_finished can return without removing the storage index from "
                        "_active_uploads (path: %s): the next upload of this file is handed the finished upload helper and "
                        "never completes" % w.brief(), w)
        dc = idx.func(HELPER + "._did_chk_check")
        dn = FlowNorm(dc)
        n_reg = 0
        for n in dc.cfg().find(stores("self._active_uploads[]")):
            a = n.ast
            if not (isinstance(a, ast.Assign) and len(a.targets) == 1 and isinstance(a.targets[0], ast.Subscript)):
                continue
            n_reg += 1
            r.site(dc, a, "registration")
            key = dn.norm(n, a.targets[0].slice)
            v = dn.resolve(n, a.value)
            ok = isinstance(v, ast.Call) and call_tail(v) == "_make_chk_upload_helper" and v.args \
                and norm_plain(v.args[0]) == key
            r.require(ok, dc, dc.loc(a), "the upload helper is registered under %s but made for %s: upload_finished(its storage "
                      "index) would not remove it" % (key, src(dc, v.args[0]) if isinstance(v, ast.Call) and v.args else src(dc, a.value)))
        if n_reg == 0:
            raise AnchorVanished("_did_chk_check no longer registers the upload helper in _active_uploads")
        # ... and self._storage_index, the key both terminal handlers deregister with, is the constructor's argument
        # (CHKUploader.__init__ leaves it None until the encoder is set up, i.e. after the fetch)
        mkf = idx.func(HELPER + "._make_chk_upload_helper")
        ucalls = _calls(mkf, "chk_upload")
        if len(ucalls) != 1:
            raise AnchorVanished("_make_chk_upload_helper no longer calls self.chk_upload")
        mkn = FlowNorm(mkf)
        si_params = [p_ for p_, e in _bind(init, ucalls[0]).items()
                     if mkn.norm(_node_of(mkf, ucalls[0]), e) == first_positional_params(mkf)[0]]
        inorm_ = FlowNorm(init)
        own_si = [(n, inorm_.norm(n, assign_value(n, "self._storage_index"))) for n in init.cfg().nodes
                  if n.kind == "stmt" and _inner(init, n.ast) and assign_value(n, "self._storage_index") is not None]
        r.site(init, own_si[0][0].ast if own_si else None, "deregistration key")
        r.require(bool(own_si) and all(v in si_params for (_n, v) in own_si), init,
                  init.loc(own_si[0][0].ast) if own_si else init.loc(),
                  "CHKUploadHelper.__init__ sets self._storage_index to %s, not to the storage index it is created for (%s): "
                  "until the encoder is set up it is None / another value, so a failed fetch calls "
                  "Helper.upload_finished with a key that is not in _active_uploads and the dead upload helper stays "
                  "registered" % ([v for (_n, v) in own_si] or "nothing", ", ".join(si_params) or "?"))
        # (d) the fetcher: failures reach _failed, which tells the upload helper
        start = idx.func(FETCH + "._start")
        sregs = _regs(start)
        dvars = {x.recv for x in sregs if x.recv}
        if len(dvars) != 1:
            raise AnchorVanished("the chain Deferred of _start is not a single variable: %s" % sorted(dvars))
        dv = dvars.pop()
        scfg = start.cfg()
        ebs = [x for x in sregs if x.recv == dv and x.kind in ("eb", "both")]
        r.site(start, None, "fetch chain error handlers %s" % ebs)
        fhandler = None
        if r.require(bool(ebs), start, start.loc(), "the fetch chain has no errback: when the client goes away the upload helper "
                     "never learns that the fetch failed and stays in Helper._active_uploads"):
            last = ebs[-1]
            fhandler = _cb_func(idx, start, last.target)
            is_eb = lambda n: any(c is last.call for c in node_calls(n))
            for (n, w) in find_path_from_to_avoiding(scfg, lambda n: n.kind == "stmt" and dv in node_stores(n), is_eb):
                r.violation(start, start.loc(n.ast), "a fetch chain started here gets no errback (path: %s)" % w.brief(), w)
            d2 = [x for x in sregs if x.recv == dv and x.target_name() == "self._done2"]
            r.require(all(sregs.index(x) < sregs.index(last) for x in d2), start, start.loc(last.call),
                      "the errback is registered before _done2: a failure inside the completion steps is not reported")
            if fhandler is None or fhandler.cls is None or fetcher not in fhandler.cls.mro():
                r.violation(start, start.loc(last.call), "failures of the fetch chain go to %s, which is not a method of the "
                            "fetcher: the upload helper never learns that the fetch failed and stays in Helper._active_uploads"
                            % last.target_name())
                fhandler = None
        if fhandler is not None:
            r.site(fhandler, None, "fetcher failure handler")
            p0 = first_positional_params(fhandler)[0]
            fhn = FlowNorm(fhandler)

            def tells(n, _hn=fhn, _p=p0):
                return any(call_name(c) == "self._done_observers.fire" and len(c.args) == 1 and _hn.norm(n, c.args[0]) == _p
                           for c in node_calls(n))
            _check_handler(r, idx, fhandler, [(tells, "passing the failure to the upload helper (self._done_observers.fire(%s))" % p0)],
                           {}, idx.func(FETCH + ".__init__"))
        # (e) _loop: a failed _fetch fails the Deferred that _start_reading returned
        lp = idx.func(FETCH + "._loop")
        fire_p = first_positional_params(lp)[0]
        ldv = {attr_path(t) for n in _own(lp) if isinstance(n, ast.Assign)
               and any(attr_path(x) == "self._fetch" for x in own_nodes(n.value)) for t in n.targets}
        ldv.discard(None)
        lregs = [x for x in _regs(lp) if x.recv in ldv]
        lerr = [(x, _err_target(x)) for x in lregs if _err_target(x) is not None]
        r.site(lp, None, "loop error link %s" % [x for (x, _t) in lerr])
        if r.require(bool(lerr), lp, lp.loc(), "_loop has no errback on the Deferred of _fetch: a lost client leaves the fetch "
                     "Deferred unfired for ever"):
            ef = _cb_func(idx, lp, lerr[0][1])
            if ef is None:
                raise AnchorVanished("_loop's errback is not resolvable")
            ep = first_positional_params(ef)[0]
            efn = FlowNorm(ef)

            def fails(n):
                return any(call_name(c) == fire_p + ".errback" and len(c.args) == 1 and efn.norm(n, c.args[0]) == ep
                           for c in node_calls(n))
            ws = find_path_avoiding(ef.cfg(), lambda n: n.kind == "exit", gate_node=fails, skip_exc_edges=True)
            for (n, w) in ws[:1]:
                r.violation(ef, ef.loc(), "_loop's errback can return without failing %s (path: %s): the Deferred that "
                            "_start_reading returned never fires and the failed fetch is never reported" % (fire_p, w.brief()), w)

    # -- 11. one consumer per stateful uploadable ----------------------------
    with ctx.rule("C44.11", "R10/E7", "the uploadable and every wrapper built around it (EncryptAnUploadable, "
                  "RemoteEncryptedUploadable: read position, hashers, AES-CTR state) are handed to at most one consumer "
                  "on every path, counting callbacks and errbacks registered on that path (no fallback / retry that "
                  "re-reads an object a first uploader may have advanced)", expected=6) as r:
        roots = [(idx.func(UP + ":Uploader.upload"), True),
                 (idx.func(UP + ":AssistedUploader.start"), False),
                 (idx.func(UP + ":CHKUploader.start"), False)]
        for (root, need_wrapper) in roots:
            ps = first_positional_params(root)
            if not ps:
                raise AnchorVanished("%s no longer takes the uploadable" % root.qual)
            oc = _OneConsumer(idx, root, ps[0])
            if need_wrapper and not any("EncryptAnUploadable" in d for d in oc.desc.values()):
                raise AnchorVanished("%s no longer wraps the uploadable in EncryptAnUploadable" % root.qual)
            n_sites = 0
            for gid in sorted(oc.desc):
                sites = oc.sites(gid)
                for (g, c) in sites:
                    n_sites += 1
                    r.site(g, c, "consumer of %s" % oc.desc[gid])
                bad = oc.overuse(gid)
                r.count(oc.states)
                if bad is not None:
                    g, node, w = bad
                    r.violation(g, g.loc(node), "%s is handed to more than one consumer on one path (consumers: %s): the "
                                "object carries a read position / hash / AES-CTR state that the first consumer (a "
                                "helper-assisted upload that already served some ciphertext) may have advanced, so a second "
                                "one - a fallback, a retry - encodes shifted ciphertext and the upload is no longer "
                                "equivalent to a direct one" % (oc.desc[gid], "; ".join(
                                    "%s in %s" % (src(f, c), short(f)) for (f, c) in sites)), w)
            if n_sites == 0:
                raise AnchorVanished("%s no longer hands the uploadable to anything" % root.qual)

    # -- 12. the need-upload decision rests on this call's grid check -------
    with ctx.rule("C44.12", "R1/R4", "Helper.remote_upload_chk answers either with the upload already active for the storage "
                  "index or with the Deferred of self._check_chk(storage_index) followed by _did_chk_check; nothing else "
                  "calls _did_chk_check / _make_chk_upload_helper / chk_upload; _check_chk answers only with the Deferred "
                  "of a checker made for its storage index; _did_chk_check reports only its argument as already present",
                  expected=7) as r:
        ru = idx.func(HELPER + ".remote_upload_chk")
        dc = idx.func(HELPER + "._did_chk_check")
        ck = idx.func(HELPER + "._check_chk")
        mkf = idx.func(HELPER + "._make_chk_upload_helper")
        si = first_positional_params(ru)[0]
        rcfg = ru.cfg()
        rn = FlowNorm(ru)
        dparams = first_positional_params(dc)
        if len(dparams) < 2:
            raise AnchorVanished("_did_chk_check(already_present, storage_index, ..) parameters")

        def is_check_call(n, v):
            while isinstance(v, ast.Call) and isinstance(v.func, ast.Attribute) \
                    and v.func.attr in ("addCallback", "addErrback", "addBoth", "addCallbacks"):
                v = v.func.value      # d = check(..).addCallback(..): the links are examined as registrations on d
            return isinstance(v, ast.Call) and call_name(v) == "self._check_chk" and bool(v.args) \
                and rn.norm(n, v.args[0]) == si

        def fed_by_check(n, var):
            vals = _reaching_values(rn, n, var)
            return vals is not None and all(is_check_call(m, v) for (m, v) in vals), vals
        # (a) the links that lead to _did_chk_check
        links, accounted = [], set()
        regs = _regs(ru)
        for x in regs:
            tgt = x.target
            hit = None
            if attr_path(tgt) == "self._did_chk_check":
                accounted.add(id(tgt))
                hit = (x.args[0] if x.args else None)
            else:
                f = _cb_func(idx, ru, tgt) if isinstance(tgt, (ast.Lambda, ast.Name)) else None
                if f is not None and f.parent is ru:
                    fp = first_positional_params(f)
                    for c in _calls(f, "_did_chk_check"):
                        if call_name(c) == "self._did_chk_check" and fp and c.args and attr_path(c.args[0]) == fp[0]:
                            accounted.add(id(c))
                            hit = c.args[1] if len(c.args) > 1 else kwarg(c, dparams[1])
            if hit is None and not (attr_path(tgt) == "self._did_chk_check"):
                continue
            links.append(x)
            rnode = _node_of(ru, x.call)
            r.site(ru, x.call, "decision link on %s" % (x.recv or "?"))
            r.require(x.kind == "cb", ru, ru.loc(x.call), "_did_chk_check is registered as %s: it must run on the result of the "
                      "grid check and only on it" % x.kind)
            r.require(hit is not None and rn.norm(rnode, hit) == si, ru, ru.loc(x.call),
                      "_did_chk_check decides for %s, not for the storage index that was checked (%s)"
                      % (src(ru, hit) if hit is not None else "nothing", si))
            if not x.recv:
                raise AnalysisError("remote_upload_chk: the Deferred that _did_chk_check is registered on is not a variable")
            ok, vals = fed_by_check(rnode, x.recv)
            r.require(ok, ru, ru.loc(x.call), "the need-upload decision _did_chk_check is fed by %s, not (only) by "
                      "self._check_chk(%s): the helper can decide that the file must be uploaded without having asked "
                      "the grid in this call, so a file that is already there is fetched and uploaded again"
                      % (", ".join(sorted({src(ru, v) if v is not None else "?" for (_m, v) in (vals or [(None, None)])})), si))
            for y in regs:
                if y is x:
                    break
                if y.recv != x.recv or y.kind == "eb":
                    continue
                f = _cb_func(idx, ru, y.target)
                passthru = False
                if f is not None and first_positional_params(f):
                    fnm = FlowNorm(f)
                    rets = f.cfg().find(is_return)
                    passthru = bool(rets) and all(_returns_var(fnm, m, first_positional_params(f)[0]) for m in rets) \
                        and not find_path_avoiding(f.cfg(), lambda m: m.kind == "exit", gate_node=is_return, skip_exc_edges=True)
                r.require(passthru, ru, ru.loc(y.call), "%r sits between the grid check and _did_chk_check and can replace the "
                          "check result" % y)
        if not links:
            raise AnchorVanished("remote_upload_chk no longer registers _did_chk_check on the grid check")
        # who else uses the decision / creates upload helpers
        for cs in cg.calls_named("_did_chk_check"):
            if id(cs.call) not in accounted:
                r.violation(cs.fn, cs.loc, "%s calls _did_chk_check directly (%s): the need-upload decision is taken on a value "
                            "that is not the result of this call's grid check, so a file that is already in the grid is "
                            "fetched and uploaded again" % (short(cs.fn), src(cs.fn, cs.call)))
        for (f, nd) in cg.refs_named("_did_chk_check"):
            if id(nd) not in accounted:
                r.violation(f, f.loc(nd), "%s uses _did_chk_check as a value outside the grid-check chain of "
                            "remote_upload_chk" % short(f))
        n_mk = 0
        for cs in cg.calls_named("_make_chk_upload_helper"):
            n_mk += 1
            r.site(cs.fn, cs.call, "upload helper creation")
            if not (cs.fn.qual == dc.qual or cs.fn.qual.startswith(dc.qual + ".")):
                r.violation(cs.fn, cs.loc, "%s creates an upload helper outside _did_chk_check, i.e. without the result of the "
                            "grid check" % short(cs.fn))
        for (f, nd) in cg.refs_named("_make_chk_upload_helper"):
            r.violation(f, f.loc(nd), "%s uses _make_chk_upload_helper as a value" % short(f))
        n_up = 0
        for cs in cg.calls_named("chk_upload", "CHKUploadHelper"):
            n_up += 1
            r.site(cs.fn, cs.call, "upload helper construction")
            if cs.fn.qual != mkf.qual:
                r.violation(cs.fn, cs.loc, "%s constructs an upload helper outside _make_chk_upload_helper, i.e. without the "
                            "result of the grid check" % short(cs.fn))
        if n_mk == 0 or n_up == 0:
            raise AnchorVanished("creation of upload helpers in Helper")
        # (b) what remote_upload_chk answers
        active = {norm_src("self._active_uploads[%s]" % si), norm_src("self._active_uploads.get(%s)" % si),
                  norm_src("self._active_uploads.get(%s, None)" % si)}
        link_nodes = [_node_of(ru, x.call) for x in links]
        rets = rcfg.find(is_return)
        if not rets:
            raise AnchorVanished("remote_upload_chk returns nothing")
        for n in rets:
            r.site(ru, n.ast, "answer")
            v = _ret_expr(rn, n)
            if isinstance(v, ast.Tuple) and len(v.elts) == 2 and _falsy_const(v.elts[0]) and rn.norm(n, v.elts[1]) in active:
                continue      # the upload that is in progress for this storage index
            dvs = [x.recv for x in links if _returns_var(rn, n, x.recv)]
            if dvs:
                ok, vals = fed_by_check(n, dvs[0])
                r.require(ok, ru, ru.loc(n.ast), "the returned Deferred %s can come from %s, not from self._check_chk(%s)"
                          % (dvs[0], ", ".join(sorted({src(ru, v_) if v_ is not None else "?" for (_m, v_) in (vals or [(None, None)])})), si))
                continue
            r.violation(ru, ru.loc(n.ast), "remote_upload_chk answers %s: neither the upload already active for %s nor the "
                        "Deferred of this call's grid check followed by _did_chk_check - state that outlives the call stands "
                        "in for the check, so a file that is already in the grid is fetched and uploaded again"
                        % (src(ru, n.ast.value) if n.ast.value is not None else "None", si))
        for x, ln in zip(links, link_nodes):
            for (n, w) in find_path_avoiding(rcfg, lambda m, _v=x.recv: _returns_var(rn, m, _v),
                                             gate_node=lambda m, _l=ln: m is _l, kill=stores(x.recv)):
                r.violation(ru, ru.loc(n.ast), "the check Deferred is returned without _did_chk_check on it (path: %s)" % w.brief(), w)
        # (c) _check_chk answers with the Deferred of a checker made for its storage index
        csi = first_positional_params(ck)[0]
        kn2 = FlowNorm(ck)
        crets = ck.cfg().find(is_return)
        if not crets:
            raise AnchorVanished("_check_chk returns nothing")

        def made_for_si(n, v):
            if not (isinstance(v, ast.Call) and call_tail(v) in ("chk_checker", "CHKCheckerAndUEBFetcher")):
                return False
            return any(kn2.norm(n, a) == csi for a in list(v.args) + [k.value for k in v.keywords])

        def is_grid_check(n, v):
            if not (isinstance(v, ast.Call) and call_tail(v) == "check" and isinstance(v.func, ast.Attribute) and not v.args):
                return False
            recv = v.func.value
            if isinstance(recv, ast.Name):
                vals = _reaching_values(kn2, n, recv.id)
                return vals is not None and all(made_for_si(m, e) for (m, e) in vals)
            return made_for_si(n, recv)
        for n in crets:
            r.site(ck, n.ast, "check answer")
            ch = _ret_chain(kn2, n)
            ok = False
            if is_grid_check(n, ch[-1]):
                ok = True
            else:
                for e in ch:
                    if isinstance(e, ast.Name):
                        vals = _reaching_values(kn2, n, e.id)
                        if vals is not None and all(is_grid_check(m, v) for (m, v) in vals):
                            ok = True
                            break
            r.require(ok, ck, ck.loc(n.ast), "Helper._check_chk can answer %s, which is not the Deferred of a grid check "
                      "(chk_checker(.., %s, ..).check()) made in this call: a remembered verdict stands in for asking the "
                      "servers, so a file that is already in the grid is fetched and uploaded again"
                      % (src(ck, n.ast.value) if n.ast.value is not None else "None", csi))
        # (d) _did_chk_check reports only its own argument as already present
        ap = dparams[0]
        dcn = FlowNorm(dc)
        n_t = 0
        for n in dc.cfg().find(is_return):
            v = _ret_expr(dcn, n)
            if not (isinstance(v, ast.Tuple) and len(v.elts) == 2):
                r.violation(dc, dc.loc(n.ast), "_did_chk_check answers %s, not (results, upload helper)" % src(dc, n.ast.value))
                continue
            n_t += 1
            r.site(dc, n.ast, "decision")
            r.require(_falsy_const(v.elts[0]) or dcn.norm(n, v.elts[0]) == ap, dc, dc.loc(n.ast),
                      "_did_chk_check reports %s as the already-present results, which is not the result of this call's grid "
                      "check (%s)" % (src(dc, v.elts[0]), ap))
        if n_t == 0:
            raise AnchorVanished("_did_chk_check returns nothing")

    # -- 13. the chunked read loop consumes the whole requested length -------
    with ctx.rule("C44.13", "R10/E6", "EncryptAnUploadable.read_encrypted(length, hash_only): the loop that reads / hashes / "
                  "encrypts chunk after chunk is left only on tests of the byte counter or of what the plaintext read returned, "
                  "never on the ciphertext produced (empty by design when hash_only is set)", expected=2) as r:
        top = idx.func(UP + ":EncryptAnUploadable.read_encrypted")
        tp = first_positional_params(top)
        if len(tp) < 2:
            raise AnchorVanished("%s(length, hash_only) parameters" % top.qual)
        read_paths = _role_sites(idx, top, PT_READ, tp[1])
        enc_paths = _role_sites(idx, top, SRC_CT, tp[1])
        if not read_paths or not enc_paths:
            raise AnchorVanished("%s no longer reaches %s" % (top.qual, PT_READ if not read_paths else SRC_CT))
        taint = _CtTaint(idx)
        region = {}
        stack = [lv[0] for p in read_paths + enc_paths for lv in p]
        while stack:
            g = stack.pop()
            if g.qual in region:
                continue
            region[g.qual] = g
            stack += _sub_funcs(idx, g)
        tfields = taint.tainted_fields(region.values())
        n_loops = 0
        why = ("in hash_only mode (a resuming client skipping what the helper already holds) no ciphertext is produced, so "
               "the skip stops short of the requested length while RemoteEncryptedUploadable advances its offset by all of "
               "it: the ciphertext then served comes from the wrong plaintext / AES-CTR position")

        def judge(fn, expr, at, what):
            kinds = taint.feeding(fn, expr, tfields)
            bad = [k for k in kinds if k[0] in ("ct", "field")]
            if bad:
                k = bad[0]
                dep = k[1] if k[0] == "field" else src(fn, k[1])
                r.violation(fn, fn.loc(at), "%s %s depends on the ciphertext produced (%s): %s" % (what, src(fn, expr), dep, why))
            elif kinds:
                raise AnalysisError("%s: %s %s depends on the result of %s, which carries ciphertext together with other "
                                    "values: not decided" % (fn.qual, what, src(fn, expr), src(fn, sorted(kinds, key=str)[0][1])))

        # (a) a loop in the control flow (plain or inlineCallbacks body) around the read
        seen_loops = set()
        for path in read_paths:
            for (level, c, sub, lflag) in path:
                gate = (lambda n, _c=c: any(x is _c for x in node_calls(n))) if c is not None else _mentions(sub)
                cfg = level.cfg()
                for s in cfg.find(gate):
                    if (level.qual, s.id) in seen_loops:
                        continue
                    seen_loops.add((level.qual, s.id))
                    exits, nst = _loop_exits(level, s, lflag)
                    r.count(nst)
                    if exits is None:
                        continue
                    n_loops += 1
                    r.site(level, s.ast, "read loop")
                    done = set()
                    for (n, lab, st) in exits:
                        expr = n.ast.iter if n.kind == "iter" else (n.ast if n.kind == "test" else None)
                        if expr is None or (n.id, st == "F") in done:
                            continue
                        done.add((n.id, st == "F"))
                        r.site(level, expr, "loop exit test")
                        if st == "F":
                            continue        # this way out is taken only with the flag off: real ciphertext is expected then
                        judge(level, expr, expr, "the read loop is left on a test that")
        # (b) deferredutil.until(action, condition) around the read
        for g in list(region.values()):
            for c in _calls(g, "until"):
                if len(c.args) != 2 or c.keywords:
                    continue
                act = _cb_func(idx, g, c.args[0])
                cond = _cb_func(idx, g, c.args[1])
                if act is None or cond is None:
                    raise AnalysisError("%s: until(%s): action / condition not resolvable" % (g.qual, src(g, c)))
                if not _role_sites(idx, act, PT_READ, None):
                    continue
                _check_until(idx)
                n_loops += 1
                r.site(g, c, "until loop")
                exprs = [n.ast for n in cond.cfg().nodes if n.kind == "test"]
                exprs += [n.ast.value for n in cond.cfg().find(is_return) if n.ast.value is not None]
                if not exprs:
                    raise AnchorVanished("%s decides nothing" % cond.qual)
                for e in exprs:
                    r.site(cond, e, "loop exit test")
                    judge(cond, e, e, "the stop condition of the read loop")
        if n_loops == 0:
            raise AnalysisError("%s: the loop that reads the requested length chunk by chunk was not recognised (neither a "
                                "control-flow loop nor until(action, condition) around %s): not decided" % (top.qual, PT_READ))


# ------------------------------------------------------------ shared pieces
def _data_callback(idx, fetch):
    """The callback registered on the Deferred of self.call('read_encrypted', ..) in _fetch."""
    dvars = set()
    for n in _own(fetch):
        if isinstance(n, ast.Assign) and isinstance(n.value, ast.Call) and call_name(n.value) == "self.call" \
                and n.value.args and isinstance(n.value.args[0], ast.Constant) and n.value.args[0].value == "read_encrypted":
            for t in n.targets:
                if attr_path(t):
                    dvars.add(attr_path(t))
    regs = [x for x in _regs(fetch) if x.recv in dvars]
    if not regs or regs[0].kind != "cb":
        raise AnchorVanished("no callback on the Deferred of read_encrypted in _fetch")
    f = _cb_func(idx, fetch, regs[0].target)
    if f is None:
        raise AnchorVanished("read_encrypted callback not resolvable")
    return f


def _ctor_attr_map(init):
    """attribute name -> constructor parameter it is copied from (self.x = param)."""
    out = {}
    ps = set(init.params)
    for n in _own(init):
        if isinstance(n, ast.Assign) and isinstance(n.value, ast.Name) and n.value.id in ps:
            for t in n.targets:
                p = attr_path(t)
                if p and p.startswith("self."):
                    out[p[5:]] = n.value.id
    return out


def _bind(init, call):
    """parameter name -> argument expression of a constructor call."""
    ps = first_positional_params(init)
    out = {}
    for i, a in enumerate(call.args):
        if isinstance(a, ast.Starred):
            raise AnalysisError("starred constructor call")
        if i < len(ps):
            out[ps[i]] = a
    for k in call.keywords:
        if k.arg:
            out[k.arg] = k.value
    return out


def _require_store(r, fn, target, pred, what):
    fnorm = FlowNorm(fn)
    found = False
    for n in fn.cfg().nodes:
        v = assign_value(n, target)
        if v is None:
            continue
        found = True
        s = fnorm.norm(n, v)
        r.require(pred(s), fn, fn.loc(n.ast), "%s is set to %s, not to %s" % (target, s, what))
    if not found:
        raise AnchorVanished("%s no longer stores %s" % (fn.qual, target))


def _hur_var(fn):
    for n in _own(fn):
        if isinstance(n, ast.Assign) and isinstance(n.value, ast.Call) and call_tail(n.value) == "HelperUploadResults":
            p = attr_path(n.targets[0])
            if p:
                return p
    raise AnchorVanished("%s no longer builds HelperUploadResults" % fn.qual)


def _ret_chain(fnorm, n, depth=4):
    """The expression returned at CFG node n followed back through plain local copies:
    [returned expr, the unique reaching definition of that name, ...] (rv = E; return rv  ->  [rv, E])."""
    e = n.ast.value
    out = [e]
    node = n
    while depth > 0 and isinstance(e, ast.Name):
        ds = fnorm.rd.get(node.id, {}).get(e.id)
        if not ds or len(ds) != 1:
            break
        (d,) = tuple(ds)
        if d < 0:
            break
        node = fnorm.cfg.nodes[d]
        e = assign_value(node, e.id)
        if e is None:
            break
        out.append(e)
        depth -= 1
    return out


def _ret_expr(fnorm, n):
    """What `return x` at node n returns: the first non-name of the copy chain (a parameter / ambiguous name stays a name)."""
    ch = _ret_chain(fnorm, n)
    for e in ch:
        if e is not None and not isinstance(e, ast.Name):
            return e
    return ch[-1]


def _returns_var(fnorm, n, var):
    """CFG node n is `return <var>`, directly or through local copies (rv = var; return rv)."""
    if not is_return(n) or n.ast.value is None:
        return False
    return any(e is not None and attr_path(e) == var for e in _ret_chain(fnorm, n))


def _names_var(fnorm, n, lab, var):
    f = fnorm.edge_fact(n, lab)
    if not f:
        return False
    op, l, rr = f
    if op == "truth":
        return l == var or fnorm.norm(n, ast.Name(id=var, ctx=ast.Load())) == l
    if op == "is not":
        return {l, rr} == {var, "None"}
    return False


# ------------------------------------------------------ C44.9 / C44.10 pieces
def _flag_on_edge(fnorm, n, lab, flag):
    """'T' / 'F' when the edge (n, lab) is taken only with the boolean `flag` truthy / falsy, else None."""
    f = fnorm.edge_fact(n, lab)
    if not f:
        return None
    op, l, rr = f
    if l == flag and op in ("truth", "false"):
        return "T" if op == "truth" else "F"
    if op in ("is", "==", "is not", "!=") and flag in (l, rr):
        other = rr if l == flag else l
        if other in ("True", "False"):
            v = other == "True"
            if op in ("is not", "!="):
                v = not v
            return "T" if v else "F"
    return None


def _flag_guard(n, target, flag):
    """A condition mentioning `flag` under which `target` (an expression inside CFG node n) is evaluated at all:
    test of an enclosing conditional expression, earlier operand of an enclosing and/or, comprehension filter.
    (These are not control flow in the CFG.)  None when the evaluation of target does not depend on the flag."""
    def path_to(root):
        if root is target:
            return [root]
        for ch in ast.iter_child_nodes(root):
            if isinstance(ch, (ast.FunctionDef, ast.AsyncFunctionDef, ast.ClassDef, ast.Lambda)):
                continue
            p = path_to(ch)
            if p:
                return [root] + p
        return None
    for e in node_exprs(n):
        path = path_to(e)
        if not path:
            continue
        guards = []
        for parent, child in zip(path, path[1:]):
            if isinstance(parent, ast.IfExp) and child is not parent.test:
                guards.append(parent.test)
            elif isinstance(parent, ast.BoolOp):
                i = [k for k, v in enumerate(parent.values) if v is child][0]
                guards += parent.values[:i]
            elif isinstance(parent, (ast.ListComp, ast.SetComp, ast.GeneratorExp, ast.DictComp)):
                if not any(child is gen for gen in parent.generators):
                    for gen in parent.generators:
                        guards += gen.ifs
        for g in guards:
            if any(isinstance(x, ast.Name) and x.id == flag for x in ast.walk(g)):
                return g
    return None


def _is_real(n):
    return n.kind in ("stmt", "test", "iter", "with", "except") and not (n.kind == "stmt" and isinstance(n.ast, ast.Pass))


def _flag_dependent_skips(fn, flag, is_start, is_gate):
    """Obligation monitor for 'the gate happens whatever the boolean `flag` is'.

    An obligation is open from function entry (is_start None) or from the moment a node satisfying is_start
    is left; leaving a node satisfying is_gate discharges it.  An end point is reached when the obligation is
    still open on arrival at the normal exit or at the next is_start node; it is identified by the last
    statement executed before it.  Reported: end points reached with `flag` learned truthy (since the
    obligation opened) that are not also reached, open, with the flag falsy or untested - i.e. places where
    skipping the gate is control-dependent on the flag.  Returns ([(node, Witness)], number of states)."""
    cfg = fn.cfg()
    fnorm = FlowNorm(fn)
    ends = {"T": {}, "F": {}, "?": {}}

    def transfer(n, lab, nxt, st):
        if lab == "exc":
            return None
        opened, hv, last = st
        if is_start is not None and is_start(n) and (n.kind != "iter" or lab == "iter"):
            opened, hv = True, "?"
        if flag in node_stores(n):
            hv = "?"
        v = _flag_on_edge(fnorm, n, lab, flag)
        if v is not None:
            if hv != "?" and hv != v:
                return None
            hv = v
        if is_gate(n):
            opened = False
        if _is_real(n):
            last = n.id
        ns = (opened, hv, last)
        if opened and (nxt.kind == "exit" or (is_start is not None and is_start(nxt))):
            ends[hv].setdefault(last, (nxt.id, ns))
        return ns
    visited, parent = explore(cfg, (is_start is None, "?", None), transfer)
    out = []
    for last, pst in sorted(ends["T"].items(), key=lambda kv: (kv[0] is None, kv[0] or 0)):
        if last in ends["F"] or last in ends["?"]:
            continue
        node = cfg.nodes[last] if last is not None else cfg.entry
        out.append((node, witness(cfg, parent, pst)))
    return out, len(visited)


def _sub_funcs(idx, fn):
    """Nested defs and lambdas directly inside fn."""
    out = [g for g in fn.nested.values() if isinstance(g.node, (ast.FunctionDef, ast.AsyncFunctionDef))]
    for n in _own(fn):
        if isinstance(n, ast.Lambda) and n is not fn.node:
            out.append(idx.lambda_func(fn, n))
    return out


def _uses(fn):
    """[(call node, callee expression, positional args as the callee sees them, keywords)] for every way fn itself
    invokes a callable: f(a..), maybeDeferred(f, a..), d.addCallback(f, a..) (the callee's first argument is then
    the Deferred's result: None in the list)."""
    out = []
    for c in _calls(fn):
        out.append((c, c.func, list(c.args), list(c.keywords)))
        if call_tail(c) == "maybeDeferred" and c.args:
            out.append((c, c.args[0], list(c.args[1:]), list(c.keywords)))
    for x in _regs(fn):
        if x.kind in ("cb", "both", "pair") and x.target is not None:
            out.append((x.call, x.target, [None] + list(x.args or []), []))
    return out


def _self_method(fn, e):
    """FuncInfo of `self.m` (a method of the class fn belongs to), else None."""
    if isinstance(e, ast.Attribute) and isinstance(e.value, ast.Name) and e.value.id == "self" and fn.cls is not None:
        return fn.cls.lookup(e.attr)
    return None


def _role_sites(idx, fn, name, flag, depth=5, seen=()):
    """Every way `fn` gets to invoke the callable with dotted name `name`: directly, from a nested def / lambda, or through
    helper methods of its own class (called, or registered as callbacks).  One path per site, innermost level first;
    a level is (function, call node in it or None, nested function mentioned in it or None, name the boolean
    `flag` has in that function or None when it does not get there)."""
    out = []
    uses = _uses(fn)
    for (c, callee, _args, _kws) in uses:
        if attr_path(callee) == name:
            out.append([(fn, c, None, flag)])
    if depth <= 0:
        return out
    for g in _sub_funcs(idx, fn):
        gflag = None if (flag is not None and flag in g.params) else flag
        for p in _role_sites(idx, g, name, gflag, depth - 1, seen):
            out.append(p + [(fn, None, g, flag)])
    for (c, callee, args, kws) in uses:
        if attr_path(callee) == name:
            continue
        m = _self_method(fn, callee)
        if m is None or m.qual in seen or m.qual == fn.qual:
            continue
        ps = first_positional_params(m)
        mflag = None
        if flag is not None:
            for i, a in enumerate(args):
                if isinstance(a, ast.Name) and a.id == flag and i < len(ps):
                    mflag = ps[i]
            for k in kws:
                if k.arg and isinstance(k.value, ast.Name) and k.value.id == flag:
                    mflag = k.arg
        for p in _role_sites(idx, m, name, mflag, depth - 1, seen + (fn.qual, m.qual)):
            out.append(p + [(fn, c, None, flag)])
    return out


def _mentions(g):
    """Node predicate (for the CFG of g's parent): the node uses the nested function / lambda g as a value."""
    def p(n):
        if n.kind == "stmt" and isinstance(n.ast, (ast.FunctionDef, ast.AsyncFunctionDef, ast.ClassDef)):
            return False
        for e in node_exprs(n):
            for x in own_nodes(e, into_lambda=True):
                if x is g.node:
                    return True
                if isinstance(x, ast.Name) and isinstance(x.ctx, ast.Load) and x.id == g.name \
                        and not isinstance(g.node, ast.Lambda):
                    return True
        return False
    return p


# ------------------------------------------------------------- C44.13 pieces
PT_READ = "self.original.read"
SRC_CT = "self._hash_and_encrypt_plaintext"
_MUTATORS = ("append", "add", "update", "extend", "insert", "setdefault", "write")


class _CtTaint:
    """Which values are the ciphertext produced by SRC_CT.  'ct' = the value (or the result of the Deferred) IS what
    SRC_CT returned: a call of it, a call of / `yield` on a function all of whose returns are such values, a Deferred
    variable whose last callback is such a function.  'mixed' = the result of a function that gets to SRC_CT but returns
    something else (a tuple, a count, None): what part of it is ciphertext is not decided.  Field-sensitive for objects of
    classes of the same module: accum.extend(size, ct) taints the fields the method stores its ciphertext argument in."""

    def __init__(self, idx):
        self.idx = idx
        self._ct, self._defs, self._reach = {}, {}, {}

    def reaches(self, f):
        if f.qual not in self._reach:
            self._reach[f.qual] = False
            self._reach[f.qual] = bool(_role_sites(self.idx, f, SRC_CT, None))
        return self._reach[f.qual]

    def ct_callable(self, fn, e):
        if attr_path(e) == SRC_CT:
            return True
        f = _cb_func(self.idx, fn, e)
        return f is not None and self.ct_fn(f)

    def ct_fn(self, f):
        if f.qual not in self._ct:
            self._ct[f.qual] = False
            if isinstance(f.node, ast.Lambda):
                rets = [f.node.body]
            else:
                rets = [n.value for n in _own(f) if isinstance(n, ast.Return) and n.value is not None]
            self._ct[f.qual] = bool(rets) and all(self.ct_expr(f, v) for v in rets)
        return self._ct[f.qual]

    def ct_expr(self, f, e, depth=4):
        while isinstance(e, (ast.Yield, ast.YieldFrom, ast.Await)) and e.value is not None:
            e = e.value
        if isinstance(e, ast.Call):
            if self.ct_callable(f, e.func):
                return True
            return call_tail(e) == "maybeDeferred" and bool(e.args) and self.ct_callable(f, e.args[0])
        if isinstance(e, ast.Name) and depth > 0:
            regs = [x for x in _regs(f) if x.recv == e.id and x.kind in ("cb", "both", "pair")]
            if regs:
                return self.ct_callable(f, regs[-1].target)
            ds = def_exprs(f).get(e.id, [])
            return bool(ds) and all(self.ct_expr(f, v, depth - 1) for v in ds)
        return False

    def call_kind(self, f, c):
        if self.ct_expr(f, c):
            return "ct"
        cands = [c.func] + ([c.args[0]] if call_tail(c) == "maybeDeferred" and c.args else [])
        for e in cands:
            if isinstance(e, ast.Lambda):
                continue
            g = _cb_func(self.idx, f, e)
            if g is not None and attr_path(e) != SRC_CT and self.reaches(g):
                return "mixed"
        return None

    def field_effects(self, f, c):
        """{field: [argument expressions of call c that the method stores into self.<field>]} for a method call on a
        local object whose method name belongs to a class of this module; None when there is no such class."""
        meths = [ci.methods[c.func.attr] for ci in f.module.classes.values() if c.func.attr in ci.methods]
        if not meths:
            return None
        out = {}
        for m in meths:
            ps = first_positional_params(m)
            bound = {ps[i]: a for i, a in enumerate(c.args) if i < len(ps) and not isinstance(a, ast.Starred)}
            bound.update({k.arg: k.value for k in c.keywords if k.arg})
            md = def_exprs(m)
            for key, vals in md.items():
                if not key.startswith("self.") or key.count(".") != 1:
                    continue
                for v in vals:
                    deps = depends_on(m, v, defs=md)
                    for p_, a in bound.items():
                        if p_ in deps:
                            out.setdefault(key[5:], []).append(a)
        return out

    def defs(self, f):
        if f.qual not in self._defs:
            d = {k: list(v) for k, v in def_exprs(f).items()}
            for c in _calls(f):
                if not isinstance(c.func, ast.Attribute):
                    continue
                recv = attr_path(c.func.value)
                if not recv or recv == "self" or recv.startswith("self."):
                    continue
                fx = self.field_effects(f, c)
                if fx is None:
                    continue
                if recv in d and c.func.attr in _MUTATORS:
                    d[recv] = [v for v in d[recv] if not any(v is a for a in c.args)]
                for fld, exprs in fx.items():
                    d.setdefault(recv + "." + fld, []).extend(exprs)
            self._defs[f.qual] = d
        return self._defs[f.qual]

    def feeding(self, f, e, tainted_fields=()):
        """{('ct'|'mixed', call) / ('field', path)}: ciphertext sources in the def-use closure of expression e inside f."""
        d = self.defs(f)
        seen, seen_calls, kinds = set(), set(), set()

        def scan(x, depth):
            for n in own_nodes(x, into_lambda=True):
                if isinstance(n, ast.Call) and id(n) not in seen_calls:
                    seen_calls.add(id(n))
                    k = self.call_kind(f, n)
                    if k:
                        kinds.add((k, n))
            if depth >= 8:
                return
            for l in leaves(x):
                names = [l]
                while "." in names[-1]:
                    names.append(names[-1].rsplit(".", 1)[0])
                for nm in names:
                    if nm in seen:
                        continue
                    seen.add(nm)
                    if "." in nm and nm.rsplit(".", 1)[1] in tainted_fields:
                        kinds.add(("field", nm))
                    for v in d.get(nm, []):
                        scan(v, depth + 1)
        scan(e, 0)
        return kinds

    def tainted_fields(self, funcs):
        out = set()
        for f in funcs:
            for key, vals in self.defs(f).items():
                if "." not in key:
                    continue
                if any(k[0] == "ct" for v in vals for k in self.feeding(f, v)):
                    out.add(key.rsplit(".", 1)[1])
        return out


def _loop_exits(fn, s, flag):
    """The ways out of the control-flow loop of fn that contains CFG node s: ([(test / iter node, edge label, value of the
    boolean `flag` known on that way: 'T' / 'F' / '?')], states); (None, 0) when s is not inside a loop."""
    cfg = fn.cfg()

    def closure(start, edges, pick):
        out, work = set(), [start]
        while work:
            x = work.pop()
            for e in edges[x]:
                y, lab = pick(e)
                if lab == "exc" or y in out:
                    continue
                out.add(y)
                work.append(y)
        return out
    fwd = closure(s.id, cfg.succ, lambda e: (e[0], e[1]))
    bwd = closure(s.id, cfg.pred, lambda e: (e[0], e[1]))
    scc = fwd & bwd
    if s.id not in scc:
        return None, 0
    fnorm = FlowNorm(fn)
    exits = []

    def transfer(n, lab, nxt, st):
        if lab == "exc" or n.id not in scc:
            return None
        v = _flag_on_edge(fnorm, n, lab, flag) if flag is not None else None
        if v is not None:
            if st != "?" and st != v:
                return None
            st = v
        if n.kind == "test" and isinstance(n.ast, ast.Constant) and isinstance(lab, tuple) \
                and lab[0] == ("F" if n.ast.value else "T"):
            return None         # `while True:` - not a way out
        if nxt.id not in scc:
            if nxt is not cfg.raise_exit:
                exits.append((n, lab, st))
            return None
        return st
    visited, _parent = explore(cfg, "?", transfer, start=s)
    return exits, len(visited)


def _check_until(idx):
    """deferredutil.until(action, condition) still is `repeat action() until condition()`: its loop is left only on calls
    of its second parameter."""
    u = idx.func("util.deferredutil:until")
    ps = u.params
    if len(ps) != 2:
        raise AnchorVanished("until(action, condition) parameters")
    cfg = u.cfg()
    acts = [n for n in cfg.nodes if any(isinstance(c.func, ast.Name) and c.func.id == ps[0] for c in node_calls(n))]
    if not acts:
        raise AnchorVanished("until() no longer calls its action")
    for s in acts:
        exits, _n = _loop_exits(u, s, None)
        if not exits:
            raise AnalysisError("until(): the action is not called in a loop with a way out: the read loop is not decided")
        for (n, lab, st) in exits:
            e = n.ast if n.kind == "test" else None
            ok = isinstance(e, ast.Call) and isinstance(e.func, ast.Name) and e.func.id == ps[1] and not e.args and not e.keywords
            if not ok:
                raise AnalysisError("until(): the loop is left on %s, not on its condition(): the read loop is not decided"
                                    % (ast.unparse(n.ast) if n.ast is not None else n.kind))


def _innermost(fn, node):
    """The innermost def nested in fn that contains `node` (fn itself when none does)."""
    for g in fn.nested.values():
        if isinstance(g.node, (ast.FunctionDef, ast.AsyncFunctionDef)) and any(x is node for x in ast.walk(g.node)):
            return _innermost(g, node)
    return fn


def _err_target(x):
    """AST of the callable that a registration runs on failure (None for a plain callback)."""
    if x.kind in ("eb", "both"):
        return x.target
    if x.kind == "pair":
        return x.errtarget
    return None


def _components(idx, init):
    """attribute -> ClassInfo for `self.attr = Class(..)` in a constructor (classes of the same module)."""
    out = {}
    for n in _own(init):
        if isinstance(n, ast.Assign) and isinstance(n.value, ast.Call) and isinstance(n.value.func, ast.Name):
            q = "%s:%s" % (init.module.name, n.value.func.id)
            ci = idx.classes.get(q)
            if ci is None:
                continue
            for t in n.targets:
                p = attr_path(t)
                if p and p.startswith("self.") and p.count(".") == 1:
                    out[p[5:]] = ci
    return out


_ATTR_TABLES = {}


def _attr_table(ci):
    """Instance attributes of class ci: (always, nullable, late) where `always` are set to a value by a constructor
    of the mro (or provided by a class body), `nullable` are set to None by the constructors and to something else
    by other methods, `late` = {attr: [methods]} are only ever set by non-constructor methods."""
    if ci.qual in _ATTR_TABLES:
        return _ATTR_TABLES[ci.qual]
    always, none_init, later = set(), set(), {}
    for c in ci.mro():
        always |= set(c.attrs) | set(c.methods)
        for m in c.methods.values():
            values = {}
            for st in ast.walk(m.node):
                if isinstance(st, ast.Assign):
                    for t in st.targets:
                        values[id(t)] = st.value
                elif isinstance(st, ast.AnnAssign) and st.value is not None:
                    values[id(st.target)] = st.value
            for x in ast.walk(m.node):
                if not (isinstance(x, ast.Attribute) and isinstance(x.ctx, ast.Store) and isinstance(x.value, ast.Name)
                        and x.value.id == "self"):
                    continue
                if m.name == "__init__" and _innermost(m, x) is m:
                    v = values.get(id(x))
                    if isinstance(v, ast.Constant) and v.value is None:
                        none_init.add(x.attr)
                    else:
                        always.add(x.attr)
                else:
                    later.setdefault(x.attr, set()).add(_innermost(m, x).qual.split(":", 1)[1])
    nullable = {a for a in none_init if a not in always and a in later}
    late = {a: sorted(ms) for a, ms in later.items() if a not in always and a not in none_init}
    _ATTR_TABLES[ci.qual] = (always, nullable, late)
    return _ATTR_TABLES[ci.qual]


def _self_attr_uses(fn_node_iter):
    """(attribute, deref?) for loads of self.<attr> among the given AST nodes; deref = something is taken from
    the attribute's value (self.a.b), which fails when the value is None."""
    nodes = list(fn_node_iter)
    inner = {id(x.value) for x in nodes if isinstance(x, ast.Attribute)}
    for x in nodes:
        if isinstance(x, ast.Attribute) and isinstance(x.ctx, ast.Load) and isinstance(x.value, ast.Name) and x.value.id == "self":
            yield x, x.attr, id(x) in inner


def _method_needs(ci, m, seen=None):
    """Late / nullable attributes of ci that calling method m reads without a test of its own:
    {attr: reason}.  Follows self.method() calls inside the class."""
    seen = seen if seen is not None else set()
    if m.qual in seen:
        return {}
    seen.add(m.qual)
    always, nullable, late = _attr_table(ci)
    out = {}
    tested = set()
    fnorm = FlowNorm(m)
    cfg = m.cfg()
    for n in cfg.nodes:
        for (_d, lab) in cfg.succ[n.id]:
            f = fnorm.edge_fact(n, lab)
            if f and f[1] and f[1].startswith("self."):
                tested.add(f[1][5:])
    if any(isinstance(x, ast.Call) and call_name(x) in ("hasattr", "getattr") for x in _own(m)):
        return {}
    for (x, a, deref) in _self_attr_uses(_own(m)):
        if a in late and a not in tested:
            out.setdefault(a, "%s.%s reads self.%s, which only %s sets" % (ci.name, m.name, a, ", ".join(late[a])))
        elif a in nullable and deref and a not in tested:
            out.setdefault(a, "%s.%s uses self.%s, which is None until %s" % (ci.name, m.name, a, ", ".join(sorted(_attr_table(ci)[2].get(a, [])) or ["a later stage"])))
    for c in _calls(m):
        if isinstance(c.func, ast.Attribute) and isinstance(c.func.value, ast.Name) and c.func.value.id == "self":
            m2 = ci.lookup(c.func.attr)
            if m2 is not None:
                for a, why in _method_needs(ci, m2, seen).items():
                    out.setdefault(a, why)
    return out


MUST_EXIST = {"os.unlink", "os.remove", "os.stat", "os.rename", "os.replace", "os.rmdir", "os.listdir", "os.path.getsize",
              "os.path.getmtime", "os.lstat", "os.chmod", "os.utime"}


def _risks_at(idx, h, n, comp, started_sync):
    """Things evaluated at CFG node n of handler h that raise when the transfer failed before the later stages ran:
    [(message, guard)] where guard is a normal-form expression whose truth makes the use safe (or None)."""
    out = []
    k0 = h.cls
    always, nullable, late = _attr_table(k0) if k0 is not None else (set(), set(), {})
    fnorm = FlowNorm(h)
    nodes = []
    for e in node_exprs(n):
        nodes += list(own_nodes(e))
    callee = {id(x.func): x for x in nodes if isinstance(x, ast.Call)}
    for (x, a, deref) in _self_attr_uses(nodes):
        if a in late:
            out.append(("self.%s does not exist yet (only %s sets it)" % (a, ", ".join(late[a])), None))
        elif a in nullable and deref:
            out.append(("self.%s may still be None" % a, "self." + a))
    if comp:
        for x in nodes:
            if not (isinstance(x, ast.Attribute) and isinstance(x.ctx, ast.Load)):
                continue
            p = attr_path(x)
            parts = p.split(".") if p else []
            if len(parts) != 3 or parts[0] != "self" or parts[1] not in comp:
                continue
            ci = comp[parts[1]]
            c_always, c_nullable, c_late = _attr_table(ci)
            if id(x) in callee:
                m = ci.lookup(parts[2])
                if m is None:
                    continue
                for a, why in sorted(_method_needs(ci, m).items()):
                    setters = set(c_late.get(a, []))
                    if setters and setters <= started_sync.get(parts[1], set()):
                        continue
                    out.append(("%s() raises here: %s" % (p, why), None))
            elif parts[2] in c_late:
                out.append(("%s does not exist yet (only %s sets it)" % (p, ", ".join(c_late[parts[2]])), None))
    for x in nodes:
        if isinstance(x, ast.Call) and call_name(x) in MUST_EXIST and x.args:
            a0 = fnorm.norm(n, x.args[0])
            out.append(("%s(%s) raises when the file is not there" % (call_name(x), a0), "os.path.exists(%s)" % a0))
    return out


def _check_handler(r, idx, h, obligations, comp, init):
    """h is a terminal callback/errback.  Every normal path through it performs each obligation
    [(node predicate, description)]; when comp is not None (failure handler) nothing that can raise in the
    early-failure state is evaluated, outside a try, before an obligation that is still due."""
    cfg = h.cfg()
    fnorm = FlowNorm(h)
    for (pred, what) in obligations:
        ws = find_path_avoiding(cfg, lambda n: n.kind == "exit", gate_node=pred, skip_exc_edges=True)
        for (n, w) in ws[:1]:
            r.violation(h, h.loc(), "%s can finish without %s (path: %s): the upload stays in Helper._active_uploads / its "
                        "client is never answered, and a resumed upload of the same file never completes"
                        % (short(h), what, w.brief()), w)
    if comp is None:
        return
    started_sync = {}
    for c in _calls(init):
        p = call_name(c).split(".")
        if len(p) == 3 and p[0] == "self" and p[1] in comp:
            m = comp[p[1]].lookup(p[2])
            if m is not None:
                started_sync.setdefault(p[1], set()).add(m.qual.split(":", 1)[1])
    n_states = 0
    for n in cfg.nodes:
        if n.kind not in ("stmt", "test", "iter", "with"):
            continue
        if any(lab == "exc" and cfg.nodes[d].kind == "except" for (d, lab) in cfg.succ[n.id]):
            continue        # inside a try with a handler
        for (msg, guard) in _risks_at(idx, h, n, comp, started_sync):
            def guard_edge(m, lab, _g=guard):
                if _g is None:
                    return False
                f = fnorm.edge_fact(m, lab)
                return bool(f) and ((f[0] == "truth" and f[1] == _g) or (f[0] in ("is not", "!=") and {f[1], f[2]} == {_g, "None"}))
            for (pred, what) in obligations:
                ws = find_path_avoiding(cfg, lambda x, _n=n: x is _n, gate_node=pred, gate_edge=guard_edge, skip_exc_edges=True)
                n_states += 1
                if ws:
                    r.violation(h, h.loc(n.ast), "%s: %s, before %s (path: %s); when the transfer fails during the ciphertext "
                                "fetch the handler dies here and the failed upload is never reported or deregistered"
                                % (short(h), msg, what, ws[0][1].brief()), ws[0][1])
                    break
    r.count(n_states)


# ------------------------------------------------------------ C44.11 pieces
_OBSERVERS = {"isinstance", "precondition", "_assert", "repr", "id", "type", "hasattr", "log", "msg", "err"}
_ADAPTER = re.compile(r"^I[A-Z][A-Za-z]*$")
_READS = {"read", "read_encrypted"}
_REG_TAILS = {"addCallback", "addErrback", "addBoth", "addCallbacks"}


class _OneConsumer:
    """Linear-use monitor for a stateful stream object.

    Tracked objects ("groups"): the seed parameter of `root` with its aliases (plain copies, self.<attr> copies,
    interface adapters I...(x)), and every object constructed from a tracked one and stored in a variable
    (a wrapper: a new group).  A *consumer* of a group is a call that is handed one of its names as an argument
    (observers such as log / isinstance / precondition excepted), or x.read / x.read_encrypted on it; method
    calls on the object (get_size, get_storage_index, close) are not consumers.

    count(f, group) = the largest number (capped at 2) of consumers that one path through f can run or
    schedule: consumers at a CFG node, plus count(g) for every nested def / lambda / self.method g used as a
    value or called at that node (a callback or errback registered there may run), the two arms of a
    conditional expression and the two targets of addCallbacks being alternatives."""

    def __init__(self, idx, root, seed):
        self.idx, self.root, self.cls = idx, root, root.cls
        self.states = 0
        self.group = {}        # (scope key, name) -> gid; scope key = id(def node) for locals, None for self.<attr>
        self.desc = {}         # gid -> description
        self._memo = {}
        self._busy = set()
        self._binds = {}
        self.funcs = []
        tops = [root]
        if self.cls is not None:
            tops += [m for m in self.cls.methods.values() if m is not root]
        seen = set()
        for t in tops:
            stack = [t]
            while stack:
                g = stack.pop()
                if id(g.node) in seen:
                    continue
                seen.add(id(g.node))
                self.funcs.append(g)
                stack += _sub_funcs(idx, g)
        self.group[(id(root.node), seed)] = 0
        self.desc[0] = "the uploadable %s of %s" % (seed, short(root))
        self._discover()

    # -- names ---------------------------------------------------------------
    def _bound(self, g):
        k = id(g.node)
        if k not in self._binds:
            b = set(g.params)
            if not isinstance(g.node, ast.Lambda):
                for x in _own(g):
                    if isinstance(x, ast.Name) and isinstance(x.ctx, (ast.Store, ast.Del)):
                        b.add(x.id)
            self._binds[k] = b
        return self._binds[k]

    def _top_cls(self, g):
        while g.parent is not None:
            g = g.parent
        return g.cls

    def resolve(self, g, e):
        """Group id of the tracked object that expression e (a name / self.<attr>) denotes inside g, else None."""
        if isinstance(e, ast.Name):
            h = g
            while h is not None:
                gid = self.group.get((id(h.node), e.id))
                if gid is not None:
                    return gid
                if e.id in self._bound(h):
                    return None
                h = h.parent
            return None
        if isinstance(e, ast.Attribute):
            p = attr_path(e)
            if p and p.startswith("self.") and p.count(".") == 1 and self.cls is not None and self._top_cls(g) is self.cls:
                return self.group.get((None, p))
        return None

    def _target_key(self, g, t):
        if isinstance(t, ast.Name):
            return (id(g.node), t.id)
        p = attr_path(t)
        if p and p.startswith("self.") and p.count(".") == 1 and self.cls is not None and self._top_cls(g) is self.cls:
            return (None, p)
        return None

    def _nodes(self, g):
        return list(own_nodes(g.node.body)) if isinstance(g.node, ast.Lambda) else _own(g)

    def passed(self, g, e):
        """Group ids of tracked objects handed over by argument expression e (not through a nested call / lambda,
        which are consumers of their own; not as the receiver of an attribute access)."""
        out = set()
        stack = [e]
        while stack:
            x = stack.pop()
            if isinstance(x, (ast.Call, ast.Lambda, ast.FunctionDef, ast.AsyncFunctionDef, ast.ClassDef)):
                continue
            gid = self.resolve(g, x)
            if gid is not None:
                out.add(gid)
                continue
            if isinstance(x, ast.Attribute):
                continue          # x.attr: something taken from the object, not the object
            if isinstance(x, ast.Starred):
                stack.append(x.value)
                continue
            stack += list(ast.iter_child_nodes(x))
        return out

    def _is_adapter(self, c):
        return isinstance(c.func, ast.Name) and _ADAPTER.match(c.func.id) is not None

    def consumed(self, g, c):
        """Group ids consumed by call c evaluated inside g."""
        if call_tail(c) in _OBSERVERS or self._is_adapter(c):
            return set()
        out = set()
        if isinstance(c.func, ast.Attribute) and c.func.attr in _READS:
            gid = self.resolve(g, c.func.value)
            if gid is not None:
                out.add(gid)
        for a in list(c.args) + [k.value for k in c.keywords]:
            out |= self.passed(g, a)
        return out

    def _discover(self):
        changed = True
        while changed:
            changed = False
            for g in self.funcs:
                if isinstance(g.node, ast.Lambda):
                    continue
                for st in _own(g):
                    if not (isinstance(st, ast.Assign) and len(st.targets) == 1):
                        continue
                    key = self._target_key(g, st.targets[0])
                    if key is None or key in self.group:
                        continue
                    v = st.value
                    gid = self.resolve(g, v)
                    if gid is None and isinstance(v, ast.Call) and self._is_adapter(v) and v.args:
                        gid = self.resolve(g, v.args[0])
                    if gid is not None:
                        self.group[key] = gid          # an alias
                        changed = True
                        continue
                    if isinstance(v, ast.Call) and self.consumed(g, v):
                        gid = len(self.desc)
                        self.group[key] = gid          # a wrapper around a tracked object
                        self.desc[gid] = "%s (%s = %s in %s)" % (key[1], key[1], call_name(v) or call_tail(v) or "?", short(g))
                        changed = True

    # -- consumers -----------------------------------------------------------
    def sites(self, gid):
        out = []
        for g in self.funcs:
            for x in self._nodes(g):
                if isinstance(x, ast.Call) and gid in self.consumed(g, x):
                    out.append((g, x))
        return out

    def _callable(self, g, e):
        """The function that expression e denotes as a value inside g: lambda, nested def, method of the class."""
        if isinstance(e, ast.Lambda):
            return self.idx.lambda_func(g, e)
        if isinstance(e, ast.Name) and isinstance(e.ctx, ast.Load):
            h = g
            while h is not None:
                f = h.nested.get(e.id)
                if f is not None and isinstance(f.node, (ast.FunctionDef, ast.AsyncFunctionDef)):
                    return f
                if e.id in self._bound(h):
                    return None
                h = h.parent
            return None
        if isinstance(e, ast.Attribute) and isinstance(e.value, ast.Name) and e.value.id == "self" \
                and self.cls is not None and self._top_cls(g) is self.cls:
            return self.cls.methods.get(e.attr)
        return None

    def weight(self, g, e, gid):
        if isinstance(e, (ast.FunctionDef, ast.AsyncFunctionDef, ast.ClassDef)):
            return 0
        f = self._callable(g, e)
        if f is not None:
            return self.count(f, gid)
        if isinstance(e, ast.IfExp):
            return min(2, self.weight(g, e.test, gid) + max(self.weight(g, e.body, gid), self.weight(g, e.orelse, gid)))
        w = 0
        if isinstance(e, ast.Call):
            if gid in self.consumed(g, e):
                w += 1
            if call_tail(e) == "addCallbacks" and len(e.args) >= 2:
                w += self.weight(g, e.func, gid) + max(self.weight(g, e.args[0], gid), self.weight(g, e.args[1], gid))
                for a in list(e.args[2:]) + [k.value for k in e.keywords]:
                    w += self.weight(g, a, gid)
                return min(2, w)
        for ch in ast.iter_child_nodes(e):
            w += self.weight(g, ch, gid)
            if w >= 2:
                return 2
        return w

    def _node_weight(self, g, n, gid):
        return min(2, sum(self.weight(g, e, gid) for e in node_exprs(n)))

    def _explore(self, f, gid):
        cfg = f.cfg()
        wts = {}

        def transfer(n, lab, nxt, st):
            if n.id not in wts:
                wts[n.id] = self._node_weight(f, n, gid)
            return min(2, st + wts[n.id])
        visited, parent = explore(cfg, 0, transfer)
        self.states += len(visited)
        return cfg, visited, parent

    def count(self, f, gid):
        k = (id(f.node), gid)
        if k in self._memo:
            return self._memo[k]
        if k in self._busy:
            return 0
        self._busy.add(k)
        try:
            _cfg, visited, _parent = self._explore(f, gid)
            c = max([st for (_nid, st) in visited] or [0])
        finally:
            self._busy.discard(k)
        self._memo[k] = c
        return c

    def overuse(self, gid):
        """(function, AST node, witness) of a path with two consumers of the group, or None."""
        scope = [g for g in self.funcs if any(k == id(g.node) and v == gid for ((k, _nm), v) in self.group.items())]
        bad = [g for g in [self.root] + scope if self.count(g, gid) >= 2]
        if not bad:
            return None
        # innermost function whose own path reaches 2 although none of the callables it uses does on its own
        cands = [g for g in self.funcs if self._memo.get((id(g.node), gid), 0) >= 2]
        cands.sort(key=lambda g: -g.qual.count("."))
        f = bad[0]
        for g in cands:
            subs = [self._callable(g, x) for x in (self._nodes(g))]
            if not any(s is not None and self._memo.get((id(s.node), gid), 0) >= 2 for s in subs):
                f = g
                break
        cfg, visited, parent = self._explore(f, gid)
        hits = sorted((ps for ps in visited if ps[1] >= 2 and parent.get(ps) is not None and parent[ps][0][1] < 2),
                      key=lambda ps: ps[0])
        if not hits:
            return (f, None, None)
        ps = hits[0]
        prev = cfg.nodes[parent[ps][0][0]]
        return (f, prev.ast, witness(cfg, parent, ps))
