"""C45 Immutable check, verify and repair.

Decided: the verifier's validation gates in immutable/checker.py (mirroring the
downloader's, C02), the classification of shares, the healthy / recoverable
verdict conditions, and the structural conditions of repair (verify cap only,
same encoding parameters and storage index, skipped when healthy)
(DESIGN.md section 5, C45)."""
from sa.h import *

EXPLANATION = (
    "Decided (structural, all paths): (1) ValidatedExtendedURIProxy returns a UEB only after its hash compared equal "
    "to the verify cap's and parses only that checked UEB; (2) _parse_and_validate takes the tree roots and segment "
    "size from that UEB, derives share/block/segment counts from cap and UEB with the expected formulas, and returns "
    "only after every redundant UEB field that is present was compared with the cap; (3) ValidatedReadBucketProxy "
    "returns a block only after block_hash(that block) was accepted by the block hash tree at blocknum, every literal "
    "root it gives the block tree is the share hash tree leaf of its share number (that NO other hashes enter a rootless "
    "block tree is clause 10), it never returns from a hash-failure "
    "handler, and the get_all_* fetchers feed what they fetch to the tree; roots are seeded only from the validated UEB; "
    "(4) _download_and_verify reports (True, sharenum) only after UEB, all hash fetches and every block 0..num_segments-1 "
    "validated with no failure-swallowing link in between, and classifies hash/layout failures as corrupt and an "
    "unknown version as incompatible (checked before LayoutInvalid); (5) the per-server result tuples that Checker.start() "
    "hands to _format_results are decided on a finite model - the engine's bounded AST interpreter runs start() and whatever "
    "helpers, callbacks, loops, comprehensions and set algebra it is written with, with already-fired Deferreds, three servers "
    "(one offering one share per verdict that the return statements of _download_and_verify can produce, in every rotation; one "
    "that did not respond; one without shares) and self._get_buckets / _download_and_verify / _format_results answered by the "
    "model: with the verify flag a share number is in slot 0 (good) exactly when its own verdict is (True, ..) - so neither a "
    "'corrupt' / 'incompatible' nor a 'disconnect' / 'failure' share, nor one that was never handed to _download_and_verify with its "
    "own server and bucket, is counted - slots 2 and 3 hold exactly the 'corrupt' and the 'incompatible' shares, slot 1 the "
    "server, slot 4 the responded flag; without the flag slot 0 is what the server claims; the tuple layout is the one "
    "_format_results unpacks, only slot 0 feeds the share map, and self._verify is the constructor's verify argument "
    "(a shape the interpreter cannot follow - try/except, a class-based gatherer - is an ANALYSIS-ERROR, not a pass); (6) healthy is true "
    "exactly under len(sharemap) == N and recoverable exactly under len(sharemap) >= k, these reach CheckResults and "
    "its accessors unchanged, and post-repair results use the union of old and new share maps; (7) the repairer is "
    "given the ciphertext node (verify cap only; the read key never reaches it), re-encodes with k and N of the verify "
    "cap and the file's real segment size under the file's storage index and size, reads ciphertext at consecutive "
    "offsets, and uploads through CHKUploader; (8) repair is started only when the check was not healthy and the verify "
    "flag reaches the Checker; (9) the segment size the Repairer receives is, through CiphertextFileNode.get_segment_size "
    "and DownloadNode.get_segsize, on every path either self.segment_size tested to be known or the result of the observer "
    "list that is fired only with it, self.segment_size is stored only from the 'segment_size' field of the hash-checked "
    "UEB (the gate itself is C02), never from a guess, and size / storage index / cap handed to the Repairer are the "
    "verify cap's; (10) every set_hashes on the verifier's block hash tree other than the seeding "
    "{0: share_hash_tree.get_leaf(self.sharenum)} is dominated in its function by that seeding or by a test that the root "
    "is already present (by induction the first root is then always the leaf of the claimed share number), or every "
    "block delivery re-compares the root with that leaf, or the verifier's chain runs an always-seeding method first; "
    "sharenum and both trees are fixed at construction.  Clause 10 is VIOLATED on the current tree by "
    "get_all_blockhashes._got_block_hashes (genuine: a share stored under another share number, or a share with forged "
    "blocks and a self-consistent block hash tree, verifies as good); "
    "(11) every container that ReadBucketProxy / WriteBucketProxy / ValidatedReadBucketProxy / ValidatedExtendedURIProxy / "
    "Checker / Repairer (and their subclasses) change in place through self.<attr> is an object created for that instance: "
    "no instance binding takes it from a class-body, module-level or default-argument binding (or an element of one), and "
    "where the class body itself binds <attr> to a container every in-place change is preceded - in its function, in the "
    "constructor, or at every self.<method> use of its method - by a per-instance `self.<attr> = ...` (one proxy exists per "
    "share, so a shared offset table lets a share with a damaged header be read through another share's offsets); "
    "(12) = C06.8 / C06.9: every remote write behind WriteBucketProxy.put_*/close reaches the Deferred its caller gets with "
    "no handler replacing a failure, and callRemote('close') is sent only from a success callback of the final flush, so a "
    "repaired share is counted (clause 6) only when all of it was acknowledged; "
    "(13) the function that stores Repairer._encodingparams is used only as the success callback of a Deferred whose every "
    "reaching definition is self._filenode.get_segment_size(), with no registration in between that can substitute another "
    "value (an errback's fallback, a clamping callback) and no direct call; the segment-size argument is stored without being "
    "re-bound on any path; nothing else binds _encodingparams or re-binds _filenode, no subclass overrides the facade; "
    "(14) the Encoder takes k, N and the segment size only from the slots of the tuple that "
    "<its uploadable>.get_all_encoding_parameters() answered (every value its _got_all_encoding_parameters can be fired with), "
    "the size and storage index only from get_size() / get_storage_index() of the same uploadable, binds them nowhere else, and "
    "CHKUploader hands the uploadable it was started with (the Repairer) to the Encoder. "
    "Undecided: contents of repaired shares, hash/codec algebra, server behaviour between check and repair, "
    "that CHKUploader leaves existing shares alone (C22).")
TECHNIQUE = ("static analysis: CFG gate/dominance rules, Deferred-chain order and delivery, finite-model evaluation of the share "
             "collection by the engine's bounded AST interpreter, who-may-call sweeps, tuple/keyword "
             "agreement tables, origin of in-place mutated instance state, reaching definitions of a Deferred and the values "
             "its callbacks can be fired with")

CK = "immutable.checker"
VEUP = CK + ":ValidatedExtendedURIProxy"
VRBP = CK + ":ValidatedReadBucketProxy"
CHECKER = CK + ":Checker"
CFN = "immutable.filenode:CiphertextFileNode"
IFN = "immutable.filenode:ImmutableFileNode"
REP = "immutable.repairer:Repairer"

HASH_FAILURES = {"BadOrMissingHash", "BadURIExtensionHashValue", "LayoutInvalid"}
NOT_CORRUPT = {"DeadReferenceError", "RemoteException", "ShareVersionIncompatible"}


# --------------------------------------------------------------------- helpers
def _inner(f, nd):
    """False when `nd` belongs to a def nested in f (defensive: early engine versions attributed
    the nodes of a directly nested def to the parent as well)."""
    for g in f.nested.values():
        if isinstance(g.node, (ast.FunctionDef, ast.AsyncFunctionDef)) and any(x is nd for x in ast.walk(g.node)):
            return False
    return True


def _calls(fn, tail=None, into_lambda=False):
    return [c for c in calls_in_func(fn, tail, into_lambda=into_lambda) if _inner(fn, c)]


def _regs(fn):
    return [x for x in registrations(fn) if _inner(fn, x.call)]


def _own(fn):
    return [n for n in func_own_nodes(fn) if _inner(fn, n)]


def _node_of(fn, call):
    for n in fn.cfg().nodes:
        if any(c is call for c in node_calls(n, into_lambda=True)):
            return n
    raise AnalysisError("call not found in the CFG of %s" % fn.qual)


def _cb_func(idx, fn, target):
    if isinstance(target, ast.Name):
        p = fn
        while p is not None:
            if target.id in p.nested:
                return p.nested[target.id]
            p = p.parent
        return None
    if isinstance(target, ast.Attribute) and isinstance(target.value, ast.Name) and target.value.id == "self" \
            and fn.cls is not None:
        return fn.cls.lookup(target.attr)
    if isinstance(target, ast.Lambda):
        return idx.lambda_func(fn, target)
    return None


def _closure_norm(fn):
    """Flow-insensitive normaliser of a nested function that also substitutes the enclosing
    functions' single-definition locals (closure variables), innermost first."""
    own = set(all_defs(fn)) | set(fn.params)
    extra = {}
    p = fn.parent
    while p is not None:
        for k, v in unique_defs(p).items():
            if k not in own and k not in extra:
                extra[k] = v
        own |= set(p.params)
        p = p.parent
    return N(fn, extra=extra)


def _require_store(r, fn, target, pred, what, keep=()):
    fnorm = FlowNorm(fn, keep=keep)
    found = False
    for n in fn.cfg().nodes:
        v = assign_value(n, target)
        if v is None:
            continue
        found = True
        s = fnorm.norm(n, v)
        r.require(pred(s), fn, fn.loc(n.ast), "%s is set to %s, not to %s" % (target, s, what))
    if not found:
        raise AnchorVanished("%s no longer stores %s" % (fn.qual, target))


def _falsy_const(e):
    return e is None or (isinstance(e, ast.Constant) and not e.value)


def _truthy_const(e):
    return isinstance(e, ast.Constant) and bool(e.value)


def _check_classes(call):
    """Class names (last component) given to a Failure.check(...) call."""
    out = set()
    for a in call.args:
        p = attr_path(a)
        out.add(p.rsplit(".", 1)[-1] if p else "?")
    return out


def _handlers_never_return(r, fn, what):
    cfg = fn.cfg()
    for h in cfg.find(lambda n: n.kind == "except"):
        visited, parent = explore(cfg, 0, lambda n, lab, nxt, st: 0, start=h)
        for (nid, _s) in sorted(visited):
            if cfg.nodes[nid].kind == "exit":
                r.violation(fn, fn.loc(h.ast), "%s: the handler %r can fall through to a normal return" % (what, h),
                            witness(cfg, parent, (nid, 0)))
                break


def _rv(fn, n):
    """Value expression of return node n; a pure temporary (a local with a single definition whose only use is
    this return, e.g. `rv = E; return rv`) is replaced by its defining expression."""
    v = n.ast.value
    for _i in range(4):
        if not isinstance(v, ast.Name):
            break
        loads = [x for x in ast.walk(fn.node) if isinstance(x, ast.Name) and x.id == v.id and isinstance(x.ctx, ast.Load)]
        defs = [m for m in fn.cfg().nodes if v.id in node_stores(m)]
        if len(loads) != 1 or len(defs) != 1 or v.id in fn.params:
            break
        d = assign_value(defs[0], v.id)
        if d is None:
            break
        v = d
    return v


def _kw(call, name, pos=None):
    v = kwarg(call, name)
    if v is None and pos is not None:
        v = arg(call, pos)
    return v


# ------------------------------------------------ per-instance state (C45.11)
RBP = "immutable.layout:ReadBucketProxy"
WBP = "immutable.layout:WriteBucketProxy"
STATE_CLASSES = (RBP, WBP, VRBP, VEUP, CHECKER, REP)
_CONTAINER_LITS = (ast.Dict, ast.List, ast.Set, ast.ListComp, ast.DictComp, ast.SetComp)
CONTAINER_CTORS = {"dict", "list", "set", "bytearray", "defaultdict", "OrderedDict", "deque", "Counter", "DictOfSets"}
MUTATORS = {"append", "extend", "insert", "add", "update", "setdefault", "pop", "popitem", "remove", "discard", "clear",
            "sort", "reverse", "appendleft", "extendleft", "popleft", "__setitem__", "__delitem__", "intersection_update",
            "difference_update", "symmetric_difference_update", "add_to_set"}
ELEMENT_READS = {"get", "setdefault", "pop", "__getitem__"}       # hand out an element of the receiver, not a copy
OFFLINE_TOOLS = ("allmydata.scripts.", "allmydata.test.")


def _is_container(e):
    """An expression that builds a mutable container (one object per evaluation)."""
    return isinstance(e, _CONTAINER_LITS) or (isinstance(e, ast.Call) and call_tail(e) in CONTAINER_CTORS)


def _class_level_bindings(ci):
    """{name: [value]} bound by the class body of ci itself, including bindings under if / try / with / for."""
    out = {}

    def walk(stmts):
        for st in stmts:
            if isinstance(st, ast.Assign):
                for t in st.targets:
                    if isinstance(t, ast.Name):
                        out.setdefault(t.id, []).append(st.value)
                    elif isinstance(t, (ast.Tuple, ast.List)) and isinstance(st.value, (ast.Tuple, ast.List)) \
                            and len(t.elts) == len(st.value.elts):
                        for tt, vv in zip(t.elts, st.value.elts):
                            if isinstance(tt, ast.Name):
                                out.setdefault(tt.id, []).append(vv)
            elif isinstance(st, ast.AnnAssign) and isinstance(st.target, ast.Name) and st.value is not None:
                out.setdefault(st.target.id, []).append(st.value)
            elif isinstance(st, (ast.If, ast.Try, ast.With, ast.For, ast.While)):
                for fld in ("body", "orelse", "finalbody"):
                    walk(getattr(st, fld, []) or [])
                for h in getattr(st, "handlers", []) or []:
                    walk(h.body)
    walk(ci.node.body)
    return out


class InstanceState:
    """Which container objects the methods of a class mutate through `self.<attr>`, and where those objects come from.

    Evaluated-once bindings: a class-body binding, a module-level binding, a default argument value.  A container
    built there is ONE object for all instances of the class."""

    def __init__(self, idx, ci):
        self.idx = idx
        self.ci = ci
        self.mro = ci.mro()
        self.cls_bind = {}                       # name -> [(value, defining class)]  (nearest class first)
        for c in self.mro:
            for k, vs in _class_level_bindings(c).items():
                self.cls_bind.setdefault(k, []).extend((v, c) for v in vs)
        self.funcs = []                          # methods visible in ci (own + inherited) and their nested defs
        seen = set()

        def collect(f):
            if f.qual in seen:
                return
            seen.add(f.qual)
            self.funcs.append(f)
            for g in f.nested.values():
                if isinstance(g.node, (ast.FunctionDef, ast.AsyncFunctionDef)):
                    collect(g)
        names = set()
        for c in self.mro:
            for nm, m in c.methods.items():
                if nm not in names:
                    names.add(nm)
                    collect(m)
        self._fn = {}
        self.mutations = {}                      # attr -> [(fn, cfg node, ast node)]
        self.stores = {}                         # attr -> [(fn, cfg node, value)]
        for f in self.funcs:
            self._scan(f)

    def fnorm(self, f):
        if f.qual not in self._fn:
            self._fn[f.qual] = FlowNorm(f)
        return self._fn[f.qual]

    @staticmethod
    def _root(e):
        """x[k][j], x.setdefault(k, ..)[j], x.get(k): the container whose contents are reached is x."""
        while True:
            if isinstance(e, ast.Subscript):
                e = e.value
            elif isinstance(e, ast.Call) and isinstance(e.func, ast.Attribute) and e.func.attr in ELEMENT_READS:
                e = e.func.value
            else:
                return e

    def _self_attr(self, f, n, e):
        s = self.fnorm(f).norm(n, self._root(e))
        m = re.match(r"^self\.(\w+)$", s)
        return m.group(1) if m else None

    def _scan(self, f):
        for n in f.cfg().nodes:
            a = n.ast
            if n.kind == "stmt" and isinstance(a, (ast.Assign, ast.AnnAssign)):
                for t in (a.targets if isinstance(a, ast.Assign) else [a.target]):
                    p = attr_path(t)
                    if p and p.startswith("self.") and p.count(".") == 1:
                        v = assign_value(n, p)
                        if v is not None:
                            self.stores.setdefault(p[5:], []).append((f, n, v))
            if n.kind == "stmt" and isinstance(a, ast.AugAssign) and not isinstance(a.target, ast.Subscript):
                x = self._self_attr(f, n, a.target)
                if x and isinstance(a.target, ast.Attribute):
                    self.mutations.setdefault(x, []).append((f, n, a))
            for e in node_exprs(n):
                for x in own_nodes(e, into_lambda=True):
                    base = None
                    if isinstance(x, ast.Subscript) and isinstance(x.ctx, (ast.Store, ast.Del)):
                        base = x.value
                    elif isinstance(x, ast.Call) and isinstance(x.func, ast.Attribute) and x.func.attr in MUTATORS:
                        base = x.func.value
                    if base is None:
                        continue
                    at = self._self_attr(f, n, base)
                    if at:
                        self.mutations.setdefault(at, []).append((f, n, x))

    # -- evaluated-once containers
    def once_container(self, e, module, depth=0):
        """e, evaluated in a class body / at module level / as a default value, is (or names) one shared container."""
        if e is None or depth > 4:
            return False
        if _is_container(e):
            return True
        if isinstance(e, ast.Name):
            for (v, _c) in self.cls_bind.get(e.id, []):
                if self.once_container(v, module, depth + 1):
                    return True
            return any(self.once_container(v, module, depth + 1) for v in module.assigns.get(e.id, []))
        if isinstance(e, (ast.IfExp,)):
            return self.once_container(e.body, module, depth + 1) or self.once_container(e.orelse, module, depth + 1)
        if isinstance(e, ast.BoolOp):
            return any(self.once_container(v, module, depth + 1) for v in e.values)
        return False

    def class_level_shared(self, attr):
        """(value, class) of the class-body binding of attr that wins the lookup, when it is a shared container."""
        b = self.cls_bind.get(attr)
        if not b:
            return None
        nearest = b[0][1]
        for (v, c) in b:
            if c is nearest and self.once_container(v, c.module):
                return (v, c)
        return None

    @staticmethod
    def _param_default(f, name):
        a = f.node.args
        pos = list(getattr(a, "posonlyargs", [])) + list(a.args)
        for p, d in zip(pos[len(pos) - len(a.defaults):], a.defaults):
            if p.arg == name:
                return d
        for p, d in zip(a.kwonlyargs, a.kw_defaults):
            if p.arg == name and d is not None:
                return d
        return None

    def shared_source(self, f, n, v, attr, depth=0):
        """Why the value v (stored into self.<attr> at node n of f) is an object shared between instances, or None."""
        if v is None or depth > 5:
            return None
        v = self.fnorm(f).resolve(n, v)
        rec = lambda x: self.shared_source(f, n, x, attr, depth + 1)
        if isinstance(v, ast.IfExp):
            return rec(v.body) or rec(v.orelse)
        if isinstance(v, ast.BoolOp):
            for x in v.values:
                s = rec(x)
                if s:
                    return s
            return None
        if isinstance(v, ast.Subscript):
            s = rec(v.value)
            return s and "an element of " + s
        if isinstance(v, ast.Call) and isinstance(v.func, ast.Attribute) and v.func.attr in ELEMENT_READS:
            s = rec(v.func.value)
            return s and "an element of " + s
        if isinstance(v, ast.Name):
            g = f
            while g is not None:
                if v.id in g.params:
                    d = self._param_default(g, v.id)
                    if d is not None and self.once_container(d, g.module):
                        return "the default value of parameter %s of %s (evaluated once, at definition)" % (v.id, short(g))
                    return None
                if v.id in all_defs(g):
                    return None
                g = g.parent
            if any(self.once_container(x, f.module) for x in f.module.assigns.get(v.id, [])):
                return "the module-level container %s" % v.id
            return None
        if isinstance(v, ast.Attribute):
            b = v.value
            via_class = attr_path(b) == "self.__class__" or \
                (isinstance(b, ast.Call) and call_name(b) == "type" and len(b.args) == 1 and attr_path(b.args[0]) == "self") or \
                (isinstance(b, ast.Name) and b.id in {c.name for c in self.mro} and b.id not in all_defs(f))
            via_self = attr_path(b) == "self" and not [s for s in self.stores.get(v.attr, []) if s[1] is not n]
            if (via_class or via_self) and self.class_level_shared(v.attr):
                return "the class attribute %s.%s" % (self.class_level_shared(v.attr)[1].name, v.attr)
        return None

    # -- is a mutation preceded by a per-instance binding?
    def _binds(self, attr):
        return lambda x: assign_value(x, "self." + attr) is not None

    def _dominated(self, f, n, attr):
        """Node n of f (or, for a nested def, the point where it is defined in its enclosing functions) is reached only
        after `self.<attr> = ...`."""
        while True:
            if not find_path_avoiding(f.cfg(), lambda x, _n=n: x is _n, gate_node=self._binds(attr)):
                return True
            if f.parent is None:
                return False
            dn = [x for x in f.parent.cfg().nodes if x.ast is f.node]
            if not dn:
                return False
            f, n = f.parent, dn[0]

    def bound_by_init(self, attr, init=None, depth=0):
        """Every normal path through the constructor runs `self.<attr> = ...` (itself, or in the base-class constructor
        it delegates to with `Base.__init__(self, ..)` / `super().__init__(..)`)."""
        init = init or self.ci.lookup("__init__")
        if init is None or depth > 4:
            return False
        binds = self._binds(attr)

        def delegates(x):
            for c in node_calls(x):
                if call_tail(c) != "__init__" or not isinstance(c.func, ast.Attribute):
                    continue
                b = c.func.value
                base = None
                if isinstance(b, ast.Call) and call_name(b) == "super":
                    later = self.mro[self.mro.index(init.cls) + 1:] if init.cls in self.mro else []
                    base = next((k.methods["__init__"] for k in later if "__init__" in k.methods), None)
                elif isinstance(b, ast.Name) and c.args and attr_path(c.args[0]) == "self":
                    k = next((k for k in self.mro if k.name == b.id and k is not init.cls), None)
                    base = k.lookup("__init__") if k is not None else None
                if base is not None and base is not init and self.bound_by_init(attr, base, depth + 1):
                    return True
            return False
        return not find_path_avoiding(init.cfg(), lambda x: x.kind == "exit", gate_node=lambda x: binds(x) or delegates(x))

    def protected(self, f, n, attr, depth=0):
        if self._dominated(f, n, attr):
            return True
        if depth >= 3:
            return False
        top = f
        while top.parent is not None:
            top = top.parent
        if top.name == "__init__" or self.ci.lookup(top.name) is not top:
            return False
        # every use of the method is `self.<method>` inside this class, at a point that is itself protected
        cg = get_callgraph(self.idx)
        uses = [(cs.fn, cs.call.func) for cs in cg.calls_named(top.name)] + \
               [(g, nd) for (g, nd) in cg.refs_named(top.name) if not isinstance(nd, ast.Name)]
        mine = []
        for (g, nd) in uses:
            if g.module.name.startswith(OFFLINE_TOOLS):
                continue                          # debugging commands build their own proxies, outside check / verify / repair
            recv = attr_path(nd.value) if isinstance(nd, ast.Attribute) else None
            if g.cls is not None and (g.cls in self.mro or self.ci in g.cls.mro()) and recv == "self":
                mine.append((g, nd))
            elif recv == "self" and g.cls is not None:
                continue                          # a method of the same name in an unrelated class
            else:
                return False                      # called on some other receiver: order unknown
        if not mine:
            return False
        for (g, nd) in mine:
            gn = None
            for x in g.cfg().nodes:
                if any(any(y is nd for y in own_nodes(e, into_lambda=True)) for e in node_exprs(x)):
                    gn = x
                    break
            if gn is None or not self.protected(g, gn, attr, depth + 1):
                return False
        return True


# ------------------------------------------ what a Deferred callback is fired with (C45.13 / C45.14)
_REG_ATTRS = {"addCallback": "cb", "addErrback": "eb", "addBoth": "both", "addCallbacks": "pair"}


def _reg_base(call):
    """x.addCallback(a).addErrback(b): (x, [registration calls that precede `call` in the same chain])."""
    chain = []
    cur = call.func.value
    while isinstance(cur, ast.Call) and isinstance(cur.func, ast.Attribute) and cur.func.attr in _REG_ATTRS:
        chain.append(cur)
        cur = cur.func.value
    chain.reverse()
    return cur, chain


def _cb_values(idx, parent, target):
    """[(text, fn, locnode)] a callback may hand on; text None = its argument, unchanged."""
    if target is None:
        return [(None, parent, None)]
    if isinstance(target, ast.Lambda):
        ps = [a.arg for a in target.args.args]
        if isinstance(target.body, ast.Name) and ps and target.body.id == ps[0]:
            return [(None, parent, target)]
        shadow = set(ps) & (set(all_defs(parent)) | set(parent.params))
        t = norm_plain(target.body) if shadow else _closure_norm(parent).norm(target.body)
        return [(t, parent, target)]
    f = _cb_func(idx, parent, target)
    if f is None:
        return [("<%s>" % src(parent, target), parent, target)]
    fp = first_positional_params(f)
    fnm = FlowNorm(f)
    out = []
    for n in f.cfg().find(is_return):
        if n.ast.value is None:
            out.append(("None", f, n.ast))
            continue
        rd = fnm.rd.get(n.id, {})
        v = fnm.resolve(n, n.ast.value)
        if isinstance(v, ast.Name) and fp and v.id == fp[0] and rd.get(v.id) == frozenset([-1]):
            out.append((None, f, n.ast))
        elif f.parent is not None:
            out.append((_closure_norm(f).norm(n.ast.value), f, n.ast))    # closure variables of the enclosing function(s)
        else:
            out.append((fnm.norm(n, n.ast.value), f, n.ast))
    if find_path_avoiding(f.cfg(), lambda n: n.kind == "exit", gate_node=is_return):
        out.append(("None", f, None))
    return out


def _delivered(idx, fn, reg):
    """[(text, fn, locnode)]: every success value (or Deferred expression) the callback registered by `reg` in `fn` can be
    fired with - per definition of the Deferred variable that reaches the registration, through the registrations that may
    lie between that definition and `reg`.  A registration replaces what came before only when it is a success callback
    that lies on every path and never hands its argument on."""
    cfg = fn.cfg()
    fnm = FlowNorm(fn)
    rnode = _node_of(fn, reg.call)
    base, inner = _reg_base(reg.call)
    regs = _regs(fn)

    def apply(cur, x, must):
        res = _cb_values(idx, fn, x.target)
        thru = any(t is None for (t, _f, _l) in res)
        new = [y for y in res if y[0] is not None]
        kind = x.kind
        if kind == "eb":
            return cur + new
        if kind == "pair" and x.errtarget is not None:
            extra = [y for y in _cb_values(idx, fn, x.errtarget) if y[0] is not None]
        else:
            extra = []
        if must and not thru:
            return new + extra
        return cur + new + extra

    def base_of(v):
        while isinstance(v, ast.Call) and isinstance(v.func, ast.Attribute) and v.func.attr in _REG_ATTRS:
            v = v.func.value
        return v
    dv = attr_path(base)
    if dv is None or isinstance(base, ast.Call):
        cur = [(fnm.norm(rnode, base), fn, base)]
        for x in regs:
            if any(x.call is c for c in inner):
                cur = apply(cur, x, True)
        return cur
    if "." in dv:
        return [("<the Deferred kept in %s>" % dv, fn, reg.call)]
    defs = fnm.rd.get(rnode.id, {}).get(dv)
    if not defs:
        return [("<%s, unbound>" % dv, fn, reg.call)]
    out = []
    for did in sorted(defs):
        if did < 0:
            out.append(("<the argument %s>" % dv, fn, None))
            continue
        dn = cfg.nodes[did]
        v = assign_value(dn, dv)
        if v is None:
            out.append(("<%s>" % src(fn, dn.ast), fn, dn.ast))
            continue
        cur = [(fnm.norm(dn, base_of(v)), fn, dn.ast)]
        others = {m.id for m in cfg.nodes if dv in node_stores(m) and m is not dn}
        for x in regs:
            if x.call is reg.call or x.recv != dv:
                continue
            xn = _node_of(fn, x.call)
            if xn is rnode:
                if any(x.call is c for c in inner):
                    cur = apply(cur, x, True)
                continue
            if xn is dn:
                cur = apply(cur, x, True)         # d = f().addCallback(x)
                continue

            def tr(n, lab, nxt, st, _xn=xn, _dn=dn):
                if lab == "exc" or (n.id in others):
                    return None
                return True if (st or n is _xn) else False
            visited, _p = explore(cfg, False, tr, start=dn)
            if (rnode.id, True) not in visited:
                continue                          # never between this definition and the registration
            cur = apply(cur, x, (rnode.id, False) not in visited)
        out.extend(cur)
    return out


def _name_refs(fn, name):
    """Loads of the plain name `name` in fn (lambda bodies included, nested defs excluded)."""
    return [x for x in func_own_nodes(fn, into_lambda=True) if isinstance(x, ast.Name) and x.id == name
            and isinstance(x.ctx, ast.Load) and _inner(fn, x)]


# ------------------------------------------ finite model of the per-server share collection (C45.5)
from sa.tables import ConstEval, _Return                     # the engine's bounded AST interpreter (nothing is imported or run)


class _ModelRaise(NotConstant):
    """A failure travelling up the interpreted code (Failure.trap that does not match, a failed Deferred that is yielded)."""
    def __init__(self, failure):
        NotConstant.__init__(self, "model failure %s" % failure)
        self.failure = failure


class _Opaque:
    """A value the model knows nothing about except its identity (a server, a bucket, the verify cap)."""
    def __init__(self, label):
        self.label = label

    def __repr__(self):
        return "<%s>" % self.label

    def __bool__(self):
        raise NotConstant("truth value of %s is not modelled" % self.label)


class _MD:
    """Model Deferred: already fired, with a result or a failure."""
    def __init__(self, ok, v):
        self.ok, self.v = ok, v


class _MFail:
    def __init__(self, cls):
        self.cls = cls

    def __repr__(self):
        return "Failure(%s)" % self.cls


class _Clo:
    def __init__(self, node, env):
        self.node, self.env = node, env


class _Bound:
    def __init__(self, name, fi):
        self.name, self.fi = name, fi


class _Formatted:
    def __init__(self, results):
        self.results = results


_LOG_TAILS = {"log", "msg", "err"}
_CONTAINERS = (set, frozenset, dict, list, tuple, str, bytes)


class ShareCollectionModel(ConstEval):
    """Interprets Checker.start() - and whatever helpers, nested callbacks, loops, comprehensions and set algebra it uses, in any
    arrangement - on a finite model: Deferreds have already fired, self._get_buckets / self._download_and_verify /
    self._format_results are replaced by the model's answers.  Anything the interpreter does not understand is NotConstant
    (the rule then fails closed)."""

    def __init__(self, idx, cls, verify, servers, answers, verdicts):
        ConstEval.__init__(self, get_folder(idx), cls.module)
        self.idx = idx
        self.cls = cls
        self.attrs = {"_verify": verify, "_servers": list(servers), "_verifycap": _Opaque("self._verifycap"),
                      "_add_lease": False}
        self.answers = answers            # server -> _MD of _get_buckets
        self.verdicts = verdicts          # sharenum -> tuple _download_and_verify fires with
        self.asked = []                   # servers asked for their buckets
        self.verified = []                # (server, sharenum, bucket) handed to _download_and_verify
        self.producer = {}                # server -> (node of the def, return statement) that built its 5-tuple last
        self.stack = []

    # -- calls
    def _bind(self, a, args, kwargs, env, skip):
        names = [x.arg for x in list(getattr(a, "posonlyargs", [])) + list(a.args)]
        if a.vararg or a.kwarg:
            raise NotConstant("varargs in an interpreted function")
        ndef = len(a.defaults)
        for i, nm in enumerate(names):
            if i < skip:
                continue
            j = i - skip
            if j < len(args):
                env[nm] = args[j]
            elif nm in kwargs:
                env[nm] = kwargs[nm]
            else:
                di = i - (len(names) - ndef)
                if di < 0:
                    raise NotConstant("missing argument %s" % nm)
                env[nm] = self.expr(a.defaults[di], {})
        if len(args) > len(names) - skip:
            raise NotConstant("too many arguments")

    def _run_body(self, node, env):
        if isinstance(node, ast.Lambda):
            return self.expr(node.body, env)
        inline = any((attr_path(d) or "").rsplit(".", 1)[-1] == "inlineCallbacks" for d in node.decorator_list)
        self.stack.append(node)
        try:
            try:
                self.block(node.body, env)
                rv = None
            except _Return as r:
                rv = r.v
            except _ModelRaise as e:
                if not inline:
                    raise
                return _MD(False, e.failure)
        finally:
            self.stack.pop()
        if inline:
            return rv if isinstance(rv, _MD) else _MD(True, rv)
        return rv

    def apply(self, fv, args, kwargs):
        self.tick()
        if len(self.stack) > 40:
            raise NotConstant("model recursion")
        if isinstance(fv, _Clo):
            env = dict(fv.env)
            self._bind(fv.node.args, args, kwargs, env, 0)
            return self._run_body(fv.node, env)
        if isinstance(fv, _Bound):
            if fv.name == "_get_buckets":
                if not args or args[0] not in self.answers:
                    raise NotConstant("_get_buckets asked about %r" % (args[:1],))
                self.asked.append(args[0])
                a = self.answers[args[0]]
                return _MD(a.ok, a.v)
            if fv.name == "_download_and_verify":
                if len(args) != 3 or args[1] not in self.verdicts:
                    raise NotConstant("_download_and_verify%r" % (tuple(args),))
                self.verified.append(tuple(args))
                return _MD(True, self.verdicts[args[1]])
            if fv.name == "_format_results":
                if len(args) != 1:
                    raise NotConstant("_format_results%r" % (tuple(args),))
                return _Formatted(args[0])
            if fv.name in _LOG_TAILS:
                return None
            env = {}
            self._bind(fv.fi.node.args, args, kwargs, env, 1)
            return self._run_body(fv.fi.node, env)
        if callable(fv) and any(fv is b for b in self._BUILTINS.values() if callable(b)):
            return fv(*args, **kwargs)
        raise NotConstant("call of %r is not modelled" % (fv,))

    def _fire(self, d, fv, extra, kw):
        try:
            v = self.apply(fv, [d.v] + list(extra), kw)
        except _ModelRaise as e:
            d.ok, d.v = False, e.failure
            return
        if isinstance(v, _MD):
            d.ok, d.v = v.ok, v.v
        elif isinstance(v, _MFail):
            d.ok, d.v = False, v
        else:
            d.ok, d.v = True, v

    def _register(self, d, how, args, kwargs):
        if how == "addCallback" and args:
            if d.ok:
                self._fire(d, args[0], args[1:], kwargs)
        elif how == "addErrback" and args:
            if not d.ok:
                self._fire(d, args[0], args[1:], kwargs)
        elif how == "addBoth" and args:
            self._fire(d, args[0], args[1:], kwargs)
        elif how == "addCallbacks":
            cb = args[0] if args else kwargs.get("callback")
            eb = args[1] if len(args) > 1 else kwargs.get("errback")
            if len(args) > 2 or set(kwargs) - {"callback", "errback"}:
                raise NotConstant("addCallbacks with extra arguments")
            if d.ok and cb is not None:
                self._fire(d, cb, [], {})
            elif not d.ok and eb is not None:
                self._fire(d, eb, [], {})
        else:
            raise NotConstant("Deferred.%s" % how)
        return d

    def _self_attr(self, name):
        if name in self.attrs:
            return self.attrs[name]
        m = self.cls.lookup(name)
        if m is not None:
            return _Bound(name, m)
        if name in _LOG_TAILS:
            return _Bound(name, None)
        raise NotConstant("self.%s is not modelled" % name)

    @staticmethod
    def _gather(ds):
        ds = list(ds)
        if not all(isinstance(x, _MD) for x in ds):
            raise NotConstant("gatherResults of something else than Deferreds")
        for x in ds:
            if not x.ok:
                return _MD(False, x.v)
        return _MD(True, [x.v for x in ds])

    # -- statements / expressions the engine's interpreter does not have
    def stmt(self, st, env):
        if isinstance(st, (ast.FunctionDef,)):
            self.tick()
            env[st.name] = _Clo(st, env)
            return
        if isinstance(st, ast.Return) and st.value is not None:
            self.tick()
            v = self.expr(st.value, env)
            if isinstance(v, tuple) and len(v) == 5 and isinstance(v[1], _Opaque) and self.stack:
                self.producer[v[1]] = (self.stack[-1], st)
            raise _Return(v)
        return ConstEval.stmt(self, st, env)

    def _expr(self, e, env):
        if isinstance(e, ast.Lambda):
            return _Clo(e, env)
        if isinstance(e, ast.Yield):
            v = self.expr(e.value, env) if e.value is not None else None
            if isinstance(v, _MD):
                if not v.ok:
                    raise _ModelRaise(v.v)
                return v.v
            return v
        if isinstance(e, ast.Attribute):
            if isinstance(e.value, ast.Name) and e.value.id == "self" and "self" not in env:
                return self._self_attr(e.attr)
            raise NotConstant("attribute %s is not modelled" % ast.unparse(e))
        if isinstance(e, ast.Call):
            f = e.func
            if isinstance(f, ast.Attribute):
                base_is_module = isinstance(f.value, ast.Name) and f.value.id not in env and f.value.id != "self"
                if base_is_module and f.attr in _LOG_TAILS:
                    return None
            args = [self.expr(a, env) for a in e.args]
            if any(isinstance(a, ast.Starred) for a in e.args) or any(k.arg is None for k in e.keywords):
                raise NotConstant("star arguments")
            kwargs = {k.arg: self.expr(k.value, env) for k in e.keywords}
            lib = f.attr if isinstance(f, ast.Attribute) and base_is_module else \
                (f.id if isinstance(f, ast.Name) and f.id not in env else None)
            if lib == "succeed" and len(args) == 1:
                return _MD(True, args[0])
            if lib == "gatherResults" and args:
                return self._gather(args[0])
            if lib == "DeferredList" and args:
                ds = list(args[0])
                return _MD(True, [(x.ok, x.v) for x in ds])
            if isinstance(f, ast.Name):
                if f.id in env:
                    return self.apply(env[f.id], args, kwargs)
                if f.id in self._BUILTINS:
                    return self._BUILTINS[f.id](*args, **kwargs)
                raise NotConstant("call of %s is not modelled" % f.id)
            if isinstance(f, ast.Attribute):
                if isinstance(f.value, ast.Name) and f.value.id == "self" and "self" not in env:
                    return self.apply(self._self_attr(f.attr), args, kwargs)
                if base_is_module:
                    raise NotConstant("call of %s is not modelled" % ast.unparse(f))
                recv = self.expr(f.value, env)
                if isinstance(recv, _MD):
                    return self._register(recv, f.attr, args, kwargs)
                if isinstance(recv, _MFail) and f.attr in ("trap", "check"):
                    names = {(attr_path(a) or "?").rsplit(".", 1)[-1] for a in e.args}
                    if recv.cls in names:
                        return recv.cls
                    if f.attr == "trap":
                        raise _ModelRaise(recv)
                    return None
                if isinstance(recv, _Opaque):
                    return _Opaque("%s.%s()" % (recv.label, f.attr))
                if isinstance(recv, _CONTAINERS) and not f.attr.startswith("_"):
                    return getattr(recv, f.attr)(*args, **kwargs)
                raise NotConstant("call %s is not modelled" % ast.unparse(f))
            return self.apply(self.expr(f, env), args, kwargs)
        return ConstEval._expr(self, e, env)


def run(ctx: Context):
    idx = ctx.idx

    # -- 1. UEB hash gate ---------------------------------------------------
    with ctx.rule("C45.1", "R1/E7", "ValidatedExtendedURIProxy: _check_integrity returns its argument only under "
                  "uri_extension_hash(arg) == verifycap.uri_extension_hash; start() parses only what it returned; "
                  "_parse_and_validate has no other caller", expected=3) as r:
        fn = idx.func(VEUP + "._check_integrity")
        param = first_positional_params(fn)[0]
        cfg = fn.cfg()
        fnorm = FlowNorm(fn)
        hashed = re.compile(r"^(\w+\.)*uri_extension_hash\(%s\)$" % re.escape(param))

        def gate(n, lab):
            f = fnorm.edge_fact(n, lab)
            if not f or f[0] != "==":
                return False
            sides = [f[1], f[2]]
            return any(hashed.match(s) for s in sides) and "self._verifycap.uri_extension_hash" in sides
        rets = cfg.find(is_return)
        if not rets:
            raise AnchorVanished("_check_integrity has no return")
        for n in rets:
            r.site(fn, n.ast, "accepting return")
            r.require(n.ast.value is not None and fnorm.norm(n, n.ast.value) == param, fn, fn.loc(n.ast),
                      "returns %s, not the UEB whose hash was compared" % src(fn, n.ast.value))
        r.count(len(cfg.nodes))
        for (n, w) in find_path_avoiding(cfg, lambda n: n.kind == "exit", gate_edge=gate, kill=stores(param)):
            r.violation(fn, fn.loc(), "a UEB is accepted on a path that never compared its hash with the verify cap "
                        "(path: %s)" % w.brief(), w)
        st = idx.func(VEUP + ".start")
        regs = _regs(st)
        src_vars = {attr_path(t) for n in _own(st) if isinstance(n, ast.Assign) and isinstance(n.value, ast.Call)
                    and call_name(n.value) == "self._readbucketproxy.get_uri_extension" for t in n.targets}
        src_vars.discard(None)
        if len(src_vars) != 1:
            raise AnchorVanished("start(): d = self._readbucketproxy.get_uri_extension()")
        dv = src_vars.pop()
        chain = [x for x in regs if x.recv == dv]
        names = [(x.kind, x.target_name()) for x in chain]
        r.site(st, None, "chain %s" % names)
        want = [("cb", "self._check_integrity"), ("cb", "self._parse_and_validate")]
        r.require(names[:2] == want, st, st.loc(), "UEB chain is %s: the fetched UEB must pass _check_integrity and only "
                  "then be parsed" % names)
        for n in st.cfg().find(is_return):
            r.require(attr_path(n.ast.value) == dv, st, st.loc(n.ast), "start() returns %s" % src(st, n.ast.value))
        bad, badrefs, total = callers_outside(idx, "_parse_and_validate", [VEUP + ".start"])
        r.site("references to _parse_and_validate: %d" % total)
        if total < 1:
            raise AnchorVanished("no reference to _parse_and_validate")
        for cs in bad:
            r.violation(cs.fn, cs.loc, "unvalidated UEB path: %s calls _parse_and_validate" % short(cs.fn))
        for (f, nd) in badrefs:
            r.violation(f, f.loc(nd), "%s takes _parse_and_validate as a value" % short(f))
        cg = get_callgraph(idx)
        for name in ("_check_integrity", "_parse_and_validate"):
            for (f, nd) in cg.attr_stores(name):
                r.violation(f, f.loc(nd), "%s replaces the UEB gate %s" % (short(f), name))

    # -- 2. UEB contents ----------------------------------------------------
    with ctx.rule("C45.2", "R1", "_parse_and_validate: roots / segment size come from the checked UEB, derived sizes use "
                  "cap and UEB, and the proxy is returned only after each redundant field present in the UEB was compared "
                  "with the cap", expected=18) as r:
        fn = idx.func(VEUP + "._parse_and_validate")
        param = first_positional_params(fn)[0]
        dvs = [attr_path(t) for n in _own(fn) if isinstance(n, ast.Assign) and isinstance(n.value, ast.Call)
               and call_tail(n.value) == "unpack_extension" and len(n.value.args) == 1
               and attr_path(n.value.args[0]) == param for t in n.targets]
        if len(dvs) != 1 or not dvs[0]:
            raise AnchorVanished("_parse_and_validate: d = uri.unpack_extension(<parameter>)")
        D = dvs[0]
        keep = (D,)
        cfg = fn.cfg()
        fnorm = FlowNorm(fn, keep=keep)
        for attr in ("segment_size", "crypttext_root_hash", "share_root_hash"):
            r.site(fn, None, "UEB field " + attr)
            _require_store(r, fn, "self." + attr, lambda s, a=attr: s == "%s[%r]" % (D, a),
                           "field %r of the hash-checked UEB" % attr, keep=keep)
        cap = r"self\._verifycap\."
        for attr, a1, a2 in (("share_size", cap + "size", cap + "needed_shares"),
                             ("block_size", r"self\.segment_size", cap + "needed_shares"),
                             ("num_segments", cap + "size", r"self\.segment_size")):
            r.site(fn, None, "derived " + attr)
            rx = re.compile(r"^(\w+\.)*div_ceil\(%s, %s\)$" % (a1, a2))
            _require_store(r, fn, "self." + attr, lambda s, rx=rx: rx.match(s) is not None,
                           "div_ceil(%s, %s)" % (a1.replace("\\", ""), a2.replace("\\", "")), keep=keep)
        rets = cfg.find(is_return)
        if not rets:
            raise AnchorVanished("_parse_and_validate has no return")
        is_acc = lambda n: n.kind == "exit"

        def field_gate(key, lhs_rx, expected):
            lrx = re.compile(lhs_rx)

            def g(n, lab):
                f = fnorm.edge_fact(n, lab)
                if not f:
                    return False
                op, l, rr = f
                if op == "not in" and l == repr(key) and rr == D:
                    return True
                if op == "==":
                    return (lrx.match(l) and rr in expected) or (lrx.match(rr) and l in expected)
                return False
            return g
        d_ = re.escape(D)
        pp = lambda key, i: r"^(\w+\.)*parse_params\(%s\[%r\]\)\[%d\]$" % (d_, key, i)
        fields = [
            ("num_segments", r"^%s\['num_segments'\]$" % d_, ("self.num_segments",)),
            ("size", r"^%s\['size'\]$" % d_, ("self._verifycap.size",)),
            ("needed_shares", r"^%s\['needed_shares'\]$" % d_, ("self._verifycap.needed_shares",)),
            ("total_shares", r"^%s\['total_shares'\]$" % d_, ("self._verifycap.total_shares",)),
            ("codec_name", r"^%s\['codec_name'\]$" % d_, ("b'crs'",)),
            ("codec_params", pp("codec_params", 0), ("self.segment_size",)),
            ("codec_params", pp("codec_params", 1), ("self._verifycap.needed_shares",)),
            ("codec_params", pp("codec_params", 2), ("self._verifycap.total_shares",)),
            ("tail_codec_params", pp("tail_codec_params", 0), ("self.tail_segment_size",)),
            ("tail_codec_params", pp("tail_codec_params", 1), ("self._verifycap.needed_shares",)),
            ("tail_codec_params", pp("tail_codec_params", 2), ("self._verifycap.total_shares",)),
            ("crypttext_hash", r"^len\((self\.crypttext_hash|%s\['crypttext_hash'\])\)$" % d_,
             ("CRYPTO_VAL_SIZE", "hashutil.CRYPTO_VAL_SIZE", "32")),
        ]
        for (key, lhs, expected) in fields:
            r.site(fn, None, "consistency of %s vs %s" % (key, expected[0]))
            r.count(len(cfg.nodes))
            for (n, w) in find_path_avoiding(cfg, is_acc, gate_edge=field_gate(key, lhs, expected), kill=stores(D)):
                r.violation(fn, fn.loc(), "a UEB whose %r disagrees with %s is accepted (path: %s)" % (
                    key, expected[0], w.brief()), w)
        for n in rets:
            r.require(attr_path(n.ast.value) == "self", fn, fn.loc(n.ast), "returns %s" % src(fn, n.ast.value))

    # -- 3. block / hash validation in ValidatedReadBucketProxy --------------
    with ctx.rule("C45.3", "R1/R4", "ValidatedReadBucketProxy: a block is returned only after block_hash(block) entered the "
                  "block hash tree at blocknum; literal block-tree roots = share hash tree leaf of this share; hash-failure "
                  "handlers raise; get_all_* validate what they fetch; roots seeded only from the validated UEB",
                  expected=5) as r:
        fn = idx.func(VRBP + "._got_data")
        ps = first_positional_params(fn)
        res_p, bn_p = ps[0], ps[1]
        cfg = fn.cfg()
        fnorm = FlowNorm(fn)
        rets = cfg.find(is_return)
        if not rets:
            raise AnchorVanished("_got_data has no return")
        blocks = set()
        for n in rets:
            r.site(fn, n.ast, "block delivery")
            blocks.add(fnorm.norm(n, n.ast.value) if n.ast.value is not None else "None")
        r.require(len(blocks) == 1 and re.match(r"^%s\[\d+\]$" % re.escape(res_p), list(blocks)[0]) is not None, fn, fn.loc(),
                  "_got_data returns %s, not one element of the fetched results" % sorted(blocks))
        blk = sorted(blocks)[0]

        def leaf_ok(n):
            for c in calls_at(n, "set_hashes"):
                lv = _kw(c, "leaves", 1)
                at = n
                if isinstance(lv, ast.Name):
                    # a dict literal hoisted into a local (never substituted by the normaliser: mutable)
                    ds = fnorm.rd.get(n.id, {}).get(lv.id)
                    if ds and len(ds) == 1 and min(ds) >= 0:
                        at = cfg.nodes[min(ds)]
                        lv = assign_value(at, lv.id)
                if call_name(c) == "self.block_hash_tree.set_hashes" and isinstance(lv, ast.Dict) and len(lv.keys) == 1:
                    k = fnorm.norm(at, lv.keys[0])
                    v = fnorm.norm(at, lv.values[0])
                    if k == bn_p and re.match(r"^(\w+\.)*block_hash\(%s\)$" % re.escape(blk), v):
                        return True
            return False
        if not cfg.find(leaf_ok):
            r.violation(fn, fn.loc(), "no self.block_hash_tree.set_hashes(leaves={%s: block_hash(%s)}) in _got_data" % (bn_p, blk))
        r.count(len(cfg.nodes))
        for (n, w) in find_path_avoiding(cfg, lambda n: n.kind == "exit", gate_node=leaf_ok,
                                         kill=stores_any([res_p, bn_p])):
            r.violation(fn, fn.loc(), "a block is returned without its hash having been checked against the block hash tree "
                        "(path: %s)" % w.brief(), w)
        _handlers_never_return(r, fn, "_got_data")
        # root of the block hash tree
        roots = []
        for n in cfg.nodes:
            for c in calls_at(n, "set_hashes"):
                a0 = arg(c, 0, "hashes")
                keys = dict_literal_keys(a0) if a0 is not None else None
                if keys and 0 in keys:
                    roots.append((n, c, a0))
        if not roots:
            raise AnchorVanished("_got_data no longer seeds the block hash tree root")
        for (n, c, a0) in roots:
            r.site(fn, c, "block tree root")
            v = fnorm.norm(n, a0.values[list(dict_literal_keys(a0)).index(0)])
            r.require(call_name(c) == "self.block_hash_tree.set_hashes" and len(a0.keys) == 1
                      and v == "self.share_hash_tree.get_leaf(self.sharenum)", fn, fn.loc(c),
                      "root seeded by %s: expected the share hash tree leaf of this share number" % src(fn, c))
        # the share hash chain offered by the server is validated (set_hashes) whenever the leaf is not yet known
        sh_set = lambda n: any(call_name(c) == "self.share_hash_tree.set_hashes" for c in node_calls(n))
        if not cfg.find(sh_set):
            raise AnchorVanished("_got_data no longer feeds the share hash tree")
        # get_all_* fetchers
        for meth, tree in (("get_all_sharehashes", "self.share_hash_tree"), ("get_all_blockhashes", "self.block_hash_tree"),
                           ("get_all_crypttext_hashes", None)):
            m = idx.func(VRBP + "." + meth)
            regs = _regs(m)
            cbs = [x for x in regs if x.kind == "cb"]
            if len(cbs) != 1 or len(regs) != 1:
                raise AnchorVanished("%s: exactly one callback expected, found %s" % (meth, regs))
            cb = _cb_func(idx, m, cbs[0].target)
            if cb is None:
                raise AnchorVanished("%s callback" % meth)
            r.site(cb, None, meth)
            want_tree = tree or (first_positional_params(m)[0] if first_positional_params(m) else None)
            cp = first_positional_params(cb)[0]
            ccfg = cb.cfg()

            def validates(n, _t=want_tree, _cb=cb, _cp=cp):
                for c in calls_at(n, "set_hashes"):
                    if attr_path(c.func.value) == _t and c.args and _cp in depends_on(_cb, c.args[0]):
                        return True
                return False
            for (n, w) in find_path_avoiding(ccfg, lambda n: n.kind == "exit", gate_node=validates):
                r.violation(cb, cb.loc(), "%s completes without feeding the fetched hashes to %s.set_hashes (path: %s)" % (
                    meth, want_tree, w.brief()), w)
            _handlers_never_return(r, cb, meth)
            for n in m.cfg().find(is_return):
                r.require(attr_path(n.ast.value) == cbs[0].recv, m, m.loc(n.ast), "%s returns %s, not the validating Deferred" % (
                    meth, src(m, n.ast.value)))
        # who seeds roots in checker.py
        ckmod = idx.module("allmydata." + CK)
        allowed = {idx.func(CHECKER + "._download_and_verify._got_ueb").qual, fn.qual}
        for f in idx.funcs.values():
            if f.module is not ckmod:
                continue
            for c in _calls(f, "set_hashes"):
                a0 = arg(c, 0, "hashes")
                keys = dict_literal_keys(a0) if a0 is not None else None
                if keys and 0 in keys and f.qual not in allowed:
                    # the proxy may (re-)seed / compare its block tree root with its share hash tree leaf anywhere (C45.10)
                    if f.cls is fn.cls and len(keys) == 1 and isinstance(c.func, ast.Attribute):
                        fm = FlowNorm(f)
                        at = _node_of(f, c)
                        if fm.norm(at, c.func.value) == "self.block_hash_tree" and \
                                fm.norm(at, a0.values[0]) == "self.share_hash_tree.get_leaf(self.sharenum)":
                            continue
                    r.violation(f, f.loc(c), "hash-tree root seeded outside the validated-UEB path: %s" % src(f, c))

    # -- 4. per-share verdict -----------------------------------------------
    with ctx.rule("C45.4", "E7/R1", "_download_and_verify: (True, sharenum) only after validated UEB, all hash fetches and "
                  "every block; nothing swallows a failure before it; failures classified corrupt / incompatible as listed",
                  expected=7) as r:
        fn = idx.func(CHECKER + "._download_and_verify")
        fps = first_positional_params(fn)
        if "sharenum" not in fps:
            raise AnchorVanished("_download_and_verify(sharenum)")
        outer = N(fn)
        ve = [c for c in _calls(fn, "ValidatedExtendedURIProxy")]
        if len(ve) != 1:
            raise AnchorVanished("ValidatedExtendedURIProxy construction")
        r.site(fn, ve[0], "UEB proxy")
        cap_arg = _kw(ve[0], "verifycap", 1)
        r.require(cap_arg is not None and outer.norm(cap_arg) == "self._verifycap", fn, fn.loc(ve[0]),
                  "the UEB is validated against %s, not against the checker's verify cap" % (src(fn, cap_arg) if cap_arg is not None else None))
        rb = outer.norm(ve[0].args[0]) if ve[0].args else ""
        r.require(re.match(r"^(\w+\.)*ReadBucketProxy\(bucket, ", rb) is not None, fn, fn.loc(ve[0]),
                  "the UEB proxy reads from %s, not from the bucket under test" % rb)
        regs = _regs(fn)
        starts = {attr_path(t) for n in _own(fn) if isinstance(n, ast.Assign) and isinstance(n.value, ast.Call)
                  and call_tail(n.value) == "start" and isinstance(n.value.func, ast.Attribute)
                  and outer.norm(n.value.func.value).startswith("ValidatedExtendedURIProxy(") for t in n.targets}
        starts.discard(None)
        if len(starts) != 1:
            raise AnchorVanished("d = veup.start()")
        dv = starts.pop()
        chain = [x for x in regs if x.recv == dv]
        r.site(fn, None, "verdict chain %s" % chain)

        def role(x):
            f = _cb_func(idx, fn, x.target)
            if f is None:
                return ("?", None)
            if any(True for _ in _calls(f, "ValidatedReadBucketProxy")):
                return ("ueb", f)
            inner_calls = {call_tail(c) for g in [f] + list(f.nested.values()) for c in _calls(g)}
            if "get_block" in inner_calls:
                return ("blocks", f)
            for n in f.cfg().find(is_return):
                v = n.ast.value
                if isinstance(v, ast.Tuple) and v.elts and _truthy_const(v.elts[0]):
                    return ("good", f)
            for n in f.cfg().find(is_return):
                v = n.ast.value
                if isinstance(v, ast.Tuple) and v.elts and _falsy_const(v.elts[0]):
                    return ("classify", f)
            return ("other", f)
        roles = [(role(x)[0], x) for x in chain]
        kinds = [(k, x.kind) for (k, x) in roles]
        seq = [k for (k, _x) in roles]
        ok = seq[:4] == ["ueb", "blocks", "good", "classify"] and [x.kind for (_k, x) in roles[:4]] == ["cb", "cb", "cb", "eb"]
        r.require(ok, fn, fn.loc(), "verdict chain is %s: expected validated-UEB -> all blocks -> (True, ..) with plain callbacks, "
                  "then the classifying errback" % kinds)
        for n in fn.cfg().find(is_return):
            r.require(attr_path(n.ast.value) == dv, fn, fn.loc(n.ast), "_download_and_verify returns %s" % src(fn, n.ast.value))
        # (True, ..) is produced nowhere else
        for g in fn.nested.values():
            gl = [g] + list(g.nested.values())
            for h in gl:
                for n in h.cfg().find(is_return):
                    v = n.ast.value
                    if isinstance(v, ast.Tuple) and v.elts and not _falsy_const(v.elts[0]):
                        is_good = any(k == "good" and _cb_func(idx, fn, x.target) is h for (k, x) in roles)
                        r.require(is_good and _truthy_const(v.elts[0]), h, h.loc(n.ast),
                                  "%s yields a positive verdict %s outside the end of the validation chain" % (short(h), src(h, v)))
                        r.require(len(v.elts) == 3 and attr_path(v.elts[1]) == "sharenum", h, h.loc(n.ast),
                                  "positive verdict %s does not name the share that was verified" % src(h, v))
        # _got_ueb
        gu = [_cb_func(idx, fn, x.target) for (k, x) in roles if k == "ueb"]
        if not gu:
            raise AnchorVanished("the callback that builds ValidatedReadBucketProxy")
        gu = gu[0]
        vup = first_positional_params(gu)[0]
        gn = _closure_norm(gu)
        seeds = {}
        for c in _calls(gu, "set_hashes"):
            a0 = arg(c, 0, "hashes")
            keys = dict_literal_keys(a0) if a0 is not None else None
            if keys and 0 in keys and len(keys) == 1:
                seeds[attr_path(c.func.value)] = (c, gn.norm(a0.values[0]), gn.norm(c.func.value))
        vr = [c for c in _calls(gu, "ValidatedReadBucketProxy")]
        if len(vr) != 1 or len(vr[0].args) < 6:
            raise AnchorVanished("ValidatedReadBucketProxy(sharenum, bucket, share_hash_tree, num_blocks, block_size, share_size)")
        vr = vr[0]
        r.site(gu, vr, "bucket proxy")
        sht = attr_path(vr.args[2])
        r.require(sht in seeds and seeds[sht][1] == vup + ".share_root_hash", gu, gu.loc(vr),
                  "share hash tree root is %s, not the share_root_hash of the validated UEB" % (seeds.get(sht, (None, None))[1],))
        if sht in seeds:
            r.require(re.match(r"^(\w+\.)*IncompleteHashTree\(self\._verifycap\.total_shares\)$", seeds[sht][2]) is not None,
                      gu, gu.loc(seeds[sht][0]), "share hash tree is %s, not a tree over the cap's N shares" % seeds[sht][2])
        r.require(attr_path(vr.args[0]) == "sharenum", gu, gu.loc(vr), "bucket proxy validates share number %s" % src(gu, vr.args[0]))
        r.require(gn.norm(vr.args[1]) == rb, gu, gu.loc(vr), "bucket proxy reads %s, the UEB proxy read %s" % (gn.norm(vr.args[1]), rb))
        for i, a in ((3, "num_segments"), (4, "block_size"), (5, "share_size")):
            r.require(gn.norm(vr.args[i]) == "%s.%s" % (vup, a), gu, gu.loc(vr),
                      "bucket proxy argument %d is %s, not %s of the validated UEB" % (i, gn.norm(vr.args[i]), a))
        cts = [(k, v) for k, v in seeds.items() if k != sht]
        r.site(gu, None, "ciphertext tree root")
        r.require(len(cts) == 1 and cts[0][1][1] == vup + ".crypttext_root_hash", gu, gu.loc(),
                  "ciphertext hash tree root is %s" % [v[1] for _k, v in cts])
        gregs = _regs(gu)
        fetched = set()
        for n in _own(gu):
            if isinstance(n, ast.Call) and call_tail(n) in ("get_all_sharehashes", "get_all_blockhashes", "get_all_crypttext_hashes"):
                fetched.add(call_tail(n))
        for x in gregs:
            if isinstance(x.target, ast.Lambda):
                for c in contains_call(x.target.body, "get_all_blockhashes") + contains_call(x.target.body, "get_all_crypttext_hashes") \
                        + contains_call(x.target.body, "get_all_sharehashes"):
                    fetched.add(call_tail(c))
                    if call_tail(c) == "get_all_crypttext_hashes" and cts:
                        r.require(bool(c.args) and attr_path(c.args[0]) == cts[0][0], gu, gu.loc(c),
                                  "ciphertext hashes are validated against %s, not the tree seeded from the UEB" % src(gu, c))
            r.require(x.kind == "cb", gu, gu.loc(x.call), "%r inside the hash-fetch chain can swallow a validation failure" % x)
        r.require(fetched == {"get_all_sharehashes", "get_all_blockhashes", "get_all_crypttext_hashes"}, gu, gu.loc(),
                  "the verifier fetches only %s of the share's hash trees" % sorted(fetched))
        last = gregs[-1] if gregs else None
        r.require(last is not None and isinstance(last.target, ast.Lambda) and isinstance(last.target.body, ast.Name)
                  and gn.norm(last.target.body).startswith("ValidatedReadBucketProxy("), gu, gu.loc(),
                  "the hash-fetch chain does not end by handing the bucket proxy to the block fetcher")
        for n in gu.cfg().find(is_return):
            r.require(last is not None and attr_path(n.ast.value) == last.recv, gu, gu.loc(n.ast), "returns %s" % src(gu, n.ast.value))
        # _get_blocks
        gb = [_cb_func(idx, fn, x.target) for (k, x) in roles if k == "blocks"]
        if not gb:
            raise AnchorVanished("the callback that fetches the blocks")
        gb = gb[0]
        vp = first_positional_params(gb)[0]
        gcfg = gb.cfg()
        its = gcfg.find(lambda n: n.kind == "iter")
        if len(its) != 1:
            raise AnchorVanished("block loop")
        it = its[0]
        r.site(gb, it.ast, "block loop")
        bn = _closure_norm(gb)
        itn = bn.norm(it.ast.iter)
        r.require(re.match(r"^range\((ValidatedExtendedURIProxy\(.*\)|\w+)\.num_segments\)$", itn) is not None, gb, gb.loc(it.ast),
                  "blocks fetched: %s, not every block 0..num_segments-1 of the validated UEB" % itn)
        lv = attr_path(it.ast.target)
        bregs = [x for x in _regs(gb)]
        inloop = [x for x in bregs if any(c is x.call for n in ast.walk(it.ast) for c in [n])]
        r.require(len(inloop) == 1 and inloop[0].kind == "cb" and len(inloop[0].args) == 1 and attr_path(inloop[0].args[0]) == lv,
                  gb, gb.loc(it.ast), "the loop does not chain one block fetch per block number")
        if inloop:
            one = _cb_func(idx, gb, inloop[0].target)
            ops = first_positional_params(one)
            gets = [c for c in _calls(one, "get_block")]
            r.require(len(gets) == 1 and attr_path(gets[0].func.value) == vp and len(gets[0].args) == 1 and len(ops) == 2
                      and attr_path(gets[0].args[0]) == ops[1], one, one.loc(), "block fetch is %s" % [src(one, c) for c in gets])
            dvars = {attr_path(t) for n in _own(one) if isinstance(n, ast.Assign) and gets and n.value is gets[0] for t in n.targets}
            for n in one.cfg().find(is_return):
                r.require(attr_path(n.ast.value) in dvars or (gets and n.ast.value is gets[0]), one, one.loc(n.ast),
                          "the block fetch's Deferred is not returned: a hash failure in this block would be lost")
            bad_paths = find_path_avoiding(one.cfg(), lambda n: n.kind == "exit", gate_node=is_return)
            for (n, w) in bad_paths:
                r.violation(one, one.loc(), "the block fetch's Deferred is not returned on every path", w)
            for x in _regs(one):
                r.require(x.kind == "cb", one, one.loc(x.call), "%r on the block fetch can swallow a hash failure" % x)
            for n in gcfg.find(is_return):
                r.require(attr_path(n.ast.value) == inloop[0].recv, gb, gb.loc(n.ast), "returns %s, not the chain of block fetches" % src(gb, n.ast.value))
        # _errb
        eb = [_cb_func(idx, fn, x.target) for (k, x) in roles if k == "classify"]
        if not eb:
            raise AnchorVanished("classifying errback")
        eb = eb[0]
        fp = first_positional_params(eb)[0]
        ecfg = eb.cfg()

        def check_edge(pred):
            def g(n, lab):
                if n.kind != "test" or not isinstance(lab, tuple):
                    return False
                e = n.ast
                if isinstance(e, ast.Call) and call_name(e) == fp + ".check":
                    return pred(lab[0] == "T", _check_classes(e))
                return False
            return g
        labels = {}
        for n in ecfg.find(is_return):
            v = n.ast.value
            if isinstance(v, ast.Tuple) and len(v.elts) == 3 and isinstance(v.elts[2], ast.Constant):
                labels.setdefault(v.elts[2].value, []).append(n)
                r.require(_falsy_const(v.elts[0]) and attr_path(v.elts[1]) == "sharenum", eb, eb.loc(n.ast),
                          "failure verdict %s" % src(eb, v))
        for lab_ in ("corrupt", "incompatible"):
            if lab_ not in labels:
                raise AnchorVanished("errback no longer reports %r" % lab_)
        for n in labels["corrupt"]:
            r.site(eb, n.ast, "corrupt verdict")
        for n in labels["incompatible"]:
            r.site(eb, n.ast, "incompatible verdict")
        corrupt_classes = set()
        for n in ecfg.nodes:
            if n.kind == "test" and isinstance(n.ast, ast.Call) and call_name(n.ast) == fp + ".check":
                # classes whose truth edge leads to a 'corrupt' return without another test
                for (d, lab) in ecfg.succ[n.id]:
                    if isinstance(lab, tuple) and lab[0] == "T" and ecfg.nodes[d] in labels["corrupt"]:
                        corrupt_classes |= _check_classes(n.ast)
        r.require(HASH_FAILURES <= corrupt_classes, eb, eb.loc(), "classes reported as corrupt: %s; the verifier's hash/layout "
                  "failures %s must be among them (otherwise a bad share aborts the whole check or is not listed)" % (
                      sorted(corrupt_classes), sorted(HASH_FAILURES - corrupt_classes)))
        r.require(not (corrupt_classes & NOT_CORRUPT), eb, eb.loc(), "%s reported as corrupt" % sorted(corrupt_classes & NOT_CORRUPT))
        is_c = lambda n: n in labels["corrupt"]
        for (n, w) in find_path_avoiding(ecfg, is_c, gate_edge=check_edge(lambda t, cl: t and not (cl & NOT_CORRUPT))):
            r.violation(eb, eb.loc(n.ast), "'corrupt' is reported without an integrity failure having been recognised", w)
        for (n, w) in find_path_avoiding(ecfg, is_c, gate_edge=check_edge(lambda t, cl: (not t) and "ShareVersionIncompatible" in cl)):
            r.violation(eb, eb.loc(n.ast), "LayoutInvalid is tested before its subclass ShareVersionIncompatible: an unknown share "
                        "version would be reported as corrupt", w)
        is_i = lambda n: n in labels["incompatible"]
        for (n, w) in find_path_avoiding(ecfg, is_i, gate_edge=check_edge(lambda t, cl: t and cl == {"ShareVersionIncompatible"})):
            r.violation(eb, eb.loc(n.ast), "'incompatible' is reported for something else than ShareVersionIncompatible", w)
        lay = idx.cls("immutable.layout:ShareVersionIncompatible")
        r.require(lay.is_subclass_of("LayoutInvalid"), lay.qual, lay.module.relpath, "ShareVersionIncompatible is no longer a LayoutInvalid")
        # raised by the gates: hash failures use the classes that are classified
        for q, want in ((VEUP + "._check_integrity", "BadURIExtensionHashValue"),):
            g = idx.func(q)
            rs = [n for n in g.cfg().nodes if is_raise(n)]
            r.require(bool(rs) and all(raises(want)(n) for n in rs), g, g.loc(), "%s raises something else than %s" % (short(g), want))

    # -- 5. collection of verdicts ------------------------------------------
    with ctx.rule("C45.5", "R3/R5", "per-server results behind Checker.start(), evaluated on a finite model (one share per verdict "
                  "_download_and_verify can fire with): with verify set a share is in slot 0 (good) iff its own verdict is True, "
                  "slots 2 / 3 hold exactly the 'corrupt' / 'incompatible' ones, each verified with its own server and bucket; "
                  "without verify the claimed shares; layout as _format_results unpacks it; only slot 0 feeds the share map",
                  expected=7) as r:
        ck = idx.cls(CHECKER)
        st = idx.func(CHECKER + ".start")
        dav = idx.func(CHECKER + "._download_and_verify")
        for anchor in ("_get_buckets", "_format_results"):
            idx.func(CHECKER + "." + anchor)
        # the verdicts _download_and_verify can fire with: every (flag, sharenum, tag) tuple one of its callbacks returns
        outcomes = []
        for g in [dav] + [h for h in idx.funcs.values() if h.qual.startswith(dav.qual + ".")]:
            if isinstance(g.node, ast.Lambda):
                continue
            for n in g.cfg().find(is_return):
                v = n.ast.value
                if isinstance(v, ast.Tuple) and len(v.elts) == 3 and isinstance(v.elts[0], ast.Constant) \
                        and isinstance(v.elts[2], ast.Constant) and attr_path(v.elts[1]) == "sharenum":
                    o = (v.elts[0].value, v.elts[2].value)
                    if o not in outcomes:
                        outcomes.append(o)
        if not [o for o in outcomes if o[0]] or len([o for o in outcomes if not o[0]]) < 2:
            raise AnchorVanished("_download_and_verify: the (True, sharenum, None) / (False, sharenum, <why>) verdicts")
        fmap = {id(f.node): f for f in idx.funcs.values() if f.module is ck.module}

        def blame(model, server):
            pr = model.producer.get(server)
            if pr is None:
                return st, st.loc()
            node, ret = pr
            f = fmap.get(id(node))
            if f is None:
                return st, st.loc()
            return f, f.loc(ret)

        def as_set(x, what):
            if isinstance(x, (set, frozenset, list, tuple, dict)):
                return set(x)
            raise AnalysisError("C45.5 model: %s is %r, not a collection of share numbers" % (what, x))

        def run_model(verify, rot):
            S1, S2, S3 = _Opaque("server-1"), _Opaque("server-2"), _Opaque("server-3")
            k = len(outcomes)
            nums = [20 + i for i in range(k)]
            verd = {nums[i]: (outcomes[(i + rot) % k][0], nums[i], outcomes[(i + rot) % k][1]) for i in range(k)}
            buckets = {n: _Opaque("bucket-%d" % n) for n in nums}
            answers = {S1: _MD(True, (dict(buckets), True)), S2: _MD(True, ({}, False)), S3: _MD(True, ({}, True))}
            m = ShareCollectionModel(idx, ck, verify, [S1, S2, S3], answers, verd)
            try:
                out = m.apply(_Bound("start", st), [], {})
            except NotConstant as e:
                raise AnalysisError("C45.5: the share collection behind Checker.start() cannot be evaluated on the finite "
                                    "model (verify=%s): %s" % (verify, e))
            r.count(m.steps)
            if not isinstance(out, _MD):
                raise AnalysisError("C45.5 model: Checker.start() returns %r, not a Deferred" % (out,))
            if not out.ok:
                r.violation(st, st.loc(), "with every server answering, Checker.start() fails with %r" % (out.v,))
                return None
            if not isinstance(out.v, _Formatted):
                r.violation(st, st.loc(), "the per-server results are not turned into CheckResults by self._format_results "
                            "(start() fires with %r)" % (out.v,))
                return None
            rows = {}
            try:
                res = list(out.v.results)
            except TypeError:
                raise AnalysisError("C45.5 model: _format_results is given %r" % (out.v.results,))
            for t in res:
                if not (isinstance(t, tuple) and len(t) == 5):
                    r.violation(st, st.loc(), "_format_results unpacks (verified, server, corrupt, incompatible, responded); "
                                "it is handed %r" % (t,))
                    return None
                if t[1] in rows or t[1] not in answers:
                    f, loc = blame(m, t[1]) if t[1] in answers else (st, st.loc())
                    r.violation(f, loc, "result tuple %r: slot 1 is not the server that was asked (once)" % (t,))
                    return None
                rows[t[1]] = t
            for S in (S1, S2, S3):
                if S not in rows:
                    r.violation(st, st.loc(), "no result for %r reaches _format_results" % S)
                    return None
            return m, (S1, S2, S3), rows, verd, buckets

        def describe(verd, shares):
            return ", ".join("share %d with verdict %r" % (n, verd[n]) for n in sorted(shares))

        n_rot = len(outcomes)
        for verify in (True, False):
            reported = set()
            for rot in range(n_rot):
                got = run_model(verify, rot)
                if got is None:
                    break
                m, (S1, S2, S3), rows, verd, buckets = got
                t = rows[S1]
                f, loc = blame(m, S1)
                good, corrupt, incompat = as_set(t[0], "slot 0"), as_set(t[2], "slot 2"), as_set(t[3], "slot 3")
                checked = {a[1] for a in m.verified}
                for a in m.verified:
                    if a != (S1, a[1], buckets.get(a[1])) and "args" not in reported:
                        reported.add("args")
                        r.violation(f, loc, "share %r is verified as _download_and_verify%r, not with its own server and bucket" % (a[1], a))
                if rot == 0:
                    r.site(f, None, "verify=%s: per-server result of a server offering one share per verdict %s" % (verify, outcomes))
                if verify or checked:
                    ok = {n for n in verd if verd[n][0]}
                    want = (ok, {n for n in verd if not verd[n][0] and verd[n][2] == "corrupt"},
                            {n for n in verd if not verd[n][0] and verd[n][2] == "incompatible"})
                    bad = good - ok
                    if bad and "good" not in reported:
                        reported.add("good")
                        r.violation(f, loc, "with verify=%s the good set (slot 0 of the result tuple, which feeds the share map and "
                                    "the healthy verdict) contains %s: only a share whose own verification fired (True, ..) may "
                                    "enter it%s" % (verify, describe(verd, bad),
                                                    "" if bad <= checked else " (shares %s were never verified)" % sorted(bad - checked)))
                    if (ok - good) and "lost" not in reported:
                        reported.add("lost")
                        r.violation(f, loc, "with verify=%s the verified %s is missing from the good set (slot 0)" % (
                            verify, describe(verd, ok - good)))
                    for nm, slot, gotset, wantset in (("corrupt", 2, corrupt, want[1]), ("incompatible", 3, incompat, want[2])):
                        if gotset != wantset and nm not in reported:
                            reported.add(nm)
                            r.violation(f, loc, "with verify=%s slot %d of the result tuple (%s shares, as _format_results reads it) "
                                        "holds %s; expected exactly the shares whose verdict is %r" % (
                                            verify, slot, nm, describe(verd, gotset) or "nothing", nm))
                else:
                    if (good != set(buckets) or corrupt or incompat) and "claimed" not in reported:
                        reported.add("claimed")
                        r.violation(f, loc, "without verify the result tuple is (%s, .., %s, %s, ..); expected the shares the server "
                                    "claims %s and no corrupt / incompatible ones" % (sorted(good), sorted(corrupt), sorted(incompat), sorted(buckets)))
                if not t[4] and "resp1" not in reported:
                    reported.add("resp1")
                    r.violation(f, loc, "a server that answered get_buckets is reported as not responding (slot 4 is %r)" % (t[4],))
                for S, resp in ((S2, False), (S3, True)):
                    tt = rows[S]
                    ff, ll = blame(m, S)
                    if rot == 0:
                        r.site(ff, None, "verify=%s: result of a server without shares (responded=%s)" % (verify, resp))
                    empty = not as_set(tt[0], "slot 0") and not as_set(tt[2], "slot 2") and not as_set(tt[3], "slot 3")
                    if (not empty or bool(tt[4]) != resp) and ("srv", resp) not in reported:
                        reported.add(("srv", resp))
                        r.violation(ff, ll, "verify=%s: a server that offered no shares and whose get_buckets reported responded=%s "
                                    "yields %r" % (verify, resp, tt))
                if not verify and not checked:
                    break                         # nothing depends on the verdicts
        # _format_results unpacking
        fr = idx.func(CHECKER + "._format_results")
        rp = first_positional_params(fr)[0]
        main = [n for n in _own(fr) if isinstance(n, ast.For) and attr_path(n.iter) == rp]
        if len(main) != 1 or not isinstance(main[0].target, ast.Tuple) or len(main[0].target.elts) != 5:
            raise AnchorVanished("_format_results: for verified, server, corrupt, incompatible, responded in results")
        T = [attr_path(e) for e in main[0].target.elts]
        crs = [c for c in _calls(fr, "CheckResults")]
        if len(crs) != 1:
            raise AnchorVanished("CheckResults construction in _format_results")
        cr = crs[0]
        sm = attr_path(kwarg(cr, "sharemap")) if kwarg(cr, "sharemap") is not None else None
        lc = attr_path(kwarg(cr, "list_corrupt_shares")) if kwarg(cr, "list_corrupt_shares") is not None else None
        li = attr_path(kwarg(cr, "list_incompatible_shares")) if kwarg(cr, "list_incompatible_shares") is not None else None
        if not (sm and lc and li):
            raise AnchorVanished("CheckResults(sharemap=, list_corrupt_shares=, list_incompatible_shares=) variables")
        r.site(fr, main[0], "unpacking")
        feeds = {sm: set(), lc: set(), li: set()}

        def mutated(call):
            """container variable mutated by x.add/append/update(..) or x.setdefault(..).add(..)"""
            f = call.func
            if not isinstance(f, ast.Attribute) or f.attr not in ("add", "append", "update", "extend", "setdefault", "__setitem__"):
                return None
            v = f.value
            while isinstance(v, ast.Call) and isinstance(v.func, ast.Attribute) and v.func.attr in ("setdefault", "get"):
                v = v.func.value
            return attr_path(v)

        def walk(stmts, ctxvar):
            for st in stmts:
                if isinstance(st, ast.For):
                    it = attr_path(st.iter)
                    walk(st.body, it if it in T else ctxvar)
                    continue
                if isinstance(st, (ast.If, ast.With, ast.Try)):
                    for fld in ("body", "orelse", "finalbody"):
                        walk(getattr(st, fld, []) or [], ctxvar)
                    continue
                for x in ast.walk(st):
                    if isinstance(x, ast.Call):
                        m = mutated(x)
                        if m in feeds:
                            feeds[m].add(ctxvar)
                    if isinstance(x, ast.Subscript) and isinstance(x.ctx, ast.Store) and attr_path(x.value) in feeds:
                        feeds[attr_path(x.value)].add(ctxvar)
        walk(fr.node.body, None)
        r.require(feeds[sm] == {T[0]}, fr, fr.loc(main[0]), "the share map %s is filled from %s, not only from the verified set (element 0)" % (sm, sorted(map(str, feeds[sm]))))
        r.require(feeds[lc] == {T[2]}, fr, fr.loc(main[0]), "corrupt locators are filled from %s, not from element 2" % sorted(map(str, feeds[lc])))
        r.require(feeds[li] == {T[3]}, fr, fr.loc(main[0]), "incompatible locators are filled from %s, not from element 3" % sorted(map(str, feeds[li])))
        _require_store(r, idx.func(CHECKER + ".__init__"), "self._verify", lambda s: s == "verify", "the verify argument")

    # -- 6. verdict conditions ----------------------------------------------
    with ctx.rule("C45.6", "R3/R6", "healthy <=> len(sharemap) == N, recoverable <=> len(sharemap) >= k in _format_results; "
                  "passed unchanged to CheckResults and its accessors; post-repair results use old U new shares", expected=6) as r:
        fr = idx.func(CHECKER + "._format_results")
        crs = [c for c in _calls(fr, "CheckResults")]
        if len(crs) != 1:
            raise AnchorVanished("CheckResults construction in _format_results")
        cr = crs[0]
        smx = kwarg(cr, "sharemap")
        sm = attr_path(smx) if smx is not None else None
        if not sm:
            raise AnchorVanished("sharemap= variable")
        fnorm = FlowNorm(fr, keep=(sm,))
        cfg = fr.cfg()
        LEN = "len(%s)" % sm
        NTOT, KNEED = "self._verifycap.total_shares", "self._verifycap.needed_shares"

        def healthy_fact(f, positive):
            if not f:
                return False
            op, l, rr = f
            if positive:
                return (op == "==" and {l, rr} == {LEN, NTOT}) or (op == "<=" and (l, rr) == (NTOT, LEN))
            return (op == "!=" and {l, rr} == {LEN, NTOT}) or (op == "<" and (l, rr) == (LEN, NTOT))

        def recov_fact(f, positive):
            if not f:
                return False
            op, l, rr = f
            if positive:
                return op == "<=" and (l, rr) == (KNEED, LEN)
            return op == "<" and (l, rr) == (LEN, KNEED)

        def verdict_var(kw):
            e = kwarg(cr, kw)
            if e is None:
                raise AnchorVanished("CheckResults(%s=)" % kw)
            if isinstance(e, ast.Call) and call_name(e) in ("bool", "int") and len(e.args) == 1:
                e = e.args[0]
            return e

        def check_verdict(kw, factf, what):
            e = verdict_var(kw)
            if not isinstance(e, ast.Name):
                n = _node_of(fr, cr)
                f = fnorm.at(n).cmp(e, True)
                r.site(fr, cr, "%s expression" % kw)
                r.require(factf(f, True), fr, fr.loc(cr), "%s=%s is not %s" % (kw, src(fr, e), what))
                return
            var = e.id
            sts = cfg.find(stores(var))
            if not sts:
                raise AnchorVanished("no assignment of %s" % var)
            for n in sts:
                v = assign_value(n, var)
                r.site(fr, n.ast, "%s := %s" % (var, src(fr, v)))
                if _truthy_const(v) or _falsy_const(v):
                    pos = _truthy_const(v)
                    bad = find_path_avoiding(cfg, lambda x, _n=n: x is _n,
                                             gate_edge=lambda a, b, pos=pos: factf(fnorm.edge_fact(a, b), pos), kill=stores(sm))
                    for (t, w) in bad:
                        r.violation(fr, fr.loc(n.ast), "%s is set to %s on a path where %s %s not established (path: %s)" % (
                            var, src(fr, v), what, "is" if pos else "failing is", w.brief()), w)
                else:
                    f = fnorm.at(n).cmp(v, True)
                    r.require(factf(f, True), fr, fr.loc(n.ast), "%s = %s is not %s" % (var, src(fr, v), what))
            # the value handed over is the last assignment (no store between it and the call)
        check_verdict("healthy", healthy_fact, "len(sharemap) == total_shares")
        check_verdict("recoverable", recov_fact, "len(sharemap) >= needed_shares")
        n_cr = _node_of(fr, cr)
        for kw, want in (("count_shares_good", LEN), ("count_shares_needed", KNEED), ("count_shares_expected", NTOT)):
            e = kwarg(cr, kw)
            r.require(e is not None and fnorm.norm(n_cr, e) == want, fr, fr.loc(cr), "CheckResults(%s=%s), expected %s" % (
                kw, fnorm.norm(n_cr, e) if e is not None else None, want))
        r.require(fnorm.norm(n_cr, cr.args[0]) == "self._verifycap" if cr.args else False, fr, fr.loc(cr), "results are not about the checked cap")
        for n in cfg.find(is_return):
            r.require(isinstance(fnorm.resolve(n, n.ast.value), ast.Call) and fnorm.resolve(n, n.ast.value) is cr, fr, fr.loc(n.ast),
                      "_format_results returns %s" % src(fr, n.ast.value))
        # CheckResults accessors
        cri = idx.func("check_results:CheckResults.__init__")
        for attr, par, getter in (("self._healthy", "healthy", "is_healthy"), ("self._recoverable", "recoverable", "is_recoverable")):
            r.site(cri, None, getter)
            _require_store(r, cri, attr, lambda s, p=par: s in (p, "bool(%s)" % p), "the %s argument" % par)
            g = idx.func("check_results:CheckResults." + getter)
            for n in g.cfg().find(is_return):
                r.require(attr_path(n.ast.value) == attr, g, g.loc(n.ast), "%s returns %s" % (getter, src(g, n.ast.value)))
        # post-repair results
        gr = idx.func(CFN + "._gather_repair_results")
        grs = [c for c in _calls(gr, "CheckResults")]
        if len(grs) != 1:
            raise AnchorVanished("CheckResults construction in _gather_repair_results")
        pc = grs[0]
        psm = attr_path(kwarg(pc, "sharemap")) if kwarg(pc, "sharemap") is not None else None
        if not psm:
            raise AnchorVanished("post-repair sharemap variable")
        gnorm = FlowNorm(gr, keep=(psm,))
        pn = _node_of(gr, pc)
        r.site(gr, pc, "post-repair verdict")
        PLEN = "len(%s)" % psm
        for kw, bound, ops in (("healthy", "self._verifycap.total_shares", ("<=", "==")), ("recoverable", "self._verifycap.needed_shares", ("<=",))):
            e = kwarg(pc, kw)
            if e is None:
                raise AnchorVanished("post-repair CheckResults(%s=)" % kw)
            e = gnorm.resolve(pn, e)
            if isinstance(e, ast.Call) and call_name(e) == "bool" and len(e.args) == 1:
                e = e.args[0]
            f = gnorm.at(pn).cmp(e, True)
            ok = bool(f) and f[0] in ops and ((f[1], f[2]) == (bound, PLEN) or (f[0] == "==" and {f[1], f[2]} == {bound, PLEN}))
            r.require(ok, gr, gr.loc(pc), "post-repair %s is %s, not len(sharemap) >= %s" % (kw, f, bound))
        srcs = set()
        for n in _own(gr):
            if isinstance(n, ast.For) and isinstance(n.iter, ast.Call):
                touched = any(isinstance(x, ast.Call) and isinstance(x.func, ast.Attribute) and attr_path(x.func.value) == psm
                              and x.func.attr in ("add", "update", "setdefault") for x in ast.walk(n))
                if touched:
                    srcs.add(norm_plain(n.iter))
        up = first_positional_params(gr)
        r.require(srcs == {"%s.get_sharemap().items()" % up[1], "%s.get_sharemap().items()" % up[0]}, gr, gr.loc(pc),
                  "post-repair share map is built from %s, not from the pre-repair good shares plus the newly uploaded ones" % sorted(srcs))
        hv = kwarg(pc, "healthy")
        _require_store(r, gr, "%s.repair_successful" % up[2], lambda s: True, "the post-repair health")
        for n in gr.cfg().nodes:
            v = assign_value(n, "%s.repair_successful" % up[2])
            if v is not None:
                r.require(gnorm.norm(n, v) == gnorm.norm(pn, hv), gr, gr.loc(n.ast), "repair_successful = %s differs from the post-repair health" % src(gr, v))

    # -- 7. repair ingredients ----------------------------------------------
    with ctx.rule("C45.7", "R7/R6", "repair works from the verify cap: CiphertextFileNode holds no key and is what the Repairer "
                  "gets; k, N from the verify cap, the real segment size, the file's SI and size; ciphertext read at "
                  "consecutive offsets; upload through CHKUploader", expected=7) as r:
        ci = idx.func(CFN + ".__init__")
        cps = first_positional_params(ci)
        r.site(ci, None, "ciphertext node state")
        r.require(not any(re.search(r"key|readcap|filecap|secret$", p) and p != "secret_holder" for p in cps), ci, ci.loc(),
                  "CiphertextFileNode is constructed with %s" % cps)
        cicfg = ci.cfg()
        cin = FlowNorm(ci)
        asserts = [n for n in cicfg.nodes if n.kind == "test" and n.assume
                   and re.match(r"^isinstance\(%s, (\w+\.)*CHKFileVerifierURI\)$" % re.escape(cps[0]), cin.norm(n)) is not None]
        r.require(bool(asserts), ci, ci.loc(), "CiphertextFileNode no longer insists on a CHKFileVerifierURI")
        _require_store(r, ci, "self._verifycap", lambda s: s == cps[0], "the verify cap argument")
        ii = idx.func(IFN + ".__init__")
        mk = [c for c in _calls(ii, "CiphertextFileNode")]
        if len(mk) != 1:
            raise AnchorVanished("ImmutableFileNode.__init__: CiphertextFileNode(...)")
        r.site(ii, mk[0], "ciphertext node construction")
        fcap = first_positional_params(ii)[0]
        inn = FlowNorm(ii)
        mkn = _node_of(ii, mk[0])
        for i, a in enumerate(list(mk[0].args) + [k.value for k in mk[0].keywords]):
            s = inn.norm(mkn, a)
            if i == 0:
                r.require(s == "%s.get_verify_cap()" % fcap, ii, ii.loc(mk[0]), "ciphertext node is built on %s" % s)
            else:
                r.require(fcap not in depends_on(ii, a) and "self._readkey" not in depends_on(ii, a), ii, ii.loc(mk[0]),
                          "argument %s of CiphertextFileNode depends on the read cap" % s)
        for meth in ("check_and_repair", "check"):
            m = idx.func(IFN + "." + meth)
            cs = [c for c in _calls(m) if call_name(c) == "self._cnode." + meth]
            if len(cs) != 1:
                raise AnchorVanished("ImmutableFileNode.%s delegation" % meth)
            r.site(m, cs[0], "delegation")
            mp = first_positional_params(m)
            for a in list(cs[0].args) + [k.value for k in cs[0].keywords]:
                dep = depends_on(m, a)
                r.require(not (dep & {"self.u", "self._readkey"}), m, m.loc(cs[0]), "%s hands %s (read-cap material) to the ciphertext node" % (meth, src(m, a)))
            tm = idx.func(CFN + "." + meth)
            tp = first_positional_params(tm)
            bound = {}
            for i, a in enumerate(cs[0].args):
                bound[tp[i]] = attr_path(a)
            for k in cs[0].keywords:
                bound[k.arg] = attr_path(k.value)
            r.require(bound.get("verify") == "verify" and bound.get("monitor") == "monitor", m, m.loc(cs[0]),
                      "%s forwards %s" % (meth, bound))
        # Repairer
        rs = idx.func(REP + ".start")
        sregs = _regs(rs)
        # the callback that fixes the parameters (what it is fired with, on every path, is C45.13)
        def _fixes_params(x):
            f = _cb_func(idx, rs, x.target)
            return f is not None and any("self._encodingparams" in node_stores(n) for n in f.cfg().nodes)
        seg = [x for x in sregs if x.kind == "cb" and _fixes_params(x)]
        if not [c for c in _calls(rs) if call_name(c) == "self._filenode.get_segment_size"]:
            raise AnchorVanished("Repairer.start: self._filenode.get_segment_size()")
        if len(seg) != 1:
            raise AnchorVanished("Repairer.start: callback on self._filenode.get_segment_size()")
        gs = _cb_func(idx, rs, seg[0].target)
        segp = first_positional_params(gs)[0]
        gsn = FlowNorm(gs)
        r.site(gs, None, "encoding parameters")
        V = r"self\._filenode\.get_verify_cap\(\)"

        def params_ok(s):
            return re.match(r"^\(%s\.needed_shares, [^,]+, %s\.total_shares, %s,\)$" % (V, V, re.escape(segp)), s) is not None
        _require_store(r, gs, "self._encodingparams", params_ok, "(k of the verify cap, happy, N of the verify cap, the file's segment size)")
        ul = [c for c in _calls(gs, "CHKUploader")]
        r.require(len(ul) == 1 and idx.resolve_expr(gs.module, ul[0].func) is idx.cls("immutable.upload:CHKUploader"), gs, gs.loc(),
                  "repair does not upload through immutable.upload.CHKUploader")
        sts = [c for c in _calls(gs, "start")]
        gscfg = gs.cfg()
        ok = False
        for c in sts:
            n = _node_of(gs, c)
            if re.match(r"^(\w+\.)*CHKUploader\(.*\)\.start\(self\)$", gsn.norm(n, c)):
                ok = True
        r.require(ok, gs, gs.loc(), "the uploader is not started with the repairer as its encrypted uploadable")
        for n in gscfg.find(is_return):
            r.require(n.ast.value is not None and re.match(r"^(\w+\.)*CHKUploader\(.*\)\.start\(self\)$", gsn.norm(n, n.ast.value)) is not None,
                      gs, gs.loc(n.ast), "returns %s, not the upload's Deferred" % src(gs, n.ast.value))
        def _is_repair_deferred(v):
            if seg[0].recv and attr_path(v) == seg[0].recv:
                return True
            while isinstance(v, ast.Call) and isinstance(v.func, ast.Attribute) and v.func.attr in _REG_ATTRS:
                if v is seg[0].call:
                    return True                   # return <..>.addCallback(_got_segsize)<.addX(..)>
                v = v.func.value
            return False
        for n in rs.cfg().find(is_return):
            r.require(n.ast.value is not None and _is_repair_deferred(n.ast.value), rs, rs.loc(n.ast),
                      "Repairer.start returns %s" % src(rs, n.ast.value))
        ge = idx.func(REP + ".get_all_encoding_parameters")
        for n in ge.cfg().find(is_return):
            r.require(norm_plain(n.ast.value) in ("defer.succeed(self._encodingparams)",), ge, ge.loc(n.ast), "returns %s" % src(ge, n.ast.value))
        r.site(ge, None, "IEncryptedUploadable facade")
        for meth, want in (("get_storage_index", r"^(defer\.succeed\()?self\._filenode\.get_storage_index\(\)\)?$"),
                           ("get_size", r"^defer\.succeed\(self\._filenode\.get_size\(\)\)$")):
            m = idx.func(REP + "." + meth)
            mn = FlowNorm(m)
            rets = m.cfg().find(is_return)
            r.require(bool(rets) and all(re.match(want, mn.norm(n, n.ast.value)) for n in rets), m, m.loc(),
                      "%s returns %s" % (meth, [mn.norm(n, n.ast.value) for n in rets]))
        # the filenode given to the Repairer
        _require_store(r, idx.func(REP + ".__init__"), "self._filenode", lambda s: s == first_positional_params(idx.func(REP + ".__init__"))[0], "the filenode argument")
        # read_encrypted: consecutive offsets
        rd = idx.func(REP + ".read_encrypted")
        lp = first_positional_params(rd)[0]
        rcfg = rd.cfg()
        rn = FlowNorm(rd)
        reads = [(n, c) for n in rcfg.nodes for c in node_calls(n) if call_name(c) == "self._filenode.read"]
        if len(reads) != 1:
            raise AnchorVanished("Repairer.read_encrypted: self._filenode.read(...)")
        rnode, rc = reads[0]
        r.site(rd, rc, "ciphertext read")
        r.require(len(rc.args) == 3 and rn.norm(rnode, rc.args[1]) == "self._offset" and rn.norm(rnode, rc.args[2]) == lp, rd, rd.loc(rc),
                  "ciphertext is read as %s, not (consumer, self._offset, length)" % src(rd, rc))

        def advances(n):
            a = n.ast
            if n.kind != "stmt":
                return False
            if isinstance(a, ast.AugAssign) and attr_path(a.target) == "self._offset" and isinstance(a.op, ast.Add):
                return rn.norm(n, a.value) == lp
            v = assign_value(n, "self._offset")
            return v is not None and rn.norm(n, v) == norm_src("self._offset + %s" % lp)
        for (n, w) in find_path_from_to_avoiding(rcfg, lambda x: x is rnode, advances):
            r.violation(rd, rd.loc(rc), "self._offset is not advanced by the length read: the next read returns the same ciphertext "
                        "again and the re-encoded shares do not match the cap (path: %s)" % w.brief(), w)
        offs = rcfg.find(stores("self._offset"))
        for n in offs:
            r.require(advances(n), rd, rd.loc(n.ast), "self._offset is changed by %s" % src(rd, n.ast))
        for (n, w) in find_path_avoiding(rcfg, advances, gate_node=lambda x: x is rnode, kill=advances):
            r.violation(rd, rd.loc(n.ast), "self._offset advances without a read", w)
        for f in idx.cls(REP).methods.values():
            if f.name in ("read_encrypted", "__init__"):
                continue
            for n in f.cfg().find(stores("self._offset")):
                r.violation(f, f.loc(n.ast), "%s moves the repairer's read offset" % short(f))
        # what the uploader gets back is what was read
        mcs = {attr_path(t) for n in _own(rd) if isinstance(n, ast.Assign) and isinstance(n.value, ast.Call)
               and call_tail(n.value) == "MemoryConsumer" for t in n.targets}
        r.require(len(rc.args) == 3 and attr_path(rc.args[0]) in mcs, rd, rd.loc(rc), "read into %s" % src(rd, rc.args[0] if rc.args else rc))
        rregs = _regs(rd)
        lastl = [x for x in rregs if isinstance(x.target, ast.Lambda)]
        r.require(bool(lastl) and norm_plain(lastl[-1].target.body) in {m + ".chunks" for m in mcs} and lastl[-1].kind == "cb", rd, rd.loc(),
                  "read_encrypted does not deliver the chunks of the consumer it read into")

    # -- 8. repair only when needed; verify flag reaches the checker ---------
    with ctx.rule("C45.8", "R3/E7", "_maybe_repair starts a Repairer only when the check was not healthy and reports the "
                  "pre-repair results; check / check_and_repair hand verify cap and verify flag to the Checker", expected=4) as r:
        mr = idx.func(CFN + "._maybe_repair")
        crp = first_positional_params(mr)[0]
        cfg = mr.cfg()
        mn = FlowNorm(mr)
        reps = cfg.find(has_call("Repairer"))
        if not reps:
            raise AnchorVanished("_maybe_repair no longer creates a Repairer")
        unhealthy = lambda n, lab: mn.edge_fact(n, lab) == ("false", "%s.is_healthy()" % crp, None)
        for n in reps:
            r.site(mr, n.ast, "repairer")
            c = calls_at(n, "Repairer")[0]
            r.require(bool(c.args) and attr_path(c.args[0]) == "self", mr, mr.loc(c), "the Repairer is given %s, not this ciphertext "
                      "(verify-cap) node" % src(mr, c.args[0] if c.args else c))
        for (n, w) in find_path_avoiding(cfg, has_call("Repairer"), gate_edge=unhealthy, kill=stores(crp)):
            r.violation(mr, mr.loc(n.ast), "a repair is started although the file may be healthy (path: %s)" % w.brief(), w)
        starts = cfg.find(lambda n: any(call_tail(c) == "start" for c in node_calls(n)))
        for (n, w) in find_path_avoiding(cfg, lambda n: n in starts, gate_edge=unhealthy, kill=stores(crp)):
            r.violation(mr, mr.loc(n.ast), "repair runs on the healthy path", w)
        # healthy path returns results whose post == pre == cr
        crr = {attr_path(t) for n in _own(mr) if isinstance(n, ast.Assign) and isinstance(n.value, ast.Call)
               and call_tail(n.value) == "CheckAndRepairResults" for t in n.targets}
        crr.discard(None)
        if len(crr) != 1:
            raise AnchorVanished("crr = CheckAndRepairResults(...)")
        crr = crr.pop()
        pre = cfg.find(stores(crr + ".pre_repair_results"))
        r.require(bool(pre) and all(attr_path(assign_value(n, crr + ".pre_repair_results")) == crp for n in pre), mr, mr.loc(),
                  "pre_repair_results is not the check's result")
        rets = cfg.find(is_return)
        for (n, w) in find_path_avoiding(cfg, is_return, gate_node=stores(crr + ".pre_repair_results")):
            r.violation(mr, mr.loc(n.ast), "results returned without the pre-repair results", w)
        healthy = lambda n, lab: mn.edge_fact(n, lab) == ("truth", "%s.is_healthy()" % crp, None)
        posts = cfg.find(stores(crr + ".post_repair_results"))
        for n in posts:
            r.site(mr, n.ast, "healthy short cut")
            r.require(attr_path(assign_value(n, crr + ".post_repair_results")) == crp, mr, mr.loc(n.ast), "post_repair_results = %s" % src(mr, n.ast))
        for (n, w) in find_path_avoiding(cfg, stores(crr + ".post_repair_results"), gate_edge=healthy):
            r.violation(mr, mr.loc(n.ast), "the unrepaired check result is reported as post-repair result of an unhealthy file", w)
        # the repair chain ends in _gather_repair_results(cr, crr)
        regs = [x for x in _regs(mr) if x.target_name() == "self._gather_repair_results"]
        r.require(len(regs) == 1 and regs[0].kind in ("cb", "pair"), mr, mr.loc(), "repair results are not gathered")
        if regs:
            ca = kwarg(regs[0].call, "callbackArgs")
            extra = list(ca.elts) if isinstance(ca, ast.Tuple) else list(regs[0].args)
            r.require([attr_path(a) for a in extra] == [crp, crr], mr, mr.loc(regs[0].call), "_gather_repair_results is given %s" % [src(mr, a) for a in extra])
        # check_and_repair / check
        for meth in ("check_and_repair", "check"):
            m = idx.func(CFN + "." + meth)
            cks = [c for c in _calls(m, "Checker")]
            if len(cks) != 1:
                raise AnchorVanished("%s: Checker(...)" % meth)
            c = cks[0]
            r.site(m, c, "checker construction")
            mnm = FlowNorm(m)
            cn = _node_of(m, c)
            ckinit = idx.func(CHECKER + ".__init__")
            cps = first_positional_params(ckinit)
            b = {}
            for i, a in enumerate(c.args):
                b[cps[i]] = a
            for k in c.keywords:
                b[k.arg] = k.value
            r.require("verifycap" in b and mnm.norm(cn, b["verifycap"]) == "self._verifycap", m, m.loc(c), "Checker(verifycap=%s)" % (
                mnm.norm(cn, b["verifycap"]) if "verifycap" in b else None))
            r.require("verify" in b and mnm.norm(cn, b["verify"]) == "verify" and "verify" in first_positional_params(m), m, m.loc(c),
                      "Checker(verify=%s): the caller's verify flag is not honoured" % (mnm.norm(cn, b["verify"]) if "verify" in b else None))
            r.require("servers" in b and re.match(r"^self\._storage_broker\.get_connected_servers\(\)$", mnm.norm(cn, b["servers"])) is not None,
                      m, m.loc(c), "Checker(servers=%s)" % (mnm.norm(cn, b["servers"]) if "servers" in b else None))
        car = idx.func(CFN + ".check_and_repair")
        cregs = _regs(car)
        r.require([(x.kind, x.target_name()) for x in cregs][:1] == [("cb", "self._maybe_repair")], car, car.loc(),
                  "check_and_repair chain is %s" % cregs)

    # -- 9. the segment size (and the other encoding inputs) the repairer gets --
    with ctx.rule("C45.9", "R1/E7", "what the Repairer re-encodes with comes from the capability / the hash-checked UEB, never "
                  "from a guess: get_segment_size -> DownloadNode.get_segsize fires only with self.segment_size (known) or "
                  "with the observer list fired with it; self.segment_size is stored only from the validated UEB; "
                  "get_size / get_storage_index / get_verify_cap are the verify cap's", expected=9) as r:
        NODE = "immutable.downloader.node:DownloadNode"
        # what Repairer.start asks for (C45.7 anchors the call itself) is CiphertextFileNode.get_segment_size
        gss = idx.func(CFN + ".get_segment_size")
        gssn = FlowNorm(gss)
        grets = gss.cfg().find(is_return)
        if not grets:
            raise AnchorVanished("CiphertextFileNode.get_segment_size has no return")
        node_attrs = set()
        for n in grets:
            r.site(gss, n.ast, "segment size source")
            s = gssn.norm(n, n.ast.value) if n.ast.value is not None else "None"
            m = re.match(r"^(self\.\w+)\.get_segsize\(\)$", s)
            r.require(m is not None, gss, gss.loc(n.ast), "the repairer's segment size is %s, not what the download node learned "
                      "from the validated UEB (<node>.get_segsize())" % s)
            if m:
                node_attrs.add(m.group(1))
        # the node asked is a DownloadNode of this file's verify cap
        cfn_cls = idx.cls(CFN)
        for na in sorted(node_attrs):
            seen = 0
            for f in cfn_cls.methods.values():
                fnm = FlowNorm(f)
                for n in f.cfg().nodes:
                    if na not in node_stores(n):
                        continue
                    v = assign_value(n, na)
                    if _falsy_const(v) and v is not None:
                        continue
                    seen += 1
                    s = fnm.norm(n, v) if v is not None else "?"
                    r.require(re.match(r"^(\w+\.)*DownloadNode\(self\._verifycap, ", s) is not None, f, f.loc(n.ast),
                              "%s is %s, not a DownloadNode of this node's verify cap" % (na, s))
            if not seen:
                raise AnchorVanished("CiphertextFileNode never creates %s" % na)
            r.site(cfn_cls.qual, None, "download node of the verify cap")
        # DownloadNode.get_segsize: every value its Deferred can fire with
        gs = idx.func(NODE + ".get_segsize")
        gcfg = gs.cfg()
        gn = FlowNorm(gs)
        gregs = _regs(gs)
        OBS = re.compile(r"^self\.(\w+)\.when_fired\(\)$")
        observers = set()

        def cb_results(parent, target):
            """[(text, fn, locnode)] a callback may return; text None = passes its argument through"""
            if isinstance(target, ast.Lambda):
                ps = [a.arg for a in target.args.args]
                t = norm_plain(target.body)
                return [(None if ps and t == ps[0] else t, parent, target)]
            f = _cb_func(idx, parent, target)
            if f is None:
                return [("<%s>" % src(parent, target), parent, target)]
            fp = first_positional_params(f)
            out = []
            fnm = FlowNorm(f)
            for n in f.cfg().find(is_return):
                t = fnm.norm(n, n.ast.value) if n.ast.value is not None else "None"
                out.append((None if fp and t == fp[0] else t, f, n.ast))
            if find_path_avoiding(f.cfg(), lambda n: n.kind == "exit", gate_node=is_return):
                out.append(("None", f, None))
            return out

        def known_gate(n, lab):
            f = gn.edge_fact(n, lab)
            if not f:
                return False
            return f in (("truth", "self.segment_size", None), ("truth", "self.have_UEB", None)) or \
                (f[0] in ("is not", "!=") and {f[1], f[2]} == {"self.segment_size", "None"})

        def judge(text, f, locnode, direct_node=None):
            if text == "self.segment_size":
                if direct_node is not None:
                    for (t, w) in find_path_avoiding(gcfg, lambda x: x is direct_node, gate_edge=known_gate,
                                                     kill=stores("self.segment_size")):
                        r.violation(gs, gs.loc(direct_node.ast), "get_segsize answers with self.segment_size on a path where it is "
                                    "not known yet (path: %s)" % w.brief(), w)
                return
            m = OBS.match(text)
            if m:
                observers.add(m.group(1))
                return
            r.violation(f, f.loc(locnode) if locnode is not None else f.loc(),
                        "the segment size given to the repairer can be %s: not the segment size of the validated UEB "
                        "(repair would re-encode with other parameters and its shares would not match the cap)" % text)
        rets = gcfg.find(is_return)
        if not rets:
            raise AnchorVanished("get_segsize has no return")
        for n in rets:
            r.site(gs, n.ast, "segment size answer")
            v = _rv(gs, n)
            if v is None:
                judge("None", gs, n.ast)
                continue
            dv = attr_path(v)
            chain = [x for x in gregs if dv and x.recv == dv]
            if chain:
                # possible success values of the Deferred after its chain
                src_defs = [assign_value(m_, dv) for m_ in gcfg.nodes if dv in node_stores(m_)]
                cur = [(gn.norm(n, v), gs, n.ast)]
                for x in chain:
                    res = cb_results(gs, x.target)
                    if x.kind == "pair" and x.errtarget is not None:
                        res = res + [y for y in cb_results(gs, x.errtarget) if y[0] is not None]
                    thru = any(t is None for (t, _f, _l) in res)
                    new = [y for y in res if y[0] is not None]
                    if x.kind == "eb":
                        cur = cur + new
                    else:
                        cur = new + (cur if thru else [])
                for (t, f_, l_) in cur:
                    judge(t, f_, l_)
                continue
            rv = gn.resolve(n, v)
            if isinstance(rv, ast.Call) and call_tail(rv) == "succeed" and len(rv.args) == 1:
                judge(gn.norm(n, rv.args[0]), gs, n.ast, direct_node=n)
            else:
                judge(gn.norm(n, v), gs, n.ast)
        # the observer list is fired only with the UEB's segment size
        pu = idx.func(NODE + "._parse_and_store_UEB")
        pp_ = first_positional_params(pu)[0]
        dvs = [attr_path(t) for n in _own(pu) if isinstance(n, ast.Assign) and isinstance(n.value, ast.Call)
               and call_tail(n.value) == "unpack_extension" and len(n.value.args) == 1
               and attr_path(n.value.args[0]) == pp_ for t in n.targets]
        if len(dvs) != 1 or not dvs[0]:
            raise AnchorVanished("_parse_and_store_UEB: d = uri.unpack_extension(<parameter>)")
        D = dvs[0]
        UEB_SEG = "%s['segment_size']" % D
        cg = get_callgraph(idx)
        for o in sorted(observers):
            fires = [cs for t in ("fire", "fire_if_not_fired") for cs in cg.calls_named(t)
                     if (call_name(cs.call) or "").endswith("." + o + "." + t)]
            if not fires:
                raise AnchorVanished("nothing fires %s" % o)
            for cs in fires:
                r.site(cs.fn, cs.call, "observer fired")
                ok = cs.fn is pu and len(cs.call.args) == 1
                if ok:
                    fnm = FlowNorm(pu, keep=(D,))
                    ok = fnm.norm(_node_of(pu, cs.call), cs.call.args[0]) in ("self.segment_size", UEB_SEG)
                r.require(ok, cs.fn, cs.fn.loc(cs.call), "%s fires the segment-size observers with %s, not with the segment size of "
                          "the validated UEB" % (short(cs.fn), src(cs.fn, cs.call)))
        # self.segment_size: None until the validated UEB is parsed
        dn_cls = idx.cls(NODE)
        nstores = 0
        for f in idx.funcs.values():
            if f.cls is not dn_cls:
                continue
            for n in f.cfg().nodes:
                if "self.segment_size" not in node_stores(n):
                    continue
                nstores += 1
                v = assign_value(n, "self.segment_size")
                if f.name == "__init__" and f.parent is None and v is not None and isinstance(v, ast.Constant) and v.value is None:
                    continue
                ok = f is pu and v is not None and FlowNorm(pu, keep=(D,)).norm(n, v) == UEB_SEG
                r.require(ok, f, f.loc(n.ast), "DownloadNode.segment_size is set by %s: only the 'segment_size' field of the "
                          "hash-checked UEB may become the file's segment size" % src(f, n.ast))
        if nstores < 2:
            raise AnchorVanished("DownloadNode.segment_size stores")
        r.site(pu, None, "segment_size <- validated UEB")
        for (f, nd) in cg.attr_stores("segment_size"):
            mname = f.module.name
            if not (mname.startswith("allmydata.immutable.downloader") or mname in ("allmydata.immutable.filenode",
                                                                                     "allmydata.immutable.repairer")):
                continue
            if f.cls is dn_cls and attr_path(nd) == "self.segment_size":
                continue
            r.violation(f, f.loc(nd), "%s overwrites a segment_size outside the validated-UEB path" % short(f))
        # the other inputs: size, storage index, cap
        for meth, want in (("get_size", "self._verifycap.size"), ("get_storage_index", "self._verifycap.storage_index"),
                           ("get_verify_cap", "self._verifycap")):
            m = idx.func(CFN + "." + meth)
            mn_ = FlowNorm(m)
            mrets = m.cfg().find(is_return)
            r.site(m, None, meth)
            r.require(bool(mrets) and all(n.ast.value is not None and mn_.norm(n, n.ast.value) == want for n in mrets), m, m.loc(),
                      "%s returns %s, not %s" % (meth, [mn_.norm(n, n.ast.value) if n.ast.value is not None else None for n in mrets], want))

    # -- 10. the verifier's block hash tree is rooted in the share hash tree ---
    with ctx.rule("C45.10", "R1/R4", "ValidatedReadBucketProxy: hashes enter self.block_hash_tree only after its root was seeded "
                  "from (or, before a block is returned, compared with) the share hash tree leaf of the claimed share number - "
                  "an IncompleteHashTree without root accepts any self-consistent set of hashes", expected=7) as r:
        vc = idx.cls(VRBP)
        TREE = "self.block_hash_tree"
        LEAF = "self.share_hash_tree.get_leaf(self.sharenum)"
        fns = []

        def _collect(f):
            fns.append(f)
            for g in f.nested.values():
                if isinstance(g.node, (ast.FunctionDef, ast.AsyncFunctionDef)):
                    _collect(g)
        for f in vc.methods.values():
            _collect(f)
        # the state the argument rests on is fixed at construction
        init = idx.func(VRBP + ".__init__")
        ips = first_positional_params(init)
        if len(ips) < 3:
            raise AnchorVanished("ValidatedReadBucketProxy(sharenum, bucket, share_hash_tree, ...)")
        for attr, want in (("self.sharenum", ips[0]), ("self.share_hash_tree", ips[2]), (TREE, None)):
            r.site(init, None, "state " + attr)
            if want is not None:
                _require_store(r, init, attr, lambda s, w=want: s == w, "the constructor argument %s" % want)
            else:
                _require_store(r, init, attr, lambda s: re.match(r"^(\w+\.)*IncompleteHashTree\(", s) is not None,
                               "a fresh IncompleteHashTree")
            for f in fns:
                if f is init:
                    continue
                for n in f.cfg().nodes:
                    if {attr, attr + "[]"} & node_stores(n):
                        r.violation(f, f.loc(n.ast), "%s changes %s after construction" % (short(f), attr))
        for n in init.cfg().nodes:
            if (TREE + "[]") in node_stores(n):
                r.violation(init, init.loc(n.ast), "%s is filled by hand" % TREE)
        # classify every set_hashes on the block hash tree
        norms = {}
        seeds, feeds = [], []           # (fn, cfgnode, call)
        for f in fns:
            fnm = norms[f.qual] = FlowNorm(f)
            in_cfg = 0
            for n in f.cfg().nodes:
                for c in node_calls(n):
                    if call_tail(c) != "set_hashes" or not isinstance(c.func, ast.Attribute):
                        continue
                    if fnm.norm(n, c.func.value) != TREE:
                        continue
                    in_cfg += 1
                    a0 = arg(c, 0, "hashes")
                    is_seed = False
                    if isinstance(a0, ast.Dict) and len(a0.keys) == 1 and dict_literal_keys(a0) == [0] and len(c.args) + len(c.keywords) == 1:
                        is_seed = fnm.norm(n, a0.values[0]) == LEAF
                    (seeds if is_seed else feeds).append((f, n, c))
            walked = [c for c in calls_in_func(f, "set_hashes", into_lambda=True) if _inner(f, c) and isinstance(c.func, ast.Attribute)
                      and N(f).norm(c.func.value) == TREE]
            if len(walked) > in_cfg:
                raise AnalysisError("%s feeds %s from a lambda: not analysed" % (f.qual, TREE))
        if not feeds:
            raise AnchorVanished("nothing feeds the verifier's block hash tree")
        for (f, n, c) in seeds:
            r.site(f, c, "root <- share hash tree leaf")

        def all_paths_seed(f):
            ss = [n for (g, n, _c) in seeds if g is f]
            if not ss:
                return False
            return not find_path_avoiding(f.cfg(), lambda x: x.kind == "exit", gate_node=lambda x: any(x is s for s in ss),
                                          kill=stores_any([TREE, TREE + "[]"]))
        gd = idx.func(VRBP + "._got_data")
        compared_on_delivery = all_paths_seed(gd)     # every delivered block implies root == leaf
        # methods that always seed, and the order in which the verifier invokes the proxy's methods
        def top_method(f):
            while f.parent is not None:
                f = f.parent
            return f

        def always_seeds(m):
            if all_paths_seed(m):
                return True
            regs = _regs(m)
            cbs = [x for x in regs if x.kind == "cb"]
            if len(regs) == 1 and len(cbs) == 1:
                cb = _cb_func(idx, m, cbs[0].target)
                return cb is not None and cb in fns and all_paths_seed(cb) and \
                    all(attr_path(_rv(m, x)) == cbs[0].recv for x in m.cfg().find(is_return))
            return False
        gu = idx.func(CHECKER + "._download_and_verify._got_ueb")
        order = []
        gregs_ = _regs(gu)
        vvars = {attr_path(t) for n in _own(gu) if isinstance(n, ast.Assign) and isinstance(n.value, ast.Call)
                 and call_tail(n.value) == "ValidatedReadBucketProxy" for t in n.targets}
        for n in gu.cfg().nodes:
            for c in node_calls(n):
                if isinstance(c.func, ast.Attribute) and attr_path(c.func.value) in vvars:
                    order.append(c.func.attr)
        plain_chain = all(x.kind == "cb" for x in gregs_)
        for x in gregs_:
            if isinstance(x.target, ast.Lambda):
                for c in ast.walk(x.target.body):
                    if isinstance(c, ast.Call) and isinstance(c.func, ast.Attribute) and attr_path(c.func.value) in vvars:
                        order.append(c.func.attr)

        def ordered_after_seed(m):
            if not plain_chain or m.name not in order:
                return False
            bad, badrefs, _t = callers_outside(idx, m.name, [gu.qual], recv_filter=lambda cs: cs.fn.module is gu.module)
            if bad or badrefs:
                return False
            before = order[:order.index(m.name)]
            return any(b in vc.methods and always_seeds(vc.methods[b]) for b in before)
        for (f, n, c) in feeds:
            r.site(f, c, "hashes enter the block hash tree")
            r.count(len(f.cfg().nodes))
            if compared_on_delivery:
                continue
            fnm = norms[f.qual]
            mine = [s for (g, s, _c) in seeds if g is f]

            def root_known(a, lab, _fnm=fnm):
                fact = _fnm.edge_fact(a, lab)
                if not fact:
                    return False
                return fact == ("truth", TREE + "[0]", None) or \
                    (fact[0] in ("is not", "!=") and {fact[1], fact[2]} == {TREE + "[0]", "None"})
            bad = find_path_avoiding(f.cfg(), lambda x, _n=n: x is _n, gate_node=lambda x, _m=mine: any(x is s for s in _m),
                                     gate_edge=root_known, kill=stores_any([TREE, TREE + "[]"]))
            if not bad:
                continue
            if ordered_after_seed(top_method(f)):
                continue
            (t, w) = bad[0]
            r.violation(f, f.loc(c), "%s is reached while the block hash tree may have no root yet (path: %s): a rootless "
                        "IncompleteHashTree takes its root from these hashes, and nothing later compares that root with %s, so a "
                        "share whose block hash tree is merely self-consistent (another share number's file, or forged blocks) "
                        "is reported good" % (src(f, c), w.brief(), LEAF), w)

    # -- 11. per-instance state of the share proxies ---------------------------
    with ctx.rule("C45.11", "R5/R1", "every container a share proxy / checker / repairer mutates in place through self.<attr> "
                  "was created for that instance: it is never the value of a class-body, module-level or default-argument "
                  "binding (one object for all instances - one ReadBucketProxy exists per share under verification, so a "
                  "shared offset table lets one share be read through another share's header)", expected=6) as r:
        seen = set()
        todo = []
        for q in STATE_CLASSES:
            ci = idx.cls(q)
            for c in [ci] + list(idx.subclasses(ci)):
                if c.qual not in seen:
                    seen.add(c.qual)
                    todo.append(c)
        reported = set()
        for ci in todo:
            st = InstanceState(idx, ci)
            if not st.funcs:
                raise AnchorVanished("%s has no methods" % ci.qual)
            r.site(ci.qual, None, "instance state: %d attribute(s) mutated in place (%s)" % (
                len(st.mutations), ", ".join(sorted(st.mutations))))
            r.count(sum(len(f.cfg().nodes) for f in st.funcs))
            for attr in sorted(st.mutations):
                sites = st.mutations[attr]
                # (a) bound per instance to an object that is shared
                for (f, n, v) in st.stores.get(attr, []):
                    why = st.shared_source(f, n, v, attr)
                    if why and (f.qual, attr, "store") not in reported:
                        reported.add((f.qual, attr, "store"))
                        (mf, mn, mx) = sites[0]
                        r.violation(f, f.loc(n.ast), "%s binds self.%s to %s, and %s changes it in place (%s): all "
                                    "instances of %s work on one %s, so what one share's proxy records is used for, "
                                    "and overwritten by, the others" % (short(f), attr, why, short(mf), src(mf, mx), ci.name, attr))
                # (b) the class-body binding is a container and a mutation can reach it
                cl = st.class_level_shared(attr)
                if cl is None:
                    continue
                if st.bound_by_init(attr):
                    continue
                for (f, n, x) in sites:
                    if st.protected(f, n, attr):
                        continue
                    if (f.qual, attr, "mut") in reported:
                        continue
                    reported.add((f.qual, attr, "mut"))
                    bad = find_path_avoiding(f.cfg(), lambda y, _n=n: y is _n, gate_node=st._binds(attr))
                    r.violation(f, f.loc(x), "%s changes self.%s in place (%s) although no `self.%s = <new container>` "
                                "precedes it for this instance: the object changed is the class-level %s.%s = %s, shared by "
                                "every %s (one per share): the table parsed from one share's header is overwritten by the "
                                "next share's, and a share with a damaged header is read through another share's offsets "
                                "and verifies as good" % (short(f), attr, src(f, x), attr, cl[1].name, attr,
                                                          norm_plain(cl[0]), ci.name),
                                bad[0][1] if bad else None)

    # -- 12. a repaired share is reported placed only if every write of it was acknowledged ---
    # The repairer uploads through CHKUploader -> Encoder -> WriteBucketProxy; repair_successful / the post-repair share map
    # (clause 6) count a share as soon as the Encoder's close of its bucket succeeded.  That is sound only when the proxy
    # hands the outcome of every remote write to the Encoder and finalises the share after the last write was acknowledged:
    # exactly C06.8 / C06.9, adopted here (C06 includes nothing, so there is no cycle).
    ctx.include("C06", ["C06.8", "C06.9"], "C45.12")

    # -- 13. where the repairer's encoding parameters come from, on every path ---
    # C45.7 anchors the shape of the parameter tuple and C45.9 the accessor behind get_segment_size(); this clause closes the
    # path between them: the callback that fixes the tuple must be fired only with the accessor's answer.
    with ctx.rule("C45.13", "R1/E7", "Repairer: the function that stores self._encodingparams is reached only as the success "
                  "callback of self._filenode.get_segment_size() (every definition of that Deferred, nothing in between that "
                  "substitutes another value, no direct call), its segment-size argument is stored unchanged, and nothing "
                  "else binds _encodingparams / _filenode", expected=4) as r:
        rep_cls = idx.cls(REP)
        cg = get_callgraph(idx)
        SEG_OK = re.compile(r"^(self\._filenode\.get_segment_size\(\)|(\w+\.)*maybeDeferred\(self\._filenode\.get_segment_size\))$")

        def in_repairer(f):
            return f.cls is not None and (f.cls is rep_cls or rep_cls in f.cls.mro())
        setters = []
        for (f, nd) in cg.attr_stores("_encodingparams"):
            if f.module.name.startswith(OFFLINE_TOOLS):
                continue
            if in_repairer(f) and attr_path(nd) == "self._encodingparams":
                vals = [assign_value(n, "self._encodingparams") for n in f.cfg().nodes if "self._encodingparams" in node_stores(n)]
                if vals and all(v is not None and isinstance(v, ast.Constant) and v.value is None for v in vals):
                    continue                      # `= None` placeholder: nothing can be encoded with it
                if f not in setters:
                    setters.append(f)
            elif f.module.name.startswith("allmydata.immutable"):
                r.violation(f, f.loc(nd), "%s sets the encoding parameters of a repairer from outside (%s)" % (short(f), src(f, nd)))
        if not setters:
            raise AnchorVanished("nothing stores Repairer._encodingparams")
        for g in setters:
            r.site(g, None, "encoding parameters fixed here")
            gp = first_positional_params(g)
            host = g.parent
            if host is None or not gp:
                r.violation(g, g.loc(), "%s fixes the repairer's encoding parameters but is not a callback of "
                            "self._filenode.get_segment_size(): the segment size cannot be the one of the validated UEB" % short(g))
                continue
            segp = gp[0]
            gnm = FlowNorm(g)
            for n in g.cfg().nodes:
                v = assign_value(n, "self._encodingparams")
                if v is None:
                    continue
                v = gnm.resolve(n, v)
                if not isinstance(v, ast.Tuple) or len(v.elts) != 4:
                    continue                      # C45.7 reports the shape
                e3 = gnm.resolve(n, v.elts[3])
                if isinstance(e3, ast.Name) and e3.id == segp:
                    ds = gnm.rd.get(n.id, {}).get(segp)
                    r.require(ds == frozenset([-1]), g, g.loc(n.ast), "the segment size stored in %s is %s after it was re-bound "
                              "inside %s on some path: no longer (only) the value the file node reported" % (
                                  src(g, n.ast), segp, short(g)))
            # every use of the callback
            refs = _name_refs(host, g.name)
            regs = [x for x in _regs(host) if isinstance(x.target, ast.Name) and x.target.id == g.name]
            if not regs:
                raise AnchorVanished("%s is not registered as a callback in %s" % (g.name, host.qual))
            for nd in refs:
                mine = [x for x in regs if x.target is nd and x.kind == "cb"]
                if not mine:
                    r.violation(host, host.loc(nd), "%s uses %s other than as the success callback of "
                                "self._filenode.get_segment_size(): the repairer's segment size would be whatever it is "
                                "called with" % (short(host), g.name))
            p = host.parent
            while p is not None:
                for nd in _name_refs(p, g.name):
                    r.violation(p, p.loc(nd), "%s uses %s" % (short(p), g.name))
                p = p.parent
            for x in regs:
                if x.kind != "cb":
                    continue
                r.site(host, x.call, "segment size <- get_segment_size()")
                r.count(len(host.cfg().nodes))
                for (t, f_, l_) in _delivered(idx, host, x):
                    if SEG_OK.match(t):
                        continue
                    r.violation(f_, f_.loc(l_) if l_ is not None else f_.loc(), "%s (which fixes the segment size the file is "
                                "re-encoded with) can be fired with %s instead of the answer of "
                                "self._filenode.get_segment_size(): shares re-encoded with a locally chosen segment size have "
                                "another UEB and hash trees and do not verify under the file's cap" % (g.name, t))
        # the file node the parameters are read from is the constructor's, for the repairer's whole life
        init = idx.func(REP + ".__init__")
        r.site(init, None, "self._filenode bound once")
        for (f, nd) in cg.attr_stores("_filenode"):
            if in_repairer(f) and attr_path(nd) == "self._filenode" and not (f is init or (f.name == "__init__" and f.parent is None)):
                r.violation(f, f.loc(nd), "%s re-binds the repairer's file node" % short(f))
        # the facade answers from that tuple only (C45.7 checks the value; here: no second definition in a subclass)
        r.site(rep_cls.qual, None, "subclasses")
        for sub in idx.subclasses(rep_cls):
            for nm in ("start", "get_all_encoding_parameters", "get_size", "get_storage_index", "read_encrypted"):
                if nm in sub.methods and not sub.module.name.startswith(OFFLINE_TOOLS):
                    m = sub.methods[nm]
                    r.violation(m, m.loc(), "%s overrides Repairer.%s: the encoding inputs checked on Repairer are not the "
                                "ones this repairer uses" % (sub.name, nm))

    # -- 14. the Encoder re-encodes with exactly what its uploadable (the Repairer) answered ---
    with ctx.rule("C45.14", "R1/E7", "Encoder intake: _got_all_encoding_parameters is fired only with "
                  "<uploadable>.get_all_encoding_parameters(), file_size / _storage_index only with get_size() / "
                  "get_storage_index() of the same uploadable; k, N, segment size are stored only there, from the tuple's "
                  "slots; CHKUploader hands the uploadable it was started with to the Encoder", expected=6) as r:
        ENC = "immutable.encode:Encoder"
        enc_cls = idx.cls(ENC)
        se = idx.func(ENC + ".set_encrypted_uploadable")
        ge = idx.func(ENC + "._got_all_encoding_parameters")
        cg = get_callgraph(idx)
        up = first_positional_params(se)
        if not up:
            raise AnchorVanished("set_encrypted_uploadable(uploadable)")
        U = r"(IEncryptedUploadable\(%s\)|%s|self\._uploadable)" % (re.escape(up[0]), re.escape(up[0]))
        senm = FlowNorm(se)
        for n in se.cfg().nodes:
            if "self._uploadable" in node_stores(n):
                v = stored_value(n, "self._uploadable")
                if v is None and isinstance(n.ast, ast.Assign):
                    v = n.ast.value
                t = senm.norm(n, v) if v is not None else "?"
                r.require(re.match(r"^(IEncryptedUploadable\(%s\)|%s)$" % (re.escape(up[0]), re.escape(up[0])), t) is not None,
                          se, se.loc(n.ast), "self._uploadable is %s, not the uploadable the encoder was given" % t)

        def in_enc(f):
            return f.cls is not None and (f.cls is enc_cls or enc_cls in f.cls.mro())

        def fired_only_with(host, regs, what, rx, why):
            for x in regs:
                r.site(host, x.call, what)
                r.count(len(host.cfg().nodes))
                r.require(x.kind == "cb", host, host.loc(x.call), "%s is registered as %s" % (x.target_name(), x.kind))
                for (t, f_, l_) in _delivered(idx, host, x):
                    if rx.match(t):
                        continue
                    r.violation(f_, f_.loc(l_) if l_ is not None else f_.loc(), "%s can be fired with %s instead of %s" % (
                        x.target_name(), t, why))
        # (i) the parameter tuple
        name = ge.name
        uses = [(cs.fn, cs.call.func) for cs in cg.calls_named(name)] + list(cg.refs_named(name))
        regs = [x for x in _regs(se) if attr_path(x.target) == "self." + name]
        if not regs:
            raise AnchorVanished("set_encrypted_uploadable no longer chains self.%s" % name)
        for (f, nd) in uses:
            if f.module.name.startswith(OFFLINE_TOOLS):
                continue
            recv = attr_path(nd.value) if isinstance(nd, ast.Attribute) else None
            if recv == "self" and not in_enc(f):
                continue                          # another class's method of the same name (AssistedUploader)
            if recv != "self" and f.module is not se.module and not isinstance(nd, ast.Attribute):
                continue                          # an unrelated plain name
            if not any(x.target is nd for x in regs):
                r.violation(f, f.loc(nd), "%s hands encoding parameters to the Encoder (%s) outside the chain that asks the "
                            "uploadable for them" % (short(f), src(f, nd)))
        fired_only_with(se, regs, "parameters <- uploadable.get_all_encoding_parameters()",
                        re.compile(r"^%s\.get_all_encoding_parameters\(\)$" % U),
                        "the answer of the uploadable's get_all_encoding_parameters() (for a repair: k, N of the verify cap and "
                        "the file's real segment size)")
        # (ii) size and storage index
        for attr, getter in (("self.file_size", "get_size"), ("self._storage_index", "get_storage_index")):
            holders = []
            for (f, nd) in cg.attr_stores(attr[5:]):
                if in_enc(f) and attr_path(nd) == attr and not (f.name == "__init__" and f.parent is None) and f not in holders:
                    holders.append(f)
            if not holders:
                raise AnchorVanished("Encoder no longer stores %s" % attr)
            for h_ in holders:
                hp = first_positional_params(h_)
                if h_.parent is not se or not hp:
                    r.violation(h_, h_.loc(), "%s sets the encoder's %s outside set_encrypted_uploadable's chain" % (short(h_), attr[5:]))
                    continue
                hnm = FlowNorm(h_)
                for n in h_.cfg().nodes:
                    v = assign_value(n, attr)
                    if v is None:
                        continue
                    e = hnm.resolve(n, v)
                    ok = isinstance(e, ast.Name) and e.id == hp[0] and hnm.rd.get(n.id, {}).get(hp[0]) == frozenset([-1])
                    r.require(ok, h_, h_.loc(n.ast), "%s = %s: not (only) what the uploadable's %s() answered" % (attr, hnm.norm(n, v), getter))
                hregs = [x for x in _regs(se) if isinstance(x.target, ast.Name) and x.target.id == h_.name]
                if not hregs:
                    raise AnchorVanished("%s is not a callback in set_encrypted_uploadable" % h_.name)
                for nd in _name_refs(se, h_.name):
                    r.require(any(x.target is nd for x in hregs), se, se.loc(nd), "%s is used outside the uploadable's chain" % h_.name)
                fired_only_with(se, hregs, "%s <- uploadable.%s()" % (attr[5:], getter),
                                re.compile(r"^%s\.%s\(\)$" % (U, getter)), "the uploadable's %s()" % getter)
        # (iii) the slots
        gnm = FlowNorm(ge)
        p0 = first_positional_params(ge)[0]
        slots = {"self.required_shares": 0, "self.num_shares": 2, "self.segment_size": 3}
        seen = set()
        for n in ge.cfg().nodes:
            for path in set(slots) & node_stores(n):
                v = stored_value(n, path)
                got = gnm.norm(n, v) if v is not None else None
                seen.add(path)
                r.require(got == "%s[%d]" % (p0, slots[path]), ge, ge.loc(n.ast), "%s is set to %s, not to element %d of the "
                          "uploadable's parameter tuple" % (path, got, slots[path]))
        if seen != set(slots):
            raise AnchorVanished("Encoder._got_all_encoding_parameters no longer stores %s" % sorted(set(slots) - seen))
        r.site(ge, None, "k, N, segment size <- tuple slots")
        for path in slots:
            for (f, nd) in cg.attr_stores(path[5:]):
                if in_enc(f) and attr_path(nd) == path and f is not ge and not (f.name == "__init__" and f.parent is None):
                    r.violation(f, f.loc(nd), "%s re-binds the encoder's %s after the uploadable's parameters were taken" % (
                        short(f), path[5:]))
        # (iv) CHKUploader: the uploadable it is started with is the one the Encoder asks
        CU = "immutable.upload:CHKUploader"
        for meth, callee in (("start", "start_encrypted"), ("start_encrypted", "set_encrypted_uploadable")):
            m = idx.func(CU + "." + meth)
            mp = first_positional_params(m)
            mnm = FlowNorm(m)
            cs_ = [(n, c) for n in m.cfg().nodes for c in node_calls(n) if call_tail(c) == callee]
            if len(cs_) != 1 or not mp:
                raise AnchorVanished("CHKUploader.%s: one call of %s" % (meth, callee))
            (n, c) = cs_[0]
            r.site(m, c, "uploadable handed on")
            t = mnm.norm(n, c.args[0]) if c.args else "?"
            r.require(re.match(r"^(IEncryptedUploadable\(%s\)|%s)$" % (re.escape(mp[0]), re.escape(mp[0])), t) is not None, m, m.loc(c),
                      "%s is given %s, not the uploadable CHKUploader.%s was started with" % (callee, t, meth))
