"""C46 Immutable reads always terminate.

Decided: the hand-over points at which a read could be left waiting for ever
(DESIGN.md section 5, C46): the active-segment typestate of DownloadNode, the
abandon discipline of SegmentFetcher, the retirement of ShareFinder requests,
the Deferred plumbing of Segmentation and the delivery of every queued segment
request."""
from sa.h import *

EXPLANATION = (
    "Decided (structural, all paths): (1) active-segment typestate of DownloadNode: every function that retires the "
    "active SegmentFetcher (fetch_failed, the addBoth callback of process_blocks, _cancel_request after stop()) "
    "reaches its normal exit only after `self._active_segment = None` followed by _start_new_segment(); "
    "get_segment queues the request and then calls _start_new_segment(); _start_new_segment installs a fetcher only "
    "under `_active_segment is None` and always wakes it with add_shares; (2) SegmentFetcher: every report to the "
    "node (fetch_failed / process_blocks / _no_shares_error) is preceded by stop(), happens at most once per pass, "
    "every stop() is followed by exactly one report, no share work after a report, and loop() turns any exception of "
    "_do_loop into fetch_failed(self, ..); (3) ShareFinder.loop returns without scheduling itself or no_more_shares "
    "only when stopped, not hungry, at the request limit or with a request in flight; every DYHB request retires "
    "(addBoth) and retiring removes it from pending_requests; (4) Segmentation: _request_retired is an addBoth that "
    "clears _active_segnum before _got_segment, every exit of _fetch_next fires or arms (_error errback) the read's "
    "Deferred, _error/stopProducing fire it, and every consumer of a segment re-enters _maybe_fetch_next; (5) every "
    "request extracted for a finished segment is handed to DownloadNode._deliver, which fires its Deferred unless "
    "cancelled, and the delivery callback is an addBoth. The wake-up discipline of fetcher/finder/share handlers is "
    "decided by C03.1. Undecided: progress under arbitrary schedules (that the chosen shares eventually answer), "
    "exceptions raised by calls the CFG does not model as raising.")
TECHNIQUE = "static analysis: CFG x typestate monitors (reset/restart, stop/report), must-pass path queries, Deferred chain order"

NODE = "immutable.downloader.node:DownloadNode"
FETCH = "immutable.downloader.fetcher:SegmentFetcher"
FINDER = "immutable.downloader.finder:ShareFinder"
SEG = "immutable.downloader.segmentation:Segmentation"


# ------------------------------------------------------------------ helpers
_FN = {}


def _cn(fn, n, c):
    """Dotted callee name with local aliases resolved (``node = self._node; node.f()`` -> ``self._node.f``)."""
    fx = _FN.get(fn.qual)
    if fx is None or fx.fn is not fn:
        fx = _FN[fn.qual] = FlowNorm(fn)
    try:
        s = fx.norm(n, c.func)
    except Exception:
        s = None
    return s if s and re.match(r"^[\w.]+$", s) else call_name(c)


def _calls(fn, *names):
    ns = set(names)
    return lambda n: any(_cn(fn, n, c) in ns for c in node_calls(n))


def _schedules(target_pred):
    """node evaluates eventually(X, ..) (or calls X directly) with target_pred(path of X)."""
    def p(n):
        for c in node_calls(n):
            if call_tail(c) == "eventually" and c.args:
                ap = attr_path(c.args[0])
                if ap and target_pred(ap):
                    return True
            elif target_pred(call_name(c)):
                return True
        return False
    return p


def _unexcused(fn, required, excuse=None, start=None, ends=("exit",)):
    """Witnesses of paths (start or entry) -> end that never left a `required`
    node by a normal edge and never took an excusing edge."""
    cfg = fn.cfg()

    def transfer(n, lab, nxt, st):
        if excuse is not None and excuse(n, lab):
            return None
        if n.kind not in ("entry", "exit", "raise") and lab != "exc" and required(n):
            return None
        return 0
    visited, parent = explore(cfg, 0, transfer, start=start)
    out = []
    for kind in ends:
        end = cfg.exit if kind == "exit" else cfg.raise_exit
        if (end.id, 0) in visited:
            out.append(witness(cfg, parent, (end.id, 0)))
    return out, len(visited)


def _must_pass(r, fn, required, what, excuse=None):
    ws, n = _unexcused(fn, required, excuse)
    r.count(n)
    for w in ws:
        r.violation(fn, fn.loc(), "%s can return without %s (path: %s)" % (short(fn), what, w.brief()), w)


def _fact_excuse(fn, pred):
    fnorm = FlowNorm(fn)

    def ex(n, lab):
        f = fnorm.edge_fact(n, lab)
        return bool(f) and bool(pred(*f))
    return ex


def _target_func(fn, t):
    if isinstance(t, ast.Name):
        f = fn
        while f is not None:
            if t.id in f.nested:
                return f.nested[t.id]
            f = f.parent
        return fn.module.funcs.get(t.id)
    if isinstance(t, ast.Attribute) and isinstance(t.value, ast.Name) and t.value.id == "self" and fn.cls is not None:
        return fn.cls.lookup(t.attr)
    return None


def _effective(reg):
    """(callable, extra args) of a registration, looking through finder.incidentally."""
    t, a = reg.target, list(reg.args)
    if isinstance(t, ast.Name) and t.id == "incidentally" and a:
        return a[0], a[1:]
    return t, a


def _deferred_var(fn, producer_tail):
    """Name bound to the Deferred returned by the call `producer_tail` (``d = x.f()`` or ``d, c = x.f()``)."""
    out = set()
    for n in func_own_nodes(fn):
        if isinstance(n, ast.Assign) and isinstance(n.value, ast.Call) and call_tail(n.value) == producer_tail:
            for t in n.targets:
                if isinstance(t, (ast.Tuple, ast.List)) and t.elts:
                    t = t.elts[0]
                p = attr_path(t)
                if p:
                    out.add(p)
    if len(out) != 1:
        raise AnchorVanished("Deferred of %s(..) not found in %s" % (producer_tail, short(fn)))
    return out.pop()


def _is_none(e):
    return isinstance(e, ast.Constant) and e.value is None


# --------------------------------------------------------------------- rules
def run(ctx: Context):
    idx = ctx.idx

    # the callback of process_blocks that retires the segment (today: the nested _deliver)
    pb = idx.func(NODE + ".process_blocks")
    dv = _deferred_var(pb, "_decode_blocks")
    pb_chain = [x for x in registrations(pb) if x.recv == dv]
    retire_regs = []
    for x in pb_chain:
        g = _target_func(pb, _effective(x)[0])
        if g is not None and (calls_in_func(g, "_extract_requests") or calls_in_func(g, "_start_new_segment")):
            retire_regs.append((x, g))
    if not retire_regs:
        raise AnchorVanished("process_blocks registers no callback that retires the segment requests")
    deliver_reg, deliver_fn = retire_regs[0]

    # -- 1. active-segment typestate ----------------------------------------
    with ctx.rule("C46.1", "R1/E3", "DownloadNode: whoever retires the active fetcher resets _active_segment to None "
                  "and then calls _start_new_segment(); get_segment queues then starts; _start_new_segment installs a "
                  "fetcher only when none is active and wakes it", expected=5) as r:
        def typestate(fn, stopped0):
            cfg = fn.cfg()

            def step(n, st):
                stopped, phase = st
                if "self._active_segment" in node_stores(n):
                    phase = 1 if _is_none(assign_value(n, "self._active_segment")) else 0
                for c in node_calls(n):
                    nm = _cn(fn, n, c)
                    if nm == "self._start_new_segment":
                        if phase == 1:
                            phase = 2
                    elif call_tail(c) == "stop" and nm not in ("self.stop", "self._sharefinder.stop"):
                        stopped = True
                return (stopped, phase)

            def transfer(n, lab, nxt, st):
                if n.kind in ("entry", "exit", "raise") or lab == "exc":
                    return st
                return step(n, st)
            visited, parent = explore(cfg, (stopped0, 0), transfer)
            r.count(len(visited))
            r.site(fn, None, "retires the active fetcher")
            if (cfg.exit.id, (True, 0)) in visited:
                w = witness(cfg, parent, (cfg.exit.id, (True, 0)))
                r.violation(fn, fn.loc(), "%s can finish with _active_segment still bound to the finished "
                            "SegmentFetcher: _start_new_segment() is then a no-op and every queued or later segment "
                            "request on this node waits for ever (path: %s)" % (short(fn), w.brief()), w)
            if (cfg.exit.id, (True, 1)) in visited:
                w = witness(cfg, parent, (cfg.exit.id, (True, 1)))
                r.violation(fn, fn.loc(), "%s resets _active_segment but can finish without _start_new_segment(): "
                            "queued requests for other segments are never started (path: %s)" % (short(fn), w.brief()), w)

        typestate(idx.func(NODE + ".fetch_failed"), True)
        typestate(deliver_fn, True)
        cr = idx.func(NODE + "._cancel_request")
        if not cr.cfg().find(lambda n: any(call_tail(c) == "stop" for c in node_calls(n))):
            raise AnchorVanished("_cancel_request no longer stops the active fetcher")
        typestate(cr, False)

        gs = idx.func(NODE + ".get_segment")
        r.site(gs, None, "queue then start")
        starts = _calls(gs, "self._start_new_segment")
        _must_pass(r, gs, starts, "calling _start_new_segment()")
        queued = lambda n: any(call_name(c) == "self._segment_requests.append" for c in node_calls(n)) \
            or "self._segment_requests" in node_stores(n)
        for (n, w) in find_path_avoiding(gs.cfg(), starts, gate_node=queued):
            r.violation(gs, gs.loc(n.ast), "get_segment starts the queue before the request is in _segment_requests", w)

        sn = idx.func(NODE + "._start_new_segment")
        cfg = sn.cfg()
        fnorm = FlowNorm(sn)
        installs = lambda n: "self._active_segment" in node_stores(n) and not _is_none(assign_value(n, "self._active_segment"))
        inst = cfg.find(installs)
        if not inst:
            raise AnchorVanished("_start_new_segment no longer installs a fetcher in _active_segment")
        r.site(sn, inst[0].ast, "install")

        def idle(n, lab):
            f = fnorm.edge_fact(n, lab)
            return f in (("is", "None", "self._active_segment"), ("false", "self._active_segment", None),
                         ("==", "None", "self._active_segment"))
        for (n, w) in find_path_avoiding(cfg, installs, gate_edge=idle):
            r.violation(sn, sn.loc(n.ast), "a new SegmentFetcher replaces _active_segment without checking that none "
                        "is active (path: %s)" % w.brief(), w)
        for s in inst:
            names = {x for x in node_stores(s) if not x.endswith("[]")}

            def wakes(n, _names=names):
                return any(call_tail(c) == "add_shares" and attr_path(c.func.value) in _names for c in node_calls(n))
            for (_s, w) in find_path_from_to_avoiding(cfg, lambda n, _s=s: n is _s, wakes):
                r.violation(sn, sn.loc(s.ast), "the new fetcher is installed but never woken with add_shares(): its "
                            "loop never runs when no new shares arrive (path: %s)" % w.brief(), w)

    # -- 2. fetcher abandon discipline --------------------------------------
    with ctx.rule("C46.2", "R1/E3", "SegmentFetcher: stop() precedes every report to the node, one report per pass, "
                  "stop() is always followed by a report, loop() converts exceptions into fetch_failed", expected=5) as r:
        REPORT = ("self._node.fetch_failed", "self._node.process_blocks")
        WORK = ("self._find_and_use_share", "self._ask_for_more_shares", "self._node.want_more_shares", "self._start_share")

        def discipline(fn, inline_error):
            cfg = fn.cfg()
            problems = {}

            def step(n, st, record=None):
                stopped, reports = st
                for c in node_calls(n):
                    nm = _cn(fn, n, c)
                    if nm == "self.stop":
                        stopped = True
                    elif nm in REPORT or (inline_error and nm == "self._no_shares_error"):
                        if record is not None:
                            record("site", c)
                        if nm in REPORT and not stopped and record is not None:
                            record("unstopped", c)
                        if nm == "self._no_shares_error":
                            stopped = True
                        if nm == "self._node.fetch_failed" and record is not None:
                            a0 = arg(c, 0, "sf")
                            if not (isinstance(a0, ast.Name) and a0.id == "self"):
                                record("notself", c)
                        reports = min(2, reports + 1)
                        if reports == 2 and record is not None:
                            record("twice", c)
                    elif nm in WORK and reports >= 1 and record is not None:
                        record("work", c)
                return (stopped, reports)

            def transfer(n, lab, nxt, st):
                if n.kind in ("entry", "exit", "raise") or lab == "exc":
                    return st
                return step(n, st)
            visited, parent = explore(cfg, (False, 0), transfer)
            r.count(len(visited))
            sites = {}
            for (nid, st) in sorted(visited):
                n = cfg.nodes[nid]
                if n.kind in ("entry", "exit", "raise"):
                    continue

                def record(kind, c, _nid=nid, _st=st):
                    if kind == "site":
                        sites[id(c)] = c
                    else:
                        problems.setdefault((kind, id(c)), (c, witness(cfg, parent, (_nid, _st))))
                step(n, st, record)
            for c in sites.values():
                r.site(fn, c, "report")
            msgs = {"unstopped": "reports to the node without stop() first: the fetcher keeps running and reports again",
                    "twice": "a second report to the node on the same pass",
                    "work": "keeps requesting shares after having reported to the node",
                    "notself": "fetch_failed is not given this fetcher (the node's `sf is _active_segment` check fails)"}
            for (kind, _i), (c, w) in problems.items():
                r.violation(fn, fn.loc(c), "%s: %s (%s; path: %s)" % (short(fn), msgs[kind], src(fn, c), w.brief()), w)
            for st in ((True, 0),):
                if (cfg.exit.id, st) in visited:
                    w = witness(cfg, parent, (cfg.exit.id, st))
                    r.violation(fn, fn.loc(), "%s stops the fetcher but can return without fetch_failed/process_blocks: "
                                "the node keeps waiting on a dead fetcher (path: %s)" % (short(fn), w.brief()), w)
            return visited, cfg

        dl = idx.func(FETCH + "._do_loop")
        discipline(dl, True)
        ne = idx.func(FETCH + "._no_shares_error")
        visited, cfg = discipline(ne, False)
        for (nid, st) in visited:
            if nid == cfg.exit.id and st != (True, 1):
                r.violation(ne, ne.loc(), "_no_shares_error can return in state stopped=%s reports=%d (expected stop() and "
                            "exactly one fetch_failed)" % st)
        bad, badrefs, total = callers_outside(idx, "_no_shares_error", [FETCH + "._do_loop"])
        for cs in bad:
            r.violation(cs.fn, cs.loc, "%s calls _no_shares_error outside the stop/report discipline of _do_loop" % short(cs.fn))

        lp = idx.func(FETCH + ".loop")
        cfg = lp.cfg()
        calls = cfg.find(_calls(lp, "self._do_loop"))
        if not calls:
            raise AnchorVanished("SegmentFetcher.loop no longer calls _do_loop")
        for n in calls:
            r.site(lp, n.ast, "exception guard")
            handlers = [cfg.nodes[d] for (d, l) in cfg.succ[n.id] if l == "exc" and cfg.nodes[d].kind == "except"]
            catch_all = [h for h in handlers if h.ast.type is None or
                         (attr_path(h.ast.type) or "").split(".")[-1] in ("BaseException", "Exception")]
            escapes = any(l == "exc" and cfg.nodes[d].kind == "raise" for (d, l) in cfg.succ[n.id])
            if not catch_all or (escapes and not handlers):
                r.violation(lp, lp.loc(n.ast), "an exception of _do_loop is not converted into fetch_failed: the segment "
                            "is abandoned silently and its requests never fire")
            for h in catch_all:
                ws, k = _unexcused(lp, lambda m: any(
                    _cn(lp, m, c) == "self._node.fetch_failed" and isinstance(arg(c, 0, "sf"), ast.Name)
                    and arg(c, 0, "sf").id == "self" for c in node_calls(m)), start=h, ends=("exit", "raise"))
                r.count(k)
                for w in ws:
                    r.violation(lp, lp.loc(h.ast), "the catch-all handler of SegmentFetcher.loop can finish without "
                                "fetch_failed(self, ..) (path: %s)" % w.brief(), w)

    # -- 3. finder ----------------------------------------------------------
    with ctx.rule("C46.3", "R1/E7", "ShareFinder: loop() goes idle only for a stated reason, every DYHB request retires "
                  "on both outcomes and leaves pending_requests", expected=3) as r:
        lp = idx.func(FINDER + ".loop")
        r.site(lp, None, "idle reasons")

        def idle_reason(op, l, rr):
            if op == "false" and l in ("self.running", "self._hungry"):
                return True
            if op == "truth" and l == "self.pending_requests":
                return True
            if op in ("<=", "<") and l == "self.max_outstanding_requests" and rr is not None \
                    and re.match(r"^len\(.*self\.pending_requests.*\)$", rr):
                return True
            return False
        wake = _schedules(lambda p: p == "self.loop" or p.endswith(".no_more_shares"))
        if not lp.cfg().find(wake):
            raise AnchorVanished("ShareFinder.loop schedules neither itself nor no_more_shares")
        ws, k = _unexcused(lp, wake, _fact_excuse(lp, idle_reason))
        r.count(k)
        for w in ws:
            r.violation(lp, lp.loc(), "ShareFinder.loop can return without a request in flight, without rescheduling "
                        "itself and without announcing no_more_shares: the fetcher waits for ever (path: %s)" % w.brief(), w)
        # a server taken from the iterator is queried and the loop rescheduled
        sends = lp.cfg().find(_calls(lp, "self.send_request"))
        if not sends:
            raise AnchorVanished("ShareFinder.loop no longer calls send_request")

        sr = idx.func(FINDER + ".send_request")
        dv3 = _deferred_var(sr, "get_buckets")
        chain = [x for x in registrations(sr) if x.recv == dv3]
        r.site(sr, None, "chain " + " ".join(map(repr, chain)))
        ret = [x for x in chain if attr_path(_effective(x)[0]) == "self._request_retired"]
        if not ret:
            r.violation(sr, sr.loc(), "send_request no longer retires the request on its Deferred")
        for x in ret[:1]:
            r.require(x.kind == "both", sr, sr.loc(x.call), "_request_retired is registered as %s: a failed DYHB query "
                      "stays in pending_requests and the finder never announces no_more_shares" % x.kind)
            a = _effective(x)[1]
            tok = a[0].id if a and isinstance(a[0], ast.Name) else None
            added = [c for c in calls_in_func(sr, "add") if call_name(c) == "self.pending_requests.add"
                     and c.args and isinstance(c.args[0], ast.Name) and c.args[0].id == tok]
            r.require(tok is not None and bool(added), sr, sr.loc(x.call),
                      "the token retired (%s) is not the one added to pending_requests" % (tok,))

        rr_ = idx.func(FINDER + "._request_retired")
        r.site(rr_, None, "leaves pending_requests")
        p0 = first_positional_params(rr_)[0]
        _must_pass(r, rr_, lambda n: any(
            call_name(c) in ("self.pending_requests.discard", "self.pending_requests.remove") and c.args
            and isinstance(c.args[0], ast.Name) and c.args[0].id == p0 for c in node_calls(n)),
            "removing the request from pending_requests")

    # -- 4. Segmentation ----------------------------------------------------
    with ctx.rule("C46.4", "R1/E7", "Segmentation: _request_retired is an addBoth ahead of _got_segment and clears "
                  "_active_segnum; every path fires or arms the read's Deferred; segment consumers re-enter "
                  "_maybe_fetch_next", expected=9) as r:
        fnx = idx.func(SEG + "._fetch_next")
        dv4 = _deferred_var(fnx, "get_segment")
        chain = [x for x in registrations(fnx) if x.recv == dv4]
        r.site(fnx, None, "chain " + " ".join(map(repr, chain)))
        i_ret = [i for i, x in enumerate(chain) if attr_path(x.target) == "self._request_retired"]
        i_got = [i for i, x in enumerate(chain) if attr_path(x.target) == "self._got_segment"]
        if not i_got:
            raise AnchorVanished("_fetch_next no longer registers _got_segment")
        if not i_ret:
            r.violation(fnx, fnx.loc(), "_fetch_next no longer registers _request_retired: _active_segnum is never "
                        "cleared and _maybe_fetch_next refuses to fetch the next segment")
        else:
            x = chain[i_ret[0]]
            r.require(x.kind == "both", fnx, fnx.loc(x.call), "_request_retired is registered as %s: after a failed "
                      "segment _active_segnum stays set and the permitted retry never fetches" % x.kind)
            r.require(i_ret[0] < i_got[0], fnx, fnx.loc(x.call), "_request_retired runs after _got_segment, whose "
                      "_maybe_fetch_next then sees a busy _active_segnum and stalls")
        arms = lambda n: any(call_tail(c) in ("addErrback", "addBoth") and c.args and attr_path(c.args[0]) == "self._error"
                             and attr_path(c.func.value) == dv4 for c in node_calls(n))
        fires = lambda n: any(call_name(c) in ("self._deferred.callback", "self._deferred.errback") for c in node_calls(n))
        _must_pass(r, fnx, lambda n: arms(n) or fires(n), "firing the read's Deferred or arming the _error errback")
        i_err = [i for i, x in enumerate(chain) if attr_path(x.target) == "self._error" and x.kind in ("eb", "both")]
        if i_err:
            late = [x for x in chain[i_err[-1] + 1:] if x.kind != "eb"]
            r.require(not late, fnx, fnx.loc(late[0].call if late else None), "a callback is registered behind the _error "
                      "errback: its failure is dropped and the read never finishes")
            r.require(i_err[-1] > i_got[0], fnx, fnx.loc(chain[i_err[-1]].call), "the _error errback sits ahead of "
                      "_got_segment, whose exceptions (wrong segment, consumer errors) then fire nothing")

        rq = idx.func(SEG + "._request_retired")
        r.site(rq, None)
        _must_pass(r, rq, lambda n: "self._active_segnum" in node_stores(n) and _is_none(assign_value(n, "self._active_segnum")),
                   "clearing _active_segnum")

        for name in ("_error", "stopProducing"):
            f = idx.func(SEG + "." + name)
            r.site(f, None, "fires the read")
            _must_pass(r, f, _calls(f, "self._deferred.errback"), "firing the read's Deferred with the error")
        for name in ("_got_segment", "_retry_bad_segment", "start"):
            f = idx.func(SEG + "." + name)
            r.site(f, None, "continues the read")
            _must_pass(r, f, _calls(f, "self._maybe_fetch_next"), "calling _maybe_fetch_next()")
        mf = idx.func(SEG + "._maybe_fetch_next")
        r.site(mf, None)
        _must_pass(r, mf, _calls(mf, "self._fetch_next"), "calling _fetch_next()", _fact_excuse(
            mf, lambda op, l, rr: (op == "false" and l in ("self._alive", "self._hungry"))
            or (op in ("is not", "!=") and {l, rr} == {"None", "self._active_segnum"})
            or (op == "truth" and l == "self._active_segnum")))
        rp = idx.func(SEG + ".resumeProducing")
        r.site(rp, None)
        _must_pass(r, rp, _schedules(lambda p: p == "self._maybe_fetch_next"), "scheduling _maybe_fetch_next")
        _must_pass(r, rp, lambda n: "self._hungry" in node_stores(n) and isinstance(assign_value(n, "self._hungry"), ast.Constant)
                   and assign_value(n, "self._hungry").value is True, "setting _hungry")

    # -- 5. delivery of queued requests -------------------------------------
    with ctx.rule("C46.5", "R1/E7", "every request extracted for a finished segment is handed to DownloadNode._deliver, "
                  "which fires it unless cancelled; the delivery callback of process_blocks is an addBoth", expected=5) as r:
        r.site(pb, deliver_reg.call, "delivery registration")
        r.require(deliver_reg.kind == "both", pb, pb.loc(deliver_reg.call), "the delivery callback is registered as %s: a "
                  "decode or ciphertext-hash failure is never delivered and the segment's readers wait for ever" % deliver_reg.kind)
        i_chk = [i for i, x in enumerate(pb_chain) if x.target_name().endswith("_check_ciphertext_hash")]
        r.require(not i_chk or i_chk[0] < pb_chain.index(deliver_reg), pb, pb.loc(deliver_reg.call),
                  "delivery is registered ahead of the ciphertext check, whose failure then reaches nobody")
        hands = _schedules(lambda p: p == "self._deliver")
        ff = idx.func(NODE + ".fetch_failed")
        segparam = first_positional_params(pb)[0]
        n_loops = 0
        for fn, want in ((ff, first_positional_params(ff)[0] + ".segnum"), (deliver_fn, segparam)):
            cfg = fn.cfg()
            heads = [n for n in cfg.nodes if n.kind == "iter" and contains_call(n.ast.iter, "_extract_requests")]
            if not heads:
                raise AnchorVanished("%s no longer iterates over _extract_requests(..)" % short(fn))
            _must_pass(r, fn, lambda n, _h=heads: n in _h, "extracting the requests of the finished segment")
            for h in heads:
                n_loops += 1
                r.site(fn, h.ast, "delivery loop")
                c = contains_call(h.ast.iter, "_extract_requests")[0]
                got = attr_path(arg(c, 0, "segnum")) if arg(c, 0, "segnum") is not None else None
                r.require(got == want, fn, fn.loc(c), "requests of %s are retired for a segment delivered as %s" % (got, want))
                for (d, l) in cfg.succ[h.id]:
                    if l != "iter":
                        continue

                    def transfer(n, lab, nxt, st, _h=h):
                        if n is _h or lab == "exc" or hands(n):
                            return None
                        return 0
                    visited, parent = explore(cfg, 0, transfer, start=cfg.nodes[d])
                    r.count(len(visited))
                    for end in (h.id, cfg.exit.id):
                        if (end, 0) in visited:
                            w = witness(cfg, parent, (end, 0))
                            r.violation(fn, fn.loc(h.ast), "a request taken off _segment_requests is not handed to "
                                        "_deliver: its reader never hears about the segment (path: %s)" % w.brief(), w)
        dn = idx.func(NODE + "._deliver")
        r.site(dn, None, "fires unless cancelled")
        ps = first_positional_params(dn)
        _must_pass(r, dn, lambda n: any(
            call_tail(c) in ("callback", "errback") and attr_path(c.func.value) == ps[0] for c in node_calls(n)),
            "firing the request's Deferred", _fact_excuse(dn, lambda op, l, rr: op == "false" and l == ps[1] + ".active"))


# -- wake-up discipline (clause (d) of the design; the rules live in C03) --------------------------------
# A read terminates only if every state change of fetcher / finder / share schedules the loop that reacts
# to it; a handler that returns without doing so leaves the read waiting although every server answered.
_run_termination = run


def run(ctx: Context):   # noqa: F811
    _run_termination(ctx)
    ctx.include("C03", ["C03.1", "C03.3", "C03.6"], "C46.6")
