"""C46 Immutable reads always terminate.

Decided: the hand-over points at which a read could be left waiting for ever
(DESIGN.md section 5, C46): the active-segment typestate of DownloadNode, the
abandon discipline of SegmentFetcher, the retirement of ShareFinder requests,
the Deferred plumbing of Segmentation and the delivery of every queued segment
request."""
from sa.h import *
from sa.rules.C04 import Ownership

EXPLANATION = (
    "Decided (structural, all paths): (1) active-segment typestate of DownloadNode: every function that retires the "
    "active SegmentFetcher (fetch_failed, the addBoth callback of process_blocks, _cancel_request after stop()) "
    "reaches its normal exit only after `self._active_segment = None` followed by _start_new_segment() - except that an "
    "exit of the process_blocks callback is exempt (here and in 5) exactly on paths that passed `self._active_segment is "
    "not X`, X read from _active_segment by process_blocks before the Deferred was set up (C04's Ownership model: "
    "identity / negated identity / != against a pre-gap capture, also via a flag or a one-line helper; the cancel path has "
    "then already retired that fetcher, removed its requests and started the next); an early return behind an unrelated "
    "test, `is None` alone or a value read inside the callback is still reported, and the Failure case must get through "
    "on the path that still owns the slot; fetch_failed "
    "has a normal path for the fetcher that IS the active one, and the process_blocks callback has a path for a Failure "
    "that does not unpack it like a segment; _cancel_request keeps every queued request except the cancelled one; "
    "get_segment queues the request and then calls _start_new_segment(); _start_new_segment installs a fetcher only "
    "under `_active_segment is None` and always wakes it with add_shares; (2) SegmentFetcher: every report to the "
    "node (fetch_failed / process_blocks / _no_shares_error) is preceded by stop(), happens at most once per pass, "
    "every stop() is followed by exactly one report, no share work after a report, and loop() turns any exception of "
    "_do_loop into fetch_failed(self, ..); (3) ShareFinder.loop returns without scheduling itself or no_more_shares "
    "only when stopped, not hungry, at the request limit or with a request in flight; it reaches send_request only "
    "with a server taken from the list (tested, or just returned by next()) and its server variable is bound on every "
    "path; every DYHB request retires (addBoth) and retiring removes it from pending_requests; (4) Segmentation: "
    "_request_retired is an addBoth that "
    "clears _active_segnum before _got_segment, every exit of _fetch_next fires or arms (_error errback) the read's "
    "Deferred, _error/stopProducing fire it, every consumer of a segment re-enters _maybe_fetch_next, and _got_segment "
    "updates the remaining _size before it does; (5) every "
    "request extracted for a finished segment is handed to DownloadNode._deliver, which fires its Deferred unless "
    "cancelled, the delivery callback is an addBoth, and _extract_requests returns the requests whose segment number "
    "equals its argument and keeps exactly the complement; (8) no status call can abort a delivery loop: the three loops over "
    "_extract_requests(..) (fetch_failed, failure and success branch of the process_blocks callback) run after the requests "
    "have left _segment_requests, so an exception in the body strands the requests not yet reached and skips "
    "_start_new_segment(); for every method the body calls on the request's status event (the class returned by "
    "add_segment_request, the event traced through the queue tuple, _extract_requests' comprehension and the loop target) "
    "each abort (failing assert / raise, also in a self.helper()) that depends on the event's own state must be ruled out by "
    "what is known about that state: the values add_segment_request creates it with, what get_segment calls on it before "
    "queueing, what the loop body called on it before (a method establishes the comparisons that hold on all its normal "
    "exits) - checked once for an event nobody activated (every request but the head of the queue) and once for the one "
    "_start_new_segment activated; the same for the call _start_new_segment makes between installing and waking a fetcher; "
    "(10) nor can a status call of those loops die of a field that is still None: starting from the same two abstract states "
    "(the dict add_segment_request creates the event with: active_time / finish_time / success / decode_time / segment_start / "
    "segment_length None; after activate(): active_time not None) each method the loop body - or _start_new_segment between "
    "installing and waking a fetcher - calls on the event is explored forward (stores kill / establish None-ness, None tests "
    "and truth tests prune, self.helper() by its summary), and every operation that raises for a None operand - arithmetic, "
    "unary minus, ordering comparison, `in` with it as container, subscript, attribute access, call, iteration / unpacking / "
    "augmented assignment, a numeric or collection builtin - on an operand that IS None in that state (also through a local, "
    "x.get(k), a self.helper(), a module-level function or a method of the object the event was constructed with (DownloadStatus) "
    "that receives the None as an argument) is a violation, unless a handler catches the TypeError / AttributeError in the "
    "method, or in the loop body with the request still handed to _deliver afterwards; nothing is reported for a field whose "
    "None-ness is not known (start_time, anything a call may have changed); "
    "(9) ShareFinder._request_retired cannot raise before the request has left pending_requests: a keyed access with the "
    "request as key (x[req], del x[req], x.pop(req), x.remove(req), attribute of x.get(req) / x.pop(req, None), `assert req in "
    "x`, a raise behind `req not in x`) to a table that another ShareFinder method removes entries from or that send_request "
    "does not always enter the token in (overdue_timers: overdue() and stop(); overdue_requests) must sit behind `req in x`, "
    "a None/truth test of the value, or a handler that catches the error, or the exception path itself (finally / handler) "
    "must still pass the discard; (7) SegmentFetcher._do_loop returns without a report only on "
    "a path that shows something outstanding: k <= blocks+active and blocks < k (an active request), or blocks+active "
    "< k <= blocks+active+overdue (an overdue request), or `not _no_more_shares` after asking for more shares, or a "
    "stopped fetcher; every turn of its while loop sent a request or raised the per-server limit that held shares "
    "back (no spinning). (6) adopted from C03, whose rules decide them: the wake-up discipline of fetcher / finder / "
    "node / share handlers (C03.1), the per-state bookkeeping of _block_request_activity (C03.2: a finished share left "
    "in the active or overdue map is waited for for ever), share abandonment (C03.3), the is_alive() filter (C03.6) "
    "and the hand-over of shares, observers and block requests (C03.7: an observer that is not registered, a picked "
    "share that is not started, a request retired without notification all leave the fetcher waiting). C03.2 / C03.7 "
    "also contain clauses whose violation ends in a wrong not-enough-shares error rather than a hang (COMPLETE stores "
    "the block, OVERDUE enters the overdue map, add_shares keeps the shares, the sent_something flag); they are "
    "reported under C46.6 too because the rules are adopted whole. Undecided: progress under arbitrary schedules (that "
    "the chosen shares eventually answer), a completion guard hidden in a helper that is not a single `return <test>` "
    "(ANALYSIS-ERROR, not a violation), the byte ranges a Share requests (a Share asking for the wrong range never "
    "completes its block), by how much _got_segment reduces _size, which segment number _start_new_segment / "
    "_fetch_next choose, the per-server-limit comparison of _find_and_use_share, None-dereferences and other "
    "exceptions raised by calls the CFG does not model as raising (e.g. a deleted local that turns into a NameError "
    "before the reset); for (8): aborts of a status method that depend on its arguments only, exceptions that are neither an "
    "assert / raise nor an operation on a field known to be None ((10) does not know the types of the other fields: a str "
    "where a number is expected, a missing key, a None hidden in a %-format or an f-string format spec, a None returned by a "
    "helper), calls in the loop body on anything but the status event (now(), "
    "eventually, len) and DownloadStatus.add_misc_event between the loop and _start_new_segment(); for (9): an exception "
    "raised inside a helper _request_retired calls, and one raised after the discard (the answer is then lost as an error "
    "but the finder goes on - a wrong verdict, not a hang).")
TECHNIQUE = "static analysis: CFG x typestate monitors (reset/restart, stop/report; completion exits excused on identity-test edges against pre-gap captures of _active_segment), must-pass path queries, per-path edge-fact sets (what a waiting fetcher knows), normal-form comparison of queue filters, Deferred chain order, per-method abort/establish summaries of the status-event class applied along the delivery loops (abstract object state = set of comparisons), forward abstract interpretation of the status-event methods from the constructor state for None-operand operations (interprocedural through self helpers, module functions and the constructing object's methods, parameter binding by normal-form substitution), exception-path exploration of the finder's retire step with key-presence guards"

NODE = "immutable.downloader.node:DownloadNode"
FETCH = "immutable.downloader.fetcher:SegmentFetcher"
FINDER = "immutable.downloader.finder:ShareFinder"
SEG = "immutable.downloader.segmentation:Segmentation"


# ------------------------------------------------------------------ helpers
_FN = {}


def _cn(fn, n, c):
    """Dotted callee name with local aliases resolved (``node = self._node; node.f()`` -> ``self._node.f``)."""
    fx = _FN.get(fn.qual)
    if fx is None or fx.fn is not fn:
        fx = _FN[fn.qual] = FlowNorm(fn)
    try:
        s = fx.norm(n, c.func)
    except Exception:
        s = None
    return s if s and re.match(r"^[\w.]+$", s) else call_name(c)


def _calls(fn, *names):
    ns = set(names)
    return lambda n: any(_cn(fn, n, c) in ns for c in node_calls(n))


def _schedules(target_pred):
    """node evaluates eventually(X, ..) (or calls X directly) with target_pred(path of X)."""
    def p(n):
        for c in node_calls(n):
            if call_tail(c) == "eventually" and c.args:
                ap = attr_path(c.args[0])
                if ap and target_pred(ap):
                    return True
            elif target_pred(call_name(c)):
                return True
        return False
    return p


def _unexcused(fn, required, excuse=None, start=None, ends=("exit",)):
    """Witnesses of paths (start or entry) -> end that never left a `required`
    node by a normal edge and never took an excusing edge."""
    cfg = fn.cfg()

    def transfer(n, lab, nxt, st):
        if excuse is not None and excuse(n, lab):
            return None
        if n.kind not in ("entry", "exit", "raise") and lab != "exc" and required(n):
            return None
        return 0
    visited, parent = explore(cfg, 0, transfer, start=start)
    out = []
    for kind in ends:
        end = cfg.exit if kind == "exit" else cfg.raise_exit
        if (end.id, 0) in visited:
            out.append(witness(cfg, parent, (end.id, 0)))
    return out, len(visited)


def _must_pass(r, fn, required, what, excuse=None):
    ws, n = _unexcused(fn, required, excuse)
    r.count(n)
    for w in ws:
        r.violation(fn, fn.loc(), "%s can return without %s (path: %s)" % (short(fn), what, w.brief()), w)


def _fact_excuse(fn, pred):
    fnorm = FlowNorm(fn)

    def ex(n, lab):
        f = fnorm.edge_fact(n, lab)
        return bool(f) and bool(pred(*f))
    return ex


def _bool_alts(e, pol, limit=64):
    """DNF [[(atom, polarity), ..], ..] of what holds when `e` is truthy (pol) / falsy (not pol)."""
    if isinstance(e, ast.UnaryOp) and isinstance(e.op, ast.Not):
        return _bool_alts(e.operand, not pol, limit)
    if isinstance(e, ast.BoolOp):
        parts = [_bool_alts(v, pol, limit) for v in e.values]
        if isinstance(e.op, ast.And) == pol:        # all operands decide: conjunction
            out = [[]]
            for p in parts:
                out = [a + b for a in out for b in p]
                if len(out) > limit:
                    raise AnalysisError("boolean expression too large to split into cases")
            return out
        return [a for p in parts for a in p]
    if isinstance(e, ast.Constant):
        return [[]] if bool(e.value) == pol else []
    return [[(e, pol)]]


def _helper_fact_excuse(fn, pred, depth=2, _busy=None):
    """Like _fact_excuse, and an edge `self.m()` truthy / falsy (also via a local) is excusing when every way for the
    argument-less helper m to return such a value has passed an excusing edge inside m or returns an expression whose
    truth value implies a fact satisfying `pred` (`return a and b` falsy: a falsy or b falsy, each must be excusing)."""
    fnorm = FlowNorm(fn)
    busy = _busy if _busy is not None else set()
    cache = {}

    def fact_ok(f):
        if not f:
            return False
        if pred(*f):
            return True
        if f[0] in ("truth", "false") and f[1] and fn.cls is not None and depth > 0:
            m = re.match(r"^self\.(\w+)\(\)$", f[1])
            if m:
                key = (m.group(1), f[0] == "truth")
                if key not in cache:
                    h = fn.cls.lookup(m.group(1))
                    if h is None or (h.qual, key[1]) in busy:
                        cache[key] = False
                    else:
                        busy.add((h.qual, key[1]))
                        try:
                            cache[key] = _returns_only_when(h, pred, key[1], depth - 1, busy)
                        finally:
                            busy.discard((h.qual, key[1]))
                return cache[key]
        return False

    def ex(n, lab):
        return fact_ok(fnorm.edge_fact(n, lab))
    ex.fact_ok = fact_ok
    ex.fnorm = fnorm
    return ex


def _returns_only_when(h, pred, pol, depth, busy):
    if any(isinstance(x, (ast.Yield, ast.YieldFrom, ast.Await)) for x in func_own_nodes(h)) \
            or isinstance(h.node, ast.AsyncFunctionDef) or len(h.params) > 1 or h.node.decorator_list:
        return False
    cfg = h.cfg()
    inner = _helper_fact_excuse(h, pred, depth, busy)
    bad = []

    def transfer(n, lab, nxt, st):
        if st == 0 and inner(n, lab):
            return 1
        if st == 0 and lab != "exc" and nxt is cfg.exit and not (n.kind == "stmt" and isinstance(n.ast, ast.Return)):
            if not pol:
                bad.append(n)            # falls off the end: returns None
        return st
    visited, _ = explore(cfg, 0, transfer)
    if bad:
        return False
    for (nid, st) in visited:
        n = cfg.nodes[nid]
        if st or n.kind != "stmt" or not isinstance(n.ast, ast.Return):
            continue
        v = n.ast.value if n.ast.value is not None else ast.Constant(value=None)
        v = inner.fnorm.resolve(n, v)
        nz = inner.fnorm.at(n)
        for alt in _bool_alts(v, pol):
            if not any(inner.fact_ok(nz.cmp(a, p)) for (a, p) in alt):
                return False
    return True


def _target_func(fn, t):
    if isinstance(t, ast.Name):
        f = fn
        while f is not None:
            if t.id in f.nested:
                return f.nested[t.id]
            f = f.parent
        return fn.module.funcs.get(t.id)
    if isinstance(t, ast.Attribute) and isinstance(t.value, ast.Name) and t.value.id == "self" and fn.cls is not None:
        return fn.cls.lookup(t.attr)
    return None


def _effective(reg):
    """(callable, extra args) of a registration, looking through finder.incidentally."""
    t, a = reg.target, list(reg.args)
    if isinstance(t, ast.Name) and t.id == "incidentally" and a:
        return a[0], a[1:]
    return t, a


def _deferred_var(fn, producer_tail):
    """Name bound to the Deferred returned by the call `producer_tail` (``d = x.f()`` or ``d, c = x.f()``)."""
    out = set()
    for n in func_own_nodes(fn):
        if isinstance(n, ast.Assign) and isinstance(n.value, ast.Call) and call_tail(n.value) == producer_tail:
            for t in n.targets:
                if isinstance(t, (ast.Tuple, ast.List)) and t.elts:
                    t = t.elts[0]
                p = attr_path(t)
                if p:
                    out.add(p)
    if len(out) != 1:
        raise AnchorVanished("Deferred of %s(..) not found in %s" % (producer_tail, short(fn)))
    return out.pop()


def _is_none(e):
    return isinstance(e, ast.Constant) and e.value is None


def _completes_when(fn, infeasible, dies=None, dead_edge=None):
    """(the normal exit is reachable along normal edges whose fact does not satisfy `infeasible`, that are
    not a `dead_edge(node, label)`, and without executing a `dies` node, number of states).  Used to ask
    whether a handler still gets through for the one situation it exists for (the active fetcher failing,
    a Failure being delivered for the fetcher that is still the active one)."""
    cfg = fn.cfg()
    fx = FlowNorm(fn)

    def transfer(n, lab, nxt, st):
        if lab == "exc":
            return None
        if n.kind not in ("entry", "exit", "raise") and dies is not None and dies(n):
            return None
        if dead_edge is not None and dead_edge(n, lab):
            return None
        f = fx.edge_fact(n, lab)
        if f and infeasible(*f):
            return None
        return 0
    visited, _parent = explore(cfg, 0, transfer)
    return (cfg.exit.id, 0) in visited, len(visited)


def _destructures(name):
    """node unpacks / indexes / iterates the plain name `name` (which a Failure does not support)."""
    def is_name(e):
        return isinstance(e, ast.Name) and e.id == name

    def p(n):
        a = n.ast
        if n.kind == "iter":
            return is_name(a.iter)
        if n.kind == "stmt" and isinstance(a, ast.Assign) and is_name(a.value) \
                and any(isinstance(t, (ast.Tuple, ast.List)) for t in a.targets):
            return True
        for e in node_exprs(n):
            for x in own_nodes(e):
                if isinstance(x, ast.Subscript) and is_name(x.value):
                    return True
                if isinstance(x, ast.Starred) and is_name(x.value):
                    return True
        return False
    return p


_NEG = {"==": "!=", "!=": "==", "is": "is not", "is not": "is"}
_NEVER = (("false", "True", None), ("truth", "False", None), ("false", "1", None), ("truth", "0", None), ("truth", "None", None))


def _queue_filters(fn, queue="self._segment_requests"):
    """Comprehensions of `fn` that walk the request queue: [(comprehension, [cond, ..])] where a cond is
    (op, position of the request field compared, normal form of the other side) or None when the condition
    is not a comparison of one field of the request."""
    out = []
    nrm = N(fn)
    for x in func_own_nodes(fn):
        if not isinstance(x, (ast.ListComp, ast.GeneratorExp, ast.SetComp)) or len(x.generators) != 1:
            continue
        g = x.generators[0]
        if attr_path(g.iter) != queue:
            continue
        field = {}
        if isinstance(g.target, ast.Name):
            whole = g.target.id
        else:
            whole = None
            if isinstance(g.target, (ast.Tuple, ast.List)):
                for i, t in enumerate(g.target.elts):
                    if isinstance(t, ast.Name):
                        field[t.id] = i
        conds = []
        for c in g.ifs:
            f = nrm.cmp(c, True)
            got = None
            if f and f[0] in _NEG and f[2] is not None:
                for (a, b) in ((f[1], f[2]), (f[2], f[1])):
                    m = re.match(r"^%s\[(\d+)\]$" % re.escape(whole), a) if whole else None
                    if m:
                        got = (f[0], int(m.group(1)), b)
                    elif a in field:
                        got = (f[0], field[a], b)
            conds.append(got)
        out.append((x, conds))
    return out


def _value_of(cfg, rd, n, e, depth=4):
    """Follow plain-name copies of `e` (read at node n) to the single expression that defines it."""
    while depth > 0 and isinstance(e, ast.Name):
        ds = [d for d in rd.get(n.id, {}).get(e.id, frozenset()) if d >= 0]
        vals = [assign_value(cfg.nodes[d], e.id) for d in ds]
        if len(vals) != 1 or vals[0] is None:
            break
        n, e, depth = cfg.nodes[ds[0]], vals[0], depth - 1
    return e


def _reads(name):
    def p(n):
        return any(isinstance(x, ast.Name) and x.id == name and isinstance(x.ctx, ast.Load)
                   for e in node_exprs(n) for x in ast.walk(e))
    return p


# ---- what a status-event method demands of / leaves in the object it is called on (C46.8) --------------
_NEG2 = dict(_NEG, truth="false", false="truth")
_NEG2["in"], _NEG2["not in"] = "not in", "in"
_MUTATORS = {"update", "clear", "pop", "popitem", "setdefault", "append", "extend", "remove", "discard", "add", "insert"}


def _on_self(s):
    return bool(s) and re.search(r"\bself\.", s) is not None


def _state_fact(f):
    return bool(f) and (_on_self(f[1]) or _on_self(f[2]))


def _refuters(g):
    """Facts each of which implies that `g` does not hold."""
    op, l, rr = g
    out = set()
    if op in _NEG2:
        out.add((_NEG2[op], l, rr))
    if g[:2] == ("is", "None"):
        out.add(("truth", rr, None))
    if op == "truth":
        out.add(("is", "None", l))
    return out


def _forget(st, prefixes):
    if not prefixes:
        return st
    def hit(s):
        return bool(s) and any(s == p or s.startswith(p + "[") or s.startswith(p + ".") for p in prefixes)
    return frozenset(f for f in st if not (hit(f[1]) or hit(f[2])))


def _not_none_value(fn, v):
    return (isinstance(v, ast.Constant) and v.value is not None) or isinstance(v, (ast.Call, ast.Dict, ast.List, ast.Tuple, ast.Set,
                                                                                  ast.JoinedStr, ast.BinOp)) \
        or (isinstance(v, ast.Name) and (v.id in fn.params))


class _Summary:
    def __init__(self):
        self.aborts = []      # (facts on the way to the abort, FuncInfo, node that aborts)
        self.post = frozenset()
        self.kills = set()


def _apply(st, s):
    return _forget(st, s.kills) | s.post


def _store_effects(fn, fx, n, st, kills, any_base=False):
    """The abstract state after the stores of node `n`: what is overwritten on the object (`self.`-rooted targets; any
    attribute / item target with any_base) is forgotten and entered in `kills`, a plain store of None / of a value that
    cannot be None is remembered."""
    a = n.ast
    if n.kind == "stmt" and isinstance(a, (ast.Assign, ast.AugAssign, ast.AnnAssign, ast.Delete)):
        targets = list(a.targets) if isinstance(a, (ast.Assign, ast.Delete)) else [a.target]
        flat = []
        while targets:
            t = targets.pop()
            if isinstance(t, (ast.Tuple, ast.List)):
                targets.extend(t.elts)
            elif isinstance(t, ast.Starred):
                targets.append(t.value)
            else:
                flat.append(t)
        for t in flat:
            if not isinstance(t, (ast.Attribute, ast.Subscript)):
                continue
            whole = isinstance(t, ast.Subscript) and not isinstance(t.slice, ast.Constant)
            try:
                l = fx.norm(n, t.value if whole else t)
            except Exception:
                l = None
            if not (_on_self(l) or (any_base and l)):
                continue
            kills.add(l)
            st = _forget(st, {l})
            if isinstance(a, ast.Assign) and len(flat) == 1 and not whole:
                if _is_none(a.value):
                    st = st | {("is", "None", l)}
                elif _not_none_value(fn, a.value):
                    st = st | {("is not", "None", l)}
    return st


def _event_summary(cls, fn, cache, depth=0):
    """Abstract effect of one method of a status-event class on the object's own state: the paths on which it aborts
    (assert / raise) with the comparisons that lead there, the comparisons on `self.` state that hold whenever it
    returns normally, and the state it overwrites."""
    if fn.qual in cache:
        return cache[fn.qual]
    out = cache[fn.qual] = _Summary()
    cfg = fn.cfg()
    fx = FlowNorm(fn)

    def effects(n, st, aborts=None):
        a = n.ast
        for c in node_calls(n):
            nm = call_name(c)
            m = re.match(r"^self\.(\w+)$", nm or "")
            callee = cls.lookup(m.group(1)) if m else None
            if callee is not None and callee is not fn and depth < 2:
                sub = _event_summary(cls, callee, cache, depth + 1)
                if aborts is not None:
                    for (S, f2, n2) in sub.aborts:
                        aborts.append((st | S, f2, n2))
                out.kills |= sub.kills
                st = _apply(st, sub)
            elif isinstance(c.func, ast.Attribute) and c.func.attr in _MUTATORS:
                p = attr_path(c.func.value)
                if p and p.startswith("self."):
                    out.kills.add(p)
                    st = _forget(st, {p})
        st = _store_effects(fn, fx, n, st, out.kills)
        return st

    def transfer(n, lab, nxt, st):
        if n.kind in ("entry", "exit", "raise"):
            return st
        if lab == "exc" and not is_raise(n):
            return None
        st = effects(n, st)
        f = fx.edge_fact(n, lab)
        if f:
            if _state_fact(f) and (_refuters(f) & st):
                return None          # contradicts what the path already knows
            st = st | {f}
            if f[0] == "truth":
                st = st | {("is not", "None", f[1])}
            elif f[:2] == ("is", "None"):
                st = st | {("false", f[2], None)}
        return st
    visited, parent = explore(cfg, frozenset(), transfer)
    out.states = len(visited)
    posts = None
    for (nid, st) in sorted(visited, key=lambda x: (x[0], sorted(map(str, x[1])))):
        n = cfg.nodes[nid]
        if nid == cfg.exit.id:
            keep = frozenset(f for f in st if _state_fact(f))
            posts = keep if posts is None else (posts & keep)
        elif nid == cfg.raise_exit.id:
            p = parent.get((nid, st))
            out.aborts.append((st, fn, cfg.nodes[p[0][0]] if p else n))
        elif n.kind not in ("entry", "exit", "raise"):
            effects(n, st, out.aborts)
    out.post = posts or frozenset()
    return out


def _unsafe_aborts(summary, est):
    """The aborts of a method that nothing known about the object (`est`) rules out.  An abort that depends on
    arguments only is not decided (skipped); one behind no test at all always happens."""
    bad = []
    for (S, f2, n2) in summary.aborts:
        own = [g for g in S if _state_fact(g)]
        if S and not own:
            continue
        if any(_refuters(g) & est for g in own):
            continue
        bad.append((own, f2, n2))
    return bad


def _fact_text(g):
    op, l, rr = g
    if op in ("truth", "false"):
        return ("%s" if op == "truth" else "not %s") % l
    return "%s %s %s" % (rr, op, l)


# ---- operations of a status-event method that raise for an operand that is None (C46.10) ----------------
# builtins that raise TypeError for a None argument (in any position the rule looks at: the first)
_NONE_HOSTILE = {"len", "int", "float", "abs", "round", "sum", "min", "max", "sorted", "list", "tuple", "set", "frozenset",
                 "iter", "next", "reversed", "enumerate", "zip", "divmod", "pow", "ord", "chr", "hex", "oct", "bin", "dict"}
_READERS = {"get", "keys", "values", "items", "copy", "index", "count"}
_ORDERED = (ast.Lt, ast.LtE, ast.Gt, ast.GtE)


def _always_evaluated(e):
    """Sub-expressions of `e` that are evaluated whenever `e` is (nothing behind a short circuit, a conditional
    expression, a comprehension's iteration or a lambda)."""
    yield e
    if isinstance(e, ast.BoolOp):
        kids = e.values[:1]
    elif isinstance(e, ast.IfExp):
        kids = [e.test]
    elif isinstance(e, (ast.ListComp, ast.SetComp, ast.GeneratorExp, ast.DictComp)):
        kids = [e.generators[0].iter]
    elif isinstance(e, ast.Lambda):
        kids = []
    elif isinstance(e, ast.Compare) and len(e.ops) > 1:
        kids = [e.left, e.comparators[0]]
    else:
        kids = list(ast.iter_child_nodes(e))
    for k in kids:
        if isinstance(k, (ast.expr, ast.Starred, ast.keyword)):
            for x in _always_evaluated(k):
                yield x


def _canon_item(l):
    """`x.get(k)` / `x.get(k, None)` reads the same item as `x[k]`."""
    m = re.match(r"^(.*)\.get\(([^,()]+)(, None)?\)$", l or "")
    return "%s[%s]" % (m.group(1), m.group(2)) if m else l


class _NoneHazards:
    """Forward exploration of status-event methods from a known abstract state of the object: which operations raise
    because an operand is None in that state (arithmetic, ordering comparison, subscript, attribute access, call,
    iteration / unpacking, a builtin that needs a number or a collection), in the method itself, a self.helper(), a
    module-level function or a method of an object the event was constructed with that it hands the value to."""

    def __init__(self, idx, attr_classes):
        self.idx = idx
        self.attr_classes = attr_classes      # {class qual: {"self._ds": ClassInfo}}
        self.memo = {}
        self.summaries = {}
        self.states = 0

    # -- what is evaluated at a node, as (operand expression, exception, whole expression) ----------------
    def operands(self, fn, n):
        a = n.ast
        out = []
        roots = []
        if n.kind == "iter":
            out.append((a.iter, "TypeError", a.iter))
            roots = [a.iter]
        elif n.kind == "with":
            roots = [i.context_expr for i in a.items]
            out.extend((e, "AttributeError", e) for e in roots)
        elif n.kind == "test":
            roots = [a] if isinstance(a, ast.expr) else []
        elif n.kind == "stmt":
            if isinstance(a, ast.Assign):
                roots = [a.value] + list(a.targets)
                if any(isinstance(t, (ast.Tuple, ast.List)) for t in a.targets):
                    out.append((a.value, "TypeError", a.value))
            elif isinstance(a, ast.AugAssign):
                roots = [a.value, a.target]
                out.append((a.target, "TypeError", a.target))
                out.append((a.value, "TypeError", a.value))
            elif isinstance(a, ast.AnnAssign):
                roots = [x for x in (a.value, a.target) if x is not None]
            elif isinstance(a, (ast.Expr, ast.Return)):
                roots = [a.value] if a.value is not None else []
            elif isinstance(a, ast.Delete):
                roots = list(a.targets)
            elif isinstance(a, ast.Raise):
                roots = [x for x in (a.exc, a.cause) if x is not None]
            elif isinstance(a, ast.Assert):
                roots = [a.test]
        for root in roots:
            for x in _always_evaluated(root):
                if isinstance(x, ast.BinOp):
                    fmt = isinstance(x.op, ast.Mod)
                    if not (fmt and isinstance(x.left, (ast.Constant, ast.JoinedStr))):
                        out.append((x.left, "TypeError", x))
                    if not fmt:
                        out.append((x.right, "TypeError", x))
                elif isinstance(x, ast.UnaryOp) and isinstance(x.op, (ast.USub, ast.UAdd, ast.Invert)):
                    out.append((x.operand, "TypeError", x))
                elif isinstance(x, ast.Compare) and len(x.ops) == 1:
                    if isinstance(x.ops[0], _ORDERED):
                        out.append((x.left, "TypeError", x))
                        out.append((x.comparators[0], "TypeError", x))
                    elif isinstance(x.ops[0], (ast.In, ast.NotIn)):
                        out.append((x.comparators[0], "TypeError", x))
                elif isinstance(x, ast.Subscript):
                    out.append((x.value, "TypeError", x))
                elif isinstance(x, ast.Attribute) and not (x.attr.startswith("__") and x.attr.endswith("__")):
                    out.append((x.value, "AttributeError", x))
                elif isinstance(x, ast.Starred):
                    out.append((x.value, "TypeError", x))
                elif isinstance(x, ast.Call):
                    if isinstance(x.func, ast.Name) and x.func.id in _NONE_HOSTILE and x.args and not x.keywords \
                            and x.func.id not in fn.module.funcs and x.func.id not in fn.module.imports \
                            and x.func.id not in fn.module.assigns and x.func.id not in fn.params \
                            and not isinstance(x.args[0], ast.Starred):
                        out.append((x.args[0], "TypeError", x))
                    elif not isinstance(x.func, (ast.Name, ast.Attribute)):
                        out.append((x.func, "TypeError", x))
        return out

    def is_none(self, fx, n, e, st):
        if _is_none(e):
            return "None"
        if not isinstance(e, (ast.Name, ast.Attribute, ast.Subscript, ast.Call)):
            return None
        try:
            l = _canon_item(fx.norm(n, e))
        except Exception:
            return None
        if l == "None" or (l and ("is", "None", l) in st):
            return l
        return None

    # -- calls the rule can follow --------------------------------------------------------------------------
    def callee(self, cls, fn, fx, n, c):
        """(class of the callee or None, FuncInfo, normal form of what its `self` is) or None."""
        f = c.func
        if isinstance(f, ast.Attribute):
            try:
                recv = fx.norm(n, f.value)
            except Exception:
                recv = None
            if recv == "self" and cls is not None:
                m = cls.lookup(f.attr)
                return (cls, m, "self") if m is not None else None
            oc = self.attr_classes.get(cls.qual if cls is not None else None, {}).get(recv)
            if oc is not None:
                m = oc.lookup(f.attr)
                return (oc, m, recv) if m is not None else None
            return None
        if isinstance(f, ast.Name):
            g = _target_func(fn, f)
            if g is None:
                g = self.idx.resolve_expr(fn.module, f)
            if isinstance(g, FuncInfo) and g.cls is None:
                return (None, g, None)
        return None

    def bind(self, fx, n, c, target, st):
        """The None-ness the callee knows of its own names: facts of `st` re-expressed through the parameter binding."""
        ocls, g, recv = target
        pairs = []
        if recv is not None:
            pairs.append(("self", recv))
        ps = first_positional_params(g) if g.cls is not None else list(g.params)
        out = set()
        for i, p in enumerate(ps):
            a = arg(c, i, p)
            if a is None:
                continue
            if _is_none(a):
                out.add(("is", "None", p))
                continue
            try:
                l = _canon_item(fx.norm(n, a))
            except Exception:
                l = None
            if l and re.match(r"^[\w.\[\]'\"]+$", l) and not re.match(r"^\d", l):
                pairs.append((p, l))
        pairs.sort(key=lambda t: -len(t[1]))

        def sub(s_):
            for (p, l) in pairs:
                if s_ == l:
                    return p
                if s_.startswith(l + "[") or s_.startswith(l + "."):
                    return p + s_[len(l):]
            return None
        for f_ in st:
            if f_[0] in ("is", "is not") and f_[1] == "None" and f_[2]:
                t = sub(f_[2])
                if t:
                    out.add((f_[0], "None", t))
            elif f_[0] in ("truth", "false") and f_[1]:
                t = sub(f_[1])
                if t:
                    out.add((f_[0], t, None))
        return frozenset(out)

    # -- one node ---------------------------------------------------------------------------------------------
    def raised_at(self, cls, fn, fx, n, st, depth):
        """[(exception, FuncInfo, node, expression, operand normal form, [calls leading there])] raised at `n` in state st."""
        out = []
        for (e, exc, whole) in self.operands(fn, n):
            l = self.is_none(fx, n, e, st)
            if l is not None:
                out.append((exc, fn, n, whole, l, ()))
        if depth < 3:
            for c in node_calls(n):
                t = self.callee(cls, fn, fx, n, c)
                if t is None:
                    continue
                est2 = self.bind(fx, n, c, t, st)
                if not any(f_[0] == "is" for f_ in est2):
                    continue
                for (exc, f2, n2, e2, l2, chain) in self.run(t[0], t[1], est2, depth + 1):
                    out.append((exc, f2, n2, e2, l2, (src(fn, c),) + tuple(chain)))
        return out

    def after(self, cls, fn, fx, n, st):
        for c in node_calls(n):
            f = c.func
            t = self.callee(cls, fn, fx, n, c)
            if t is not None and t[0] is cls and t[2] == "self" and cls is not None:
                st = _apply(st, _event_summary(cls, t[1], self.summaries))
            gone = set()
            if isinstance(f, ast.Attribute) and not (t is not None and t[2] == "self") and f.attr not in _READERS:
                try:
                    gone.add(fx.norm(n, f.value))
                except Exception:
                    pass
            for a in list(c.args) + [k.value for k in c.keywords]:
                if isinstance(a, (ast.Name, ast.Attribute, ast.Subscript)):
                    try:
                        gone.add(fx.norm(n, a))
                    except Exception:
                        pass
            gone = {g_ for g_ in gone if g_ and re.match(r"^[\w.\[\]'\"]+$", g_)}
            if "self" in gone:
                return frozenset()
            st = _forget(st, gone)
        st = _store_effects(fn, fx, n, st, set(), any_base=True)
        names = {s_ for s_ in node_stores(n) if re.match(r"^\w+$", s_)}
        return _forget(st, names)

    @staticmethod
    def caught(cfg, n, exc):
        for (d, l) in cfg.succ[n.id]:
            h = cfg.nodes[d]
            if l == "exc" and h.kind == "except" and C._default_exc_match(exc, h.ast.type) is not False:
                return h
        return None

    # -- one method -------------------------------------------------------------------------------------------
    def run(self, cls, fn, est, depth=0):
        key = (fn.qual, est)
        if key in self.memo:
            return self.memo[key]
        out = self.memo[key] = []
        cfg = fn.cfg()
        fx = FlowNorm(fn)

        def transfer(n, lab, nxt, st):
            if n.kind in ("entry", "exit", "raise"):
                return st
            hz = self.raised_at(cls, fn, fx, n, st, depth)
            if lab == "exc":
                # only the exception of a None operand is followed, into the handler that catches it
                return st if any(self.caught(cfg, n, h[0]) is nxt for h in hz) else None
            if hz:
                return None
            st = self.after(cls, fn, fx, n, st)
            f = fx.edge_fact(n, lab)
            if f:
                f = (f[0], _canon_item(f[1]), _canon_item(f[2]))
                if _refuters(f) & st:
                    return None
                if f[0] in ("is", "is not") and f[1] == "None":
                    st = st | {f}
                    if f[0] == "is":
                        st = st | {("false", f[2], None)}
                elif f[0] == "truth":
                    st = st | {f, ("is not", "None", f[1])}
            return st
        visited, _parent = explore(cfg, est, transfer)
        self.states += len(visited)
        seen = set()
        for (nid, st) in sorted(visited, key=lambda x: (x[0], sorted(map(str, x[1])))):
            n = cfg.nodes[nid]
            if n.kind in ("entry", "exit", "raise"):
                continue
            for h in self.raised_at(cls, fn, fx, n, st, depth):
                if self.caught(cfg, n, h[0]) is None and (h[1].qual, h[2].id, h[4]) not in seen:
                    seen.add((h[1].qual, h[2].id, h[4]))
                    out.append(h)
        return out


# --------------------------------------------------------------------- rules
def run(ctx: Context):
    idx = ctx.idx

    # the callback of process_blocks that retires the segment (today: the nested _deliver)
    pb = idx.func(NODE + ".process_blocks")
    dv = _deferred_var(pb, "_decode_blocks")
    pb_chain = [x for x in registrations(pb) if x.recv == dv]
    retire_regs = []
    for x in pb_chain:
        g = _target_func(pb, _effective(x)[0])
        if g is not None and (calls_in_func(g, "_extract_requests") or calls_in_func(g, "_start_new_segment")):
            retire_regs.append((x, g))
    if not retire_regs:
        raise AnchorVanished("process_blocks registers no callback that retires the segment requests")
    deliver_reg, deliver_fn = retire_regs[0]
    # The delivery callback runs on a later turn.  On an edge on which it has seen that _active_segment is not the
    # fetcher process_blocks read from it before the Deferred was set up (C04's Ownership model: identity test
    # against a pre-gap capture), the cancel path has already retired that fetcher, removed the segment's requests
    # and started the next one: there is nothing left to reset, extract or start on that path.
    own = Ownership(idx, idx.cls(NODE))

    def overtaken(n, lab):
        return own.abandons(deliver_fn, n, lab)

    # -- 1. active-segment typestate ----------------------------------------
    with ctx.rule("C46.1", "R1/E3", "DownloadNode: whoever retires the active fetcher resets _active_segment to None "
                  "and then calls _start_new_segment(); get_segment queues then starts; _start_new_segment installs a "
                  "fetcher only when none is active and wakes it; the retiring functions complete for the case they serve; "
                  "_cancel_request keeps the other requests", expected=8) as r:
        def typestate(fn, stopped0, nothing_to_retire=None):
            cfg = fn.cfg()

            def step(n, st):
                stopped, phase = st
                if "self._active_segment" in node_stores(n):
                    phase = 1 if _is_none(assign_value(n, "self._active_segment")) else 0
                for c in node_calls(n):
                    nm = _cn(fn, n, c)
                    if nm == "self._start_new_segment":
                        if phase == 1:
                            phase = 2
                    elif call_tail(c) == "stop" and nm not in ("self.stop", "self._sharefinder.stop"):
                        stopped = True
                return (stopped, phase)

            def transfer(n, lab, nxt, st):
                if n.kind in ("entry", "exit", "raise") or lab == "exc":
                    return st
                st = step(n, st)
                if nothing_to_retire is not None and nothing_to_retire(n, lab):
                    st = (False, st[1])
                return st
            visited, parent = explore(cfg, (stopped0, 0), transfer)
            r.count(len(visited))
            r.site(fn, None, "retires the active fetcher")
            if (cfg.exit.id, (True, 0)) in visited or (cfg.exit.id, (True, 1)) in visited:
                own.refuse_opaque(fn, "C46.1")
            if (cfg.exit.id, (True, 0)) in visited:
                w = witness(cfg, parent, (cfg.exit.id, (True, 0)))
                r.violation(fn, fn.loc(), "%s can finish with _active_segment still bound to the finished "
                            "SegmentFetcher: _start_new_segment() is then a no-op and every queued or later segment "
                            "request on this node waits for ever (path: %s)" % (short(fn), w.brief()), w)
            if (cfg.exit.id, (True, 1)) in visited:
                w = witness(cfg, parent, (cfg.exit.id, (True, 1)))
                r.violation(fn, fn.loc(), "%s resets _active_segment but can finish without _start_new_segment(): "
                            "queued requests for other segments are never started (path: %s)" % (short(fn), w.brief()), w)

        typestate(idx.func(NODE + ".fetch_failed"), True)
        typestate(deliver_fn, True, overtaken)
        cr = idx.func(NODE + "._cancel_request")
        if not cr.cfg().find(lambda n: any(call_tail(c) == "stop" for c in node_calls(n))):
            raise AnchorVanished("_cancel_request no longer stops the active fetcher")
        typestate(cr, False)

        # the retiring functions get through for the situation they exist for
        ff0 = idx.func(NODE + ".fetch_failed")
        sfp = first_positional_params(ff0)[0]
        ok, k = _completes_when(ff0, lambda op, l, rr: (
            (op in ("is not", "!=") and {l, rr} == {sfp, "self._active_segment"})
            or (op in ("is", "==") and {l, rr} == {"None", "self._active_segment"})
            or (op == "false" and l == "self._active_segment")))
        r.count(k)
        r.site(ff0, None, "completes for the active fetcher")
        r.require(ok, ff0, ff0.loc(), "fetch_failed(%s, ..) reaches its normal exit only when %s is NOT the active fetcher: "
                  "for the fetcher that reports its failure it raises before _active_segment is reset, so the "
                  "segment's readers and every later read on this node wait for ever" % (sfp, sfp))
        resp = first_positional_params(deliver_fn)[0] if first_positional_params(deliver_fn) else None
        if resp is None:
            raise AnchorVanished("the delivery callback of process_blocks takes no result")
        is_fail = re.compile(r"^isinstance\(%s, (\w+\.)*Failure\)$" % re.escape(resp))
        r.site(deliver_fn, None, "completes for a Failure")
        if deliver_reg.kind in ("both", "eb"):       # (a callback-only registration is reported by C46.5)
            ok, k = _completes_when(deliver_fn, lambda op, l, rr: op == "false" and bool(is_fail.match(l or "")),
                                    _destructures(resp), overtaken)
            r.count(k)
            r.require(ok, deliver_fn, deliver_fn.loc(), "%s is called with the Failure of a decode / ciphertext-hash error, "
                      "but every path that is open for a Failure unpacks `%s` like a segment tuple: it raises before "
                      "_active_segment is reset and the node never starts another segment" % (short(deliver_fn), resp))

        # cancelling one request leaves every other request in the queue
        cparam = first_positional_params(cr)[0]
        kept = [n for n in cr.cfg().find(stores("self._segment_requests"))]
        crd = C.reaching_defs(cr.cfg())
        for n in kept:
            v = _value_of(cr.cfg(), crd, n, assign_value(n, "self._segment_requests"))
            flt = [c for (x, c) in _queue_filters(cr) if x is v]
            if not flt:
                if attr_path(v) is not None or (isinstance(v, ast.Call) and call_tail(v) in ("list", "tuple")):
                    continue
                raise AnalysisError("_cancel_request rebuilds _segment_requests in a form the rule cannot read: %s" % src(cr, v))
            r.site(cr, n.ast, "keeps the other requests")
            for c in flt[0]:
                r.require(c is not None and c[0] in ("!=", "is not") and c[2] == cparam, cr, cr.loc(n.ast),
                          "_cancel_request keeps a queued request only if `%s`: requests of OTHER readers are dropped "
                          "from _segment_requests without being fired, so a concurrent read on this node hangs"
                          % src(cr, v.generators[0].ifs[flt[0].index(c)]))

        gs = idx.func(NODE + ".get_segment")
        r.site(gs, None, "queue then start")
        starts = _calls(gs, "self._start_new_segment")
        _must_pass(r, gs, starts, "calling _start_new_segment()")
        queued = lambda n: any(call_name(c) == "self._segment_requests.append" for c in node_calls(n)) \
            or "self._segment_requests" in node_stores(n)
        for (n, w) in find_path_avoiding(gs.cfg(), starts, gate_node=queued):
            r.violation(gs, gs.loc(n.ast), "get_segment starts the queue before the request is in _segment_requests", w)

        sn = idx.func(NODE + "._start_new_segment")
        cfg = sn.cfg()
        fnorm = FlowNorm(sn)
        installs = lambda n: "self._active_segment" in node_stores(n) and not _is_none(assign_value(n, "self._active_segment"))
        inst = cfg.find(installs)
        if not inst:
            raise AnchorVanished("_start_new_segment no longer installs a fetcher in _active_segment")
        r.site(sn, inst[0].ast, "install")

        def idle(n, lab):
            f = fnorm.edge_fact(n, lab)
            return f in (("is", "None", "self._active_segment"), ("false", "self._active_segment", None),
                         ("==", "None", "self._active_segment"))
        for (n, w) in find_path_avoiding(cfg, installs, gate_edge=idle):
            r.violation(sn, sn.loc(n.ast), "a new SegmentFetcher replaces _active_segment without checking that none "
                        "is active (path: %s)" % w.brief(), w)
        for s in inst:
            names = {x for x in node_stores(s) if not x.endswith("[]")}

            def wakes(n, _names=names):
                return any(call_tail(c) == "add_shares" and attr_path(c.func.value) in _names for c in node_calls(n))
            for (_s, w) in find_path_from_to_avoiding(cfg, lambda n, _s=s: n is _s, wakes):
                r.violation(sn, sn.loc(s.ast), "the new fetcher is installed but never woken with add_shares(): its "
                            "loop never runs when no new shares arrive (path: %s)" % w.brief(), w)

    # -- 2. fetcher abandon discipline --------------------------------------
    with ctx.rule("C46.2", "R1/E3", "SegmentFetcher: stop() precedes every report to the node, one report per pass, "
                  "stop() is always followed by a report, loop() converts exceptions into fetch_failed", expected=5) as r:
        REPORT = ("self._node.fetch_failed", "self._node.process_blocks")
        WORK = ("self._find_and_use_share", "self._ask_for_more_shares", "self._node.want_more_shares", "self._start_share")

        def discipline(fn, inline_error):
            cfg = fn.cfg()
            problems = {}

            def step(n, st, record=None):
                stopped, reports = st
                for c in node_calls(n):
                    nm = _cn(fn, n, c)
                    if nm == "self.stop":
                        stopped = True
                    elif nm in REPORT or (inline_error and nm == "self._no_shares_error"):
                        if record is not None:
                            record("site", c)
                        if nm in REPORT and not stopped and record is not None:
                            record("unstopped", c)
                        if nm == "self._no_shares_error":
                            stopped = True
                        if nm == "self._node.fetch_failed" and record is not None:
                            a0 = arg(c, 0, "sf")
                            if not (isinstance(a0, ast.Name) and a0.id == "self"):
                                record("notself", c)
                        reports = min(2, reports + 1)
                        if reports == 2 and record is not None:
                            record("twice", c)
                    elif nm in WORK and reports >= 1 and record is not None:
                        record("work", c)
                return (stopped, reports)

            def transfer(n, lab, nxt, st):
                if n.kind in ("entry", "exit", "raise") or lab == "exc":
                    return st
                return step(n, st)
            visited, parent = explore(cfg, (False, 0), transfer)
            r.count(len(visited))
            sites = {}
            for (nid, st) in sorted(visited):
                n = cfg.nodes[nid]
                if n.kind in ("entry", "exit", "raise"):
                    continue

                def record(kind, c, _nid=nid, _st=st):
                    if kind == "site":
                        sites[id(c)] = c
                    else:
                        problems.setdefault((kind, id(c)), (c, witness(cfg, parent, (_nid, _st))))
                step(n, st, record)
            for c in sites.values():
                r.site(fn, c, "report")
            msgs = {"unstopped": "reports to the node without stop() first: the fetcher keeps running and reports again",
                    "twice": "a second report to the node on the same pass",
                    "work": "keeps requesting shares after having reported to the node",
                    "notself": "fetch_failed is not given this fetcher (the node's `sf is _active_segment` check fails)"}
            for (kind, _i), (c, w) in problems.items():
                r.violation(fn, fn.loc(c), "%s: %s (%s; path: %s)" % (short(fn), msgs[kind], src(fn, c), w.brief()), w)
            for st in ((True, 0),):
                if (cfg.exit.id, st) in visited:
                    w = witness(cfg, parent, (cfg.exit.id, st))
                    r.violation(fn, fn.loc(), "%s stops the fetcher but can return without fetch_failed/process_blocks: "
                                "the node keeps waiting on a dead fetcher (path: %s)" % (short(fn), w.brief()), w)
            return visited, cfg

        dl = idx.func(FETCH + "._do_loop")
        discipline(dl, True)
        ne = idx.func(FETCH + "._no_shares_error")
        visited, cfg = discipline(ne, False)
        for (nid, st) in visited:
            if nid == cfg.exit.id and st != (True, 1):
                r.violation(ne, ne.loc(), "_no_shares_error can return in state stopped=%s reports=%d (expected stop() and "
                            "exactly one fetch_failed)" % st)
        bad, badrefs, total = callers_outside(idx, "_no_shares_error", [FETCH + "._do_loop"])
        for cs in bad:
            r.violation(cs.fn, cs.loc, "%s calls _no_shares_error outside the stop/report discipline of _do_loop" % short(cs.fn))

        lp = idx.func(FETCH + ".loop")
        cfg = lp.cfg()
        calls = cfg.find(_calls(lp, "self._do_loop"))
        if not calls:
            raise AnchorVanished("SegmentFetcher.loop no longer calls _do_loop")
        for n in calls:
            r.site(lp, n.ast, "exception guard")
            handlers = [cfg.nodes[d] for (d, l) in cfg.succ[n.id] if l == "exc" and cfg.nodes[d].kind == "except"]
            catch_all = [h for h in handlers if h.ast.type is None or
                         (attr_path(h.ast.type) or "").split(".")[-1] in ("BaseException", "Exception")]
            escapes = any(l == "exc" and cfg.nodes[d].kind == "raise" for (d, l) in cfg.succ[n.id])
            if not catch_all or (escapes and not handlers):
                r.violation(lp, lp.loc(n.ast), "an exception of _do_loop is not converted into fetch_failed: the segment "
                            "is abandoned silently and its requests never fire")
            for h in catch_all:
                ws, k = _unexcused(lp, lambda m: any(
                    _cn(lp, m, c) == "self._node.fetch_failed" and isinstance(arg(c, 0, "sf"), ast.Name)
                    and arg(c, 0, "sf").id == "self" for c in node_calls(m)), start=h, ends=("exit", "raise"))
                r.count(k)
                for w in ws:
                    r.violation(lp, lp.loc(h.ast), "the catch-all handler of SegmentFetcher.loop can finish without "
                                "fetch_failed(self, ..) (path: %s)" % w.brief(), w)

    # -- 7. the fetcher waits only for something, and its loop makes progress ----
    with ctx.rule("C46.7", "R1/E3", "SegmentFetcher._do_loop returns without a report only while a block request is "
                  "outstanding (active or overdue) or more shares were asked for and may come; every turn of its while "
                  "loop sent a request or raised the per-server limit it was held back by", expected=2) as r:
        dl = idx.func(FETCH + "._do_loop")
        cfg = dl.cfg()
        fx = FlowNorm(dl)
        MAPS = ("_blocks", "_active_share_map", "_overdue_share_map")
        KL = {("_blocks",): "B", ("_blocks", "_active_share_map"): "BA", MAPS: "BAO"}

        def klass(s):
            m = re.match(r"^len\((.*)\)$", s or "")
            if not m:
                return None
            attrs = set(re.findall(r"self\.(\w+)", m.group(1)))
            return KL.get(tuple(a for a in MAPS if a in attrs)) if attrs <= set(MAPS) else None

        def on_cycle(n):
            for (d, l) in cfg.succ[n.id]:
                if l == "exc":
                    continue
                vis, _p = explore(cfg, 0, lambda m, lab, nxt, st: None if lab == "exc" else 0, start=cfg.nodes[d])
                if (n.id, 0) in vis:
                    return True
            return False
        heads = []
        for n in cfg.nodes:
            if n.kind != "test":
                continue
            for (d, l) in cfg.succ[n.id]:
                f = fx.edge_fact(n, l) if l != "exc" else None
                if f and f[0] in ("<", "<=") and f[2] is not None and (klass(f[1]) == "BA" or klass(f[2]) == "BA") and on_cycle(n):
                    heads.append((n, f[2] if klass(f[1]) else f[1]))
                    break
        if not heads:
            raise AnchorVanished("_do_loop no longer loops on a comparison of blocks + active requests with k")
        K = heads[0][1]

        def kfact(f):
            if not f:
                return None
            op, l, rr = f
            if op in ("truth", "false") and l == "self._no_more_shares":
                return ("nomore", op == "truth")
            if op in ("<", "<=") and rr == K and klass(l):
                return (klass(l), "lt" if op == "<" else "le")
            if op in ("<", "<=") and l == K and klass(rr):
                return (klass(rr), "gt" if op == "<" else "ge")
            return None
        ASK = ("self._ask_for_more_shares", "self._node.want_more_shares")
        TELL = ("self._node.fetch_failed", "self._node.process_blocks", "self._no_shares_error")

        def transfer(n, lab, nxt, st):
            if lab == "exc":
                return None      # an exception ends in loop()'s handler, which reports (C46.2)
            if n.kind in ("entry", "exit", "raise"):
                return st
            facts, asked, told = st
            f = fx.edge_fact(n, lab)
            if f == ("false", "self._running", None):
                return None      # a stopped fetcher has nothing to wait for
            if f in _NEVER:
                return None      # `while True:` is never left by its false edge
            kf = kfact(f)
            if kf is not None:
                facts = frozenset(x for x in facts if x[0] != n.id) | {(n.id, kf)}
            for c in node_calls(n):
                nm = _cn(dl, n, c)
                if nm in ASK:
                    asked = True
                elif nm in TELL:
                    told = True
            return (facts, asked, told)
        visited, parent = explore(cfg, (frozenset(), False, False), transfer)
        r.count(len(visited))
        r.site(dl, None, "waits only for something outstanding")
        seen = set()
        for (nid, st) in sorted(visited, key=lambda x: (x[0], sorted(x[1][0]), x[1][1], x[1][2])):
            if nid != cfg.exit.id or st[2]:
                continue
            fs = {kf for (_i, kf) in st[0]}
            active = (("BA", "ge") in fs or ("BA", "gt") in fs) and ("B", "lt") in fs
            overdue = ("BA", "lt") in fs and (("BAO", "ge") in fs or ("BAO", "gt") in fs)
            coming = ("nomore", False) in fs and st[1]
            if active or overdue or coming:
                continue
            key = (tuple(sorted(fs)), st[1])
            if key in seen:
                continue
            seen.add(key)
            w = witness(cfg, parent, (nid, st))
            known = ", ".join("%s %s" % (a, b) for (a, b) in sorted(map(lambda t: (str(t[0]), str(t[1])), fs))) or "nothing"
            r.violation(dl, dl.loc(), "_do_loop can return without reporting to the node although nothing it could wait for "
                        "is known to be outstanding: the path shows neither (%s <= blocks+active and blocks < %s: an active "
                        "request), nor (blocks+active < %s <= blocks+active+overdue: an overdue request), nor (more shares may "
                        "come and were asked for); nobody wakes this fetcher again and the segment's readers wait for ever "
                        "(known on the path: %s%s; path: %s)" % (K, K, K, known, "; asked for shares" if st[1] else "", w.brief()), w)

        def raises_limit(n):
            a = n.ast
            if n.kind != "stmt" or "self._max_shares_per_server" not in node_stores(n):
                return False
            if isinstance(a, ast.AugAssign):
                return isinstance(a.op, ast.Add) and isinstance(a.value, ast.Constant) and isinstance(a.value.value, int) \
                    and a.value.value > 0
            v = assign_value(n, "self._max_shares_per_server")
            return v is not None and re.match(r"^\(?[1-9]\d* \+ self\._max_shares_per_server\)?$", fx.norm(n, v) or "") is not None

        def fus(f, i):
            return bool(f) and f[0] == "truth" and re.search(r"_find_and_use_share\(\)\[%d\]$" % i, f[1] or "") is not None
        h = heads[0][0]
        r.site(dl, h.ast, "every turn makes progress")
        for (d, l) in cfg.succ[h.id]:
            if l == "exc":
                continue
            f0 = fx.edge_fact(h, l)
            if fus(f0, 0):
                continue

            def turn(n, lab, nxt, st, _h=h):
                if lab == "exc" or n is _h:
                    return None
                f = fx.edge_fact(n, lab)
                if f in _NEVER:
                    return None
                if fus(f, 0):
                    return None                  # a request was sent
                if fus(f, 1):
                    st = 1
                if st == 1 and raises_limit(n):
                    return None                  # held back by the per-server limit, which was raised
                return st
            vis, par = explore(cfg, 1 if fus(f0, 1) else 0, turn, start=cfg.nodes[d])
            r.count(len(vis))
            back = [(nid, st) for (nid, st) in sorted(vis) if nid == h.id]
            if back:
                w = witness(cfg, par, back[0])
                r.violation(dl, dl.loc(h.ast), "_do_loop can go round its while loop without having sent a request "
                            "(_find_and_use_share()[0]) and without having raised _max_shares_per_server for shares that were "
                            "held back by it (_find_and_use_share()[1]): nothing has changed, so the loop spins for ever and "
                            "the whole reactor with it (path: %s)" % w.brief(), w)
                break

    # -- 3. finder ----------------------------------------------------------
    with ctx.rule("C46.3", "R1/E7", "ShareFinder: loop() goes idle only for a stated reason, every DYHB request retires "
                  "on both outcomes and leaves pending_requests; send_request is reached only with a server taken from the "
                  "list", expected=4) as r:
        lp = idx.func(FINDER + ".loop")
        r.site(lp, None, "idle reasons")

        def idle_reason(op, l, rr):
            if op == "false" and l in ("self.running", "self._hungry"):
                return True
            if op == "truth" and l == "self.pending_requests":
                return True
            if op in ("<=", "<") and l == "self.max_outstanding_requests" and rr is not None \
                    and re.match(r"^len\(.*self\.pending_requests.*\)$", rr):
                return True
            return False
        wake = _schedules(lambda p: p == "self.loop" or p.endswith(".no_more_shares"))
        if not lp.cfg().find(wake):
            raise AnchorVanished("ShareFinder.loop schedules neither itself nor no_more_shares")
        ws, k = _unexcused(lp, wake, _helper_fact_excuse(lp, idle_reason))
        r.count(k)
        for w in ws:
            r.violation(lp, lp.loc(), "ShareFinder.loop can return without a request in flight, without rescheduling "
                        "itself and without announcing no_more_shares: the fetcher waits for ever (path: %s)" % w.brief(), w)
        # a server taken from the iterator is queried and the loop rescheduled
        sends = lp.cfg().find(_calls(lp, "self.send_request"))
        if not sends:
            raise AnchorVanished("ShareFinder.loop no longer calls send_request")
        scalls = [c for n in sends for c in node_calls(n) if call_tail(c) == "send_request"]
        srv = attr_path(scalls[0].args[0]) if scalls and scalls[0].args else None
        if srv is None:
            raise AnchorVanished("ShareFinder.loop no longer calls send_request(<server variable>)")
        # the server variable itself is tested, whatever it was bound from (next(it, None), a helper returning an
        # Optional): keep it symbolic instead of replacing it by its defining call
        fx3 = FlowNorm(lp, keep=(srv,))

        def have_server(n, lab):
            f = fx3.edge_fact(n, lab)
            return f in (("truth", srv, None), ("is not", "None", srv), ("!=", "None", srv))

        def took_server(n):
            # next(it) yields a server or raises; next(it, default) may hand back the default and needs the test
            v = assign_value(n, srv) if srv in node_stores(n) else None
            return isinstance(v, ast.Call) and call_tail(v) == "next" and len(v.args) == 1 and not v.keywords
        r.site(lp, scalls[0], "queries only a server it obtained")
        for (n, w) in find_path_avoiding(lp.cfg(), _calls(lp, "self.send_request"), gate_node=took_server,
                                         gate_edge=have_server, kill=stores(srv)):
            r.violation(lp, lp.loc(n.ast), "send_request(%s) is reached without `%s` having been tested: once the server list "
                        "is exhausted the query of `None` dies after entering pending_requests, which never empties again, "
                        "so no_more_shares is never announced and a read with too few shares waits for ever (path: %s)"
                        % (srv, srv, w.brief()), w)
        if "." not in srv and srv not in lp.params:
            for (n, w) in find_path_avoiding(lp.cfg(), _reads(srv), gate_node=stores(srv)):
                r.violation(lp, lp.loc(n.ast), "`%s` is read but not bound on a path (%s): with the server list exhausted the "
                            "loop dies with UnboundLocalError before it can announce no_more_shares" % (srv, w.brief()), w)
                break

        sr = idx.func(FINDER + ".send_request")
        dv3 = _deferred_var(sr, "get_buckets")
        chain = [x for x in registrations(sr) if x.recv == dv3]
        r.site(sr, None, "chain " + " ".join(map(repr, chain)))
        ret = [x for x in chain if attr_path(_effective(x)[0]) == "self._request_retired"]
        if not ret:
            r.violation(sr, sr.loc(), "send_request no longer retires the request on its Deferred")
        for x in ret[:1]:
            r.require(x.kind == "both", sr, sr.loc(x.call), "_request_retired is registered as %s: a failed DYHB query "
                      "stays in pending_requests and the finder never announces no_more_shares" % x.kind)
            a = _effective(x)[1]
            tok = a[0].id if a and isinstance(a[0], ast.Name) else None
            added = [c for c in calls_in_func(sr, "add") if call_name(c) == "self.pending_requests.add"
                     and c.args and isinstance(c.args[0], ast.Name) and c.args[0].id == tok]
            r.require(tok is not None and bool(added), sr, sr.loc(x.call),
                      "the token retired (%s) is not the one added to pending_requests" % (tok,))

        rr_ = idx.func(FINDER + "._request_retired")
        r.site(rr_, None, "leaves pending_requests")
        p0 = first_positional_params(rr_)[0]
        _must_pass(r, rr_, lambda n: any(
            call_name(c) in ("self.pending_requests.discard", "self.pending_requests.remove") and c.args
            and isinstance(c.args[0], ast.Name) and c.args[0].id == p0 for c in node_calls(n)),
            "removing the request from pending_requests")

    # -- 4. Segmentation ----------------------------------------------------
    with ctx.rule("C46.4", "R1/E7", "Segmentation: _request_retired is an addBoth ahead of _got_segment and clears "
                  "_active_segnum; every path fires or arms the read's Deferred; segment consumers re-enter "
                  "_maybe_fetch_next; _got_segment updates _size before it continues", expected=10) as r:
        fnx = idx.func(SEG + "._fetch_next")
        dv4 = _deferred_var(fnx, "get_segment")
        chain = [x for x in registrations(fnx) if x.recv == dv4]
        r.site(fnx, None, "chain " + " ".join(map(repr, chain)))
        i_ret = [i for i, x in enumerate(chain) if attr_path(x.target) == "self._request_retired"]
        i_got = [i for i, x in enumerate(chain) if attr_path(x.target) == "self._got_segment"]
        if not i_got:
            raise AnchorVanished("_fetch_next no longer registers _got_segment")
        if not i_ret:
            r.violation(fnx, fnx.loc(), "_fetch_next no longer registers _request_retired: _active_segnum is never "
                        "cleared and _maybe_fetch_next refuses to fetch the next segment")
        else:
            x = chain[i_ret[0]]
            r.require(x.kind == "both", fnx, fnx.loc(x.call), "_request_retired is registered as %s: after a failed "
                      "segment _active_segnum stays set and the permitted retry never fetches" % x.kind)
            r.require(i_ret[0] < i_got[0], fnx, fnx.loc(x.call), "_request_retired runs after _got_segment, whose "
                      "_maybe_fetch_next then sees a busy _active_segnum and stalls")
        arms = lambda n: any(call_tail(c) in ("addErrback", "addBoth") and c.args and attr_path(c.args[0]) == "self._error"
                             and attr_path(c.func.value) == dv4 for c in node_calls(n))
        fires = lambda n: any(call_name(c) in ("self._deferred.callback", "self._deferred.errback") for c in node_calls(n))
        _must_pass(r, fnx, lambda n: arms(n) or fires(n), "firing the read's Deferred or arming the _error errback")
        i_err = [i for i, x in enumerate(chain) if attr_path(x.target) == "self._error" and x.kind in ("eb", "both")]
        if i_err:
            late = [x for x in chain[i_err[-1] + 1:] if x.kind != "eb"]
            r.require(not late, fnx, fnx.loc(late[0].call if late else None), "a callback is registered behind the _error "
                      "errback: its failure is dropped and the read never finishes")
            r.require(i_err[-1] > i_got[0], fnx, fnx.loc(chain[i_err[-1]].call), "the _error errback sits ahead of "
                      "_got_segment, whose exceptions (wrong segment, consumer errors) then fire nothing")

        rq = idx.func(SEG + "._request_retired")
        r.site(rq, None)
        _must_pass(r, rq, lambda n: "self._active_segnum" in node_stores(n) and _is_none(assign_value(n, "self._active_segnum")),
                   "clearing _active_segnum")

        for name in ("_error", "stopProducing"):
            f = idx.func(SEG + "." + name)
            r.site(f, None, "fires the read")
            _must_pass(r, f, _calls(f, "self._deferred.errback"), "firing the read's Deferred with the error")
        for name in ("_got_segment", "_retry_bad_segment", "start"):
            f = idx.func(SEG + "." + name)
            r.site(f, None, "continues the read")
            _must_pass(r, f, _calls(f, "self._maybe_fetch_next"), "calling _maybe_fetch_next()")
        # the read shrinks with every segment consumed (otherwise the same segment is fetched again, for ever)
        gsg = idx.func(SEG + "._got_segment")
        r.site(gsg, None, "consumes: updates _size")
        for (n, w) in find_path_avoiding(gsg.cfg(), _calls(gsg, "self._maybe_fetch_next"), gate_node=stores("self._size"),
                                         skip_exc_edges=True):
            r.violation(gsg, gsg.loc(n.ast), "_got_segment asks for the next segment without having updated self._size: the "
                        "remaining size never reaches 0, so the read fetches segments for ever and its Deferred never "
                        "fires (path: %s)" % w.brief(), w)
        mf = idx.func(SEG + "._maybe_fetch_next")
        r.site(mf, None)
        _must_pass(r, mf, _calls(mf, "self._fetch_next"), "calling _fetch_next()", _fact_excuse(
            mf, lambda op, l, rr: (op == "false" and l in ("self._alive", "self._hungry"))
            or (op in ("is not", "!=") and {l, rr} == {"None", "self._active_segnum"})
            or (op == "truth" and l == "self._active_segnum")))
        rp = idx.func(SEG + ".resumeProducing")
        r.site(rp, None)
        _must_pass(r, rp, _schedules(lambda p: p == "self._maybe_fetch_next"), "scheduling _maybe_fetch_next")
        _must_pass(r, rp, lambda n: "self._hungry" in node_stores(n) and isinstance(assign_value(n, "self._hungry"), ast.Constant)
                   and assign_value(n, "self._hungry").value is True, "setting _hungry")

    # -- 5. delivery of queued requests -------------------------------------
    with ctx.rule("C46.5", "R1/E7", "every request extracted for a finished segment is handed to DownloadNode._deliver, "
                  "which fires it unless cancelled; the delivery callback of process_blocks is an addBoth; _extract_requests "
                  "returns the requests of that segment and keeps exactly the others", expected=6) as r:
        r.site(pb, deliver_reg.call, "delivery registration")
        r.require(deliver_reg.kind == "both", pb, pb.loc(deliver_reg.call), "the delivery callback is registered as %s: a "
                  "decode or ciphertext-hash failure is never delivered and the segment's readers wait for ever" % deliver_reg.kind)
        i_chk = [i for i, x in enumerate(pb_chain) if x.target_name().endswith("_check_ciphertext_hash")]
        r.require(not i_chk or i_chk[0] < pb_chain.index(deliver_reg), pb, pb.loc(deliver_reg.call),
                  "delivery is registered ahead of the ciphertext check, whose failure then reaches nobody")
        hands = _schedules(lambda p: p == "self._deliver")
        ff = idx.func(NODE + ".fetch_failed")
        segparam = first_positional_params(pb)[0]
        n_loops = 0
        for fn, want in ((ff, first_positional_params(ff)[0] + ".segnum"), (deliver_fn, segparam)):
            cfg = fn.cfg()
            heads = [n for n in cfg.nodes if n.kind == "iter" and contains_call(n.ast.iter, "_extract_requests")]
            if not heads:
                raise AnchorVanished("%s no longer iterates over _extract_requests(..)" % short(fn))
            if fn is deliver_fn and _unexcused(fn, lambda n, _h=heads: n in _h, overtaken)[0]:
                own.refuse_opaque(fn, "C46.5")
            _must_pass(r, fn, lambda n, _h=heads: n in _h, "extracting the requests of the finished segment",
                       overtaken if fn is deliver_fn else None)
            for h in heads:
                n_loops += 1
                r.site(fn, h.ast, "delivery loop")
                c = contains_call(h.ast.iter, "_extract_requests")[0]
                got = attr_path(arg(c, 0, "segnum")) if arg(c, 0, "segnum") is not None else None
                r.require(got == want, fn, fn.loc(c), "requests of %s are retired for a segment delivered as %s" % (got, want))
                for (d, l) in cfg.succ[h.id]:
                    if l != "iter":
                        continue

                    def transfer(n, lab, nxt, st, _h=h):
                        if n is _h or lab == "exc" or hands(n):
                            return None
                        return 0
                    visited, parent = explore(cfg, 0, transfer, start=cfg.nodes[d])
                    r.count(len(visited))
                    for end in (h.id, cfg.exit.id):
                        if (end, 0) in visited:
                            w = witness(cfg, parent, (end, 0))
                            r.violation(fn, fn.loc(h.ast), "a request taken off _segment_requests is not handed to "
                                        "_deliver: its reader never hears about the segment (path: %s)" % w.brief(), w)
        # _extract_requests splits the queue: what it does not hand back stays queued
        er = idx.func(NODE + "._extract_requests")
        eparam = first_positional_params(er)[0]
        ecfg = er.cfg()
        fl = _queue_filters(er)
        keep_nodes = ecfg.find(stores("self._segment_requests"))
        keep = [(x, c) for (x, c) in fl if any(assign_value(n, "self._segment_requests") is x for n in keep_nodes)]
        retire = [(x, c) for (x, c) in fl if not any(x is k for (k, _c) in keep)]
        if len(keep) != 1 or len(retire) != 1 or len(keep_nodes) != 1:
            raise AnchorVanished("_extract_requests no longer splits _segment_requests with one filter for the requests it "
                                 "returns and one for those it keeps")
        r.site(er, retire[0][0], "returned + kept = queue")
        rc, kc = retire[0][1], keep[0][1]
        r.require(len(rc) == 1 and rc[0] is not None and rc[0][0] in ("==", "is") and rc[0][2] == eparam, er, er.loc(retire[0][0]),
                  "_extract_requests(%s) does not return the requests whose segment number equals `%s` (filter: %s): the "
                  "readers of the finished segment are never fired" % (eparam, eparam, src(er, retire[0][0])))
        r.require(len(kc) == 1 and len(rc) == 1 and None not in (kc[0], rc[0]) and kc[0] == (_NEG[rc[0][0]], rc[0][1], rc[0][2]),
                  er, er.loc(keep[0][0]), "_extract_requests keeps `%s` but returns `%s`: the two filters are not "
                  "complementary, so a queued request can be dropped from _segment_requests without ever being fired"
                  % (src(er, keep[0][0]), src(er, retire[0][0])))
        retire_node = [n for n in ecfg.nodes if n.kind == "stmt" and any(x is retire[0][0] for e in node_exprs(n) for x in ast.walk(e))]
        for (n, w) in find_path_avoiding(ecfg, lambda m: m in keep_nodes, gate_node=lambda m: m in retire_node):
            r.violation(er, er.loc(n.ast), "_extract_requests shrinks the queue before it has collected the requests to "
                        "retire: they are lost (path: %s)" % w.brief(), w)
        returned = [n for n in ecfg.find(is_return)]
        rd = C.reaching_defs(ecfg)

        value_of = lambda n, e: _value_of(ecfg, rd, n, e)
        r.require(bool(returned) and all(n.ast.value is not None and any(x is retire[0][0] for x in ast.walk(
            value_of(n, n.ast.value))) for n in returned), er, er.loc(),
            "_extract_requests does not return the requests it took out of the queue")

        dn = idx.func(NODE + "._deliver")
        r.site(dn, None, "fires unless cancelled")
        ps = first_positional_params(dn)
        _must_pass(r, dn, lambda n: any(
            call_tail(c) in ("callback", "errback") and attr_path(c.func.value) == ps[0] for c in node_calls(n)),
            "firing the request's Deferred", _fact_excuse(dn, lambda op, l, rr: op == "false" and l == ps[1] + ".active"))

    # -- 8. no status call can abort a delivery loop ---------------------------
    # _extract_requests has already taken the segment's requests off the queue when the loop runs: an exception
    # in the loop body leaves the requests not yet reached without anybody to fire them and skips
    # _start_new_segment().  The status event of a request is in the state the node put it in: the one at the
    # head of the queue was activated by _start_new_segment, every other one is as add_segment_request made it.
    deref_sites, deref_problems, deref = [], {}, [None]
    with ctx.rule("C46.8", "R1/E3", "a status-event method called on every request of a delivery loop cannot abort for "
                  "the state such a request's event is in (fresh from add_segment_request, or activated by "
                  "_start_new_segment) unless the loop body itself established what the method asserts", expected=5) as r:
        gs = idx.func(NODE + ".get_segment")
        er = idx.func(NODE + "._extract_requests")
        sn = idx.func(NODE + "._start_new_segment")
        ff = idx.func(NODE + ".fetch_failed")
        # where the status event sits in a queue entry
        made = [n for n in gs.cfg().nodes if n.kind == "stmt" and isinstance(n.ast, ast.Assign)
                and isinstance(n.ast.value, ast.Call) and call_tail(n.ast.value) == "add_segment_request"
                and len(n.ast.targets) == 1 and isinstance(n.ast.targets[0], ast.Name)]
        if len(made) != 1:
            raise AnchorVanished("get_segment no longer binds the result of add_segment_request(..) to a local")
        evname = made[0].ast.targets[0].id
        qpos = None
        for c in calls_in_func(gs, "append"):
            if call_name(c) == "self._segment_requests.append" and c.args and isinstance(c.args[0], ast.Tuple):
                for i, e in enumerate(c.args[0].elts):
                    if isinstance(e, ast.Name) and e.id == evname:
                        qpos = i
        if qpos is None:
            raise AnchorVanished("get_segment no longer queues the status event in the tuple appended to _segment_requests")
        r.site(gs, made[0].ast, "status event is field %d of a queue entry" % qpos)
        # its class, and the state add_segment_request creates it in
        makers = [f for f in idx.by_name.get("add_segment_request", []) if f.cls is not None]
        ev_cls, init = None, frozenset()
        attr_classes = {}
        for mk in makers:
            mcfg = mk.cfg()
            mrd = C.reaching_defs(mcfg)
            for n in mcfg.find(is_return):
                v = _value_of(mcfg, mrd, n, n.ast.value) if n.ast.value is not None else None
                ci = idx.resolve_expr(mk.module, v.func) if isinstance(v, ast.Call) else None
                if not isinstance(ci, ClassInfo):
                    raise AnalysisError("%s returns something the rule cannot resolve to a class: %s" % (short(mk), src(mk, n.ast)))
                if ev_cls is not None and ci is not ev_cls:
                    raise AnalysisError("add_segment_request returns events of several classes")
                ev_cls = ci
                ctor = ci.lookup("__init__")
                if ctor is None:
                    continue
                cps = first_positional_params(ctor)
                for x in func_own_nodes(ctor):
                    if isinstance(x, ast.Assign) and len(x.targets) == 1 and isinstance(x.value, ast.Name) and x.value.id in cps \
                            and (attr_path(x.targets[0]) or "").startswith("self."):
                        a = arg(v, cps.index(x.value.id), x.value.id)
                        a = _value_of(mcfg, mrd, n, a) if a is not None else None
                        base = attr_path(x.targets[0])
                        if a is not None and (_not_none_value(mk, a) or (isinstance(a, ast.Name) and a.id == "self")):
                            init |= {("is not", "None", base)}
                        if isinstance(a, ast.Name) and a.id == "self" and mk.cls is not None:
                            attr_classes.setdefault(ci.qual, {})[base] = mk.cls
                        if isinstance(a, ast.Dict):
                            for k, val in zip(a.keys, a.values):
                                if isinstance(k, ast.Constant) and isinstance(val, ast.Constant):
                                    l = norm_src("%s[%r]" % (base, k.value))
                                    init |= {("is", "None", l) if val.value is None else ("is not", "None", l)}
        if ev_cls is None:
            raise AnchorVanished("no add_segment_request method that returns a status event")
        cache = {}
        deref[0] = hz10 = _NoneHazards(idx, attr_classes)

        fires = _schedules(lambda p_: p_ == "self._deliver")

        def note_derefs(fn, cfg, n, c, m, st, who, where, w=None, head=None):
            """(for C46.10) what `c`, a call of method m on an event in state st, raises because a field is still None"""
            for (exc, f2, n2, e2, l2, chain) in hz10.run(ev_cls, m, frozenset(st)):
                hd = hz10.caught(cfg, n, exc)
                if hd is not None and head is not None:
                    # a handler in the loop body shields the loop only if this request is still handed to _deliver
                    vis, _p = explore(cfg, 0, lambda m_, lab, nxt, s_: None if (m_ is head or lab == "exc" or fires(m_)) else 0, start=hd)
                    if (head.id, 0) not in vis and (cfg.exit.id, 0) not in vis:
                        continue
                elif hd is not None:
                    continue
                deref_problems.setdefault((fn.qual, id(c), f2.qual, n2.id, l2), (fn, c, exc, f2, n2, e2, l2, chain, who, where, w,
                                                                               hd is not None))

        def summ(name, fn, at):
            m = ev_cls.lookup(name)
            if m is None:
                raise AnalysisError("%s calls %s() on the segment's status event, which %s does not define"
                                    % (short(fn), name, ev_cls.name))
            s = _event_summary(ev_cls, m, cache)
            return m, s

        def calls_on(n, var):
            return [c for c in node_calls(n) if isinstance(c.func, ast.Attribute) and isinstance(c.func.value, ast.Name)
                    and c.func.value.id == var]
        # every request: what get_segment does to the event before it queues it
        fresh = frozenset(init)
        gcfg = gs.cfg()
        queued = lambda n: any(call_name(c) == "self._segment_requests.append" for c in node_calls(n))
        for n in gcfg.nodes:
            if n.kind in ("entry", "exit", "raise") or not calls_on(n, evname):
                continue
            if find_path_avoiding(gcfg, queued, gate_node=lambda m, _n=n: m is _n):
                continue
            for c in calls_on(n, evname):
                fresh = _apply(fresh, summ(c.func.attr, gs, c)[1])
        variants = [("a request that was never activated (only the request at the head of the queue is, by "
                     "_start_new_segment)", fresh)]
        # the head of the queue: what _start_new_segment does to its event
        head_var = None
        for n in sn.cfg().nodes:
            a = n.ast
            if n.kind == "stmt" and isinstance(a, ast.Assign) and len(a.targets) == 1 and isinstance(a.targets[0], (ast.Tuple, ast.List)) \
                    and isinstance(a.value, ast.Subscript) and attr_path(a.value.value) == "self._segment_requests" \
                    and len(a.targets[0].elts) > qpos and isinstance(a.targets[0].elts[qpos], ast.Name):
                head_var = a.targets[0].elts[qpos].id
        if head_var is not None:
            st = fresh
            seen_call = False
            for n in sn.cfg().nodes:
                if n.kind in ("entry", "exit", "raise"):
                    continue
                for c in calls_on(n, head_var):
                    seen_call = True
                    m, s_ = summ(c.func.attr, sn, c)
                    note_derefs(sn, sn.cfg(), n, c, m, st, "a newly queued request", "start")
                    # (the head of the queue is fresh: a request leaves the queue together with the fetcher started for it)
                    for (own, f2, n2) in _unsafe_aborts(s_, st):
                        r.violation(f2, f2.loc(n2.ast), "%s aborts (%s) for the state the event of a newly queued request is in, and "
                                    "_start_new_segment calls `%s` between installing the new SegmentFetcher and waking it with "
                                    "add_shares(): the fetcher never runs, _active_segment stays occupied and every read on this "
                                    "node waits for ever" % (short(f2), src(f2, n2.ast), src(sn, c)))
                    st = _apply(st, s_)
            if seen_call:
                r.site(sn, None, "activates the head of the queue")
                deref_sites.append((sn, None, "activates the head of the queue"))
                variants.append(("the request _start_new_segment activated", st))
        # position of the event in what _extract_requests hands to the loops
        retire_comp = [x for (x, _c) in _queue_filters(er)
                       if not any(assign_value(n, "self._segment_requests") is x for n in er.cfg().find(stores("self._segment_requests")))]
        if len(retire_comp) != 1:
            raise AnchorVanished("_extract_requests no longer builds the list of retired requests with one comprehension")
        comp = retire_comp[0]
        g = comp.generators[0]

        def qfield(e):
            if isinstance(e, ast.Name) and isinstance(g.target, (ast.Tuple, ast.List)):
                for i, t in enumerate(g.target.elts):
                    if isinstance(t, ast.Name) and t.id == e.id:
                        return i
            if isinstance(e, ast.Subscript) and isinstance(e.value, ast.Name) and isinstance(g.target, ast.Name) \
                    and e.value.id == g.target.id and isinstance(e.slice, ast.Constant) and isinstance(e.slice.value, int):
                return e.slice.value
            return None
        if isinstance(comp.elt, ast.Name) and isinstance(g.target, ast.Name) and comp.elt.id == g.target.id:
            lpos = qpos
        elif isinstance(comp.elt, (ast.Tuple, ast.List)) and qpos in [qfield(e) for e in comp.elt.elts]:
            lpos = [qfield(e) for e in comp.elt.elts].index(qpos)
        else:
            raise AnalysisError("cannot tell which field of what _extract_requests returns is the status event: %s" % src(er, comp))

        for fn in (ff, deliver_fn):
            cfg = fn.cfg()
            heads = [n for n in cfg.nodes if n.kind == "iter" and contains_call(n.ast.iter, "_extract_requests")]
            if not heads:
                raise AnchorVanished("%s no longer iterates over _extract_requests(..)" % short(fn))
            for h in heads:
                t = h.ast.target
                if not (isinstance(t, (ast.Tuple, ast.List)) and len(t.elts) > lpos and isinstance(t.elts[lpos], ast.Name)):
                    raise AnalysisError("the delivery loop of %s does not unpack the retired request: %s" % (short(fn), src(fn, t)))
                var = t.elts[lpos].id
                r.site(fn, h.ast, "delivery loop, status event `%s`" % var)
                deref_sites.append((fn, h.ast, "delivery loop, status event `%s`" % var))
                problems = {}
                for (who, est0) in variants:

                    def step(n, st, record=None, _var=var):
                        for c in calls_on(n, _var):
                            m, s = summ(c.func.attr, fn, c)
                            if record is not None:
                                for (own, f2, n2) in _unsafe_aborts(s, st):
                                    record(c, m, own, f2, n2)
                                record(c, m, None, None, None, n, st)
                            st = _apply(st, s)
                        return st

                    def transfer(n, lab, nxt, st, _h=h):
                        if n is _h or lab == "exc" or n.kind in ("exit", "raise"):
                            return None
                        return step(n, st)
                    for (d, l) in cfg.succ[h.id]:
                        if l != "iter":
                            continue
                        visited, parent = explore(cfg, est0, transfer, start=cfg.nodes[d])
                        r.count(len(visited))
                        for (nid, st) in sorted(visited, key=lambda x: (x[0], sorted(map(str, x[1])))):
                            n = cfg.nodes[nid]
                            if n is h or n.kind in ("entry", "exit", "raise"):
                                continue

                            def record(c, m, own, f2, n2, at=None, est=None, _nid=nid, _st=st, _who=who):
                                if at is not None:
                                    note_derefs(fn, cfg, at, c, m, est, _who, "loop", witness(cfg, parent, (_nid, _st)), h)
                                    return
                                problems.setdefault((id(c), f2.qual, n2.id),
                                                    (c, m, own, f2, n2, _who, witness(cfg, parent, (_nid, _st))))
                            step(n, st, record)
                for (c, m, own, f2, n2, who, w) in problems.values():
                    own = [g_ for g_ in own if not (g_[0] == "false" and ("is", "None", g_[1]) in own)
                           and not (g_[:2] == ("is not", "None") and ("truth", g_[2], None) in own)]
                    why = " and ".join(sorted(_fact_text(g_) for g_ in own)) or "unconditionally"
                    r.violation(f2, f2.loc(n2.ast), "%s aborts (%s) when %s, and the delivery loop of %s calls `%s` for every "
                                "request it took off _segment_requests - also for %s, for which nothing in the loop body has "
                                "made that false: the exception ends the loop, the requests not yet reached are in nobody's "
                                "queue any more so their Deferreds never fire, and _start_new_segment() is skipped"
                                % (short(f2), src(f2, n2.ast), why, short(fn), src(fn, c), who), w)

    # -- 10. no status call can die of a field that is still None ----------------
    # The same hand-over as in 8: the requests have left the queue, the exception of a status call strands the ones
    # not yet reached.  Here the exception is not an assert / raise but an operation on a field of the event that is
    # still at the None add_segment_request created it with (active_time of a request that never became the head of
    # the queue, finish_time / decode_time / segment_start of any request before it is resolved).
    with ctx.rule("C46.10", "R1/E3", "a status-event method called for every request of a delivery loop (or between installing "
                  "and waking a fetcher) performs no arithmetic / ordering comparison / subscript / attribute access / call / "
                  "iteration / numeric or collection builtin on a field that is None in the state such a request's event is in, "
                  "unless a None test, a handler for the error or the loop body (activate() first) rules that out", expected=4) as r:
        if deref[0] is None or not deref_sites:
            raise AnchorVanished("the status-event model of the delivery loops (C46.8) could not be built")
        for (fn, node, note) in deref_sites:
            r.site(fn, node, note)
        r.count(deref[0].states)
        for (fn, c, exc, f2, n2, e2, l2, chain, who, where, w, shielded) in deref_problems.values():
            via = (" (reached through %s)" % " -> ".join("`%s`" % x for x in chain)) if chain else ""
            if where == "loop" and shielded:
                r.violation(f2, f2.loc(n2.ast), "%s evaluates `%s`%s, which raises %s when %s is None, and the delivery loop of %s calls "
                            "`%s` for every request it took off _segment_requests - also for %s, whose event still has %s at the "
                            "None add_segment_request created it with: the handler in the loop body catches the exception but "
                            "the request is then not handed to _deliver any more, and it is in nobody's queue: its Deferred never fires"
                            % (short(f2), src(f2, e2), via, exc, l2, short(fn), src(fn, c), who, l2), w)
            elif where == "loop":
                r.violation(f2, f2.loc(n2.ast), "%s evaluates `%s`%s, which raises %s when %s is None, and the delivery loop of %s calls "
                            "`%s` for every request it took off _segment_requests - also for %s, whose event still has %s at the "
                            "None add_segment_request created it with (or the method itself left it None): the exception ends the "
                            "loop, the requests not yet reached are in nobody's queue any more so their Deferreds never fire, and "
                            "_start_new_segment() is skipped"
                            % (short(f2), src(f2, e2), via, exc, l2, short(fn), src(fn, c), who, l2), w)
            else:
                r.violation(f2, f2.loc(n2.ast), "%s evaluates `%s`%s, which raises %s when %s is None - the state the event of %s is "
                            "in - and _start_new_segment calls `%s` between installing the new SegmentFetcher and waking it with "
                            "add_shares(): the fetcher never runs, _active_segment stays occupied and every read on this node "
                            "waits for ever" % (short(f2), src(f2, e2), via, exc, l2, who, src(fn, c)))

    # -- 9. the finder retires a request whatever is left of its bookkeeping ----
    # _request_retired runs once per DYHB query, possibly long after the overdue timer of that query fired (overdue()
    # deletes the timer entry) or after stop() emptied the timer table.  An exception before the request has left
    # pending_requests turns the answer into an error and leaves the request pending for ever: loop() then never
    # reaches no_more_shares.
    with ctx.rule("C46.9", "R1/E3", "ShareFinder._request_retired cannot raise before the request has left "
                  "pending_requests: a keyed access (x[req], del x[req], x.pop(req), x.remove(req), x.get(req).attr) to a table "
                  "from which another method removes entries, or into which send_request does not always enter the request, is "
                  "behind `req in x` / a None test / a handler that catches the error", expected=2) as r:
        fcls = idx.cls(FINDER)
        rr_ = idx.func(FINDER + "._request_retired")
        sr = idx.func(FINDER + ".send_request")
        p0 = first_positional_params(rr_)[0]
        toks = [a[0].id for a in (_effective(x)[1] for x in registrations(sr) if attr_path(_effective(x)[0]) == "self._request_retired")
                if a and isinstance(a[0], ast.Name)]
        tok = toks[0] if toks else None
        REMOVERS = {"pop", "popitem", "clear", "discard", "remove", "difference_update", "intersection_update",
                    "symmetric_difference_update"}
        present_cache = {}

        def present(cont):
            """send_request always enters the token in `cont`, and only _request_retired takes entries out of it."""
            if cont in present_cache:
                return present_cache[cont]

            def enters(n):
                for e in node_exprs(n):
                    for x in own_nodes(e):
                        if isinstance(x, ast.Subscript) and isinstance(x.ctx, ast.Store) and attr_path(x.value) == cont \
                                and isinstance(x.slice, ast.Name) and x.slice.id == tok:
                            return True
                        if isinstance(x, ast.Call) and call_name(x) in (cont + ".add", cont + ".append") and x.args \
                                and isinstance(x.args[0], ast.Name) and x.args[0].id == tok:
                            return True
                return False
            ok = tok is not None and bool(sr.cfg().find(enters)) and not _unexcused(sr, enters)[0]
            if ok:
                for m in fcls.methods.values():
                    fns = [m] + list(m.nested.values())
                    for f in fns:
                        if f is rr_:
                            continue
                        for x in func_own_nodes(f):
                            if isinstance(x, ast.Subscript) and isinstance(x.ctx, ast.Del) and attr_path(x.value) == cont:
                                ok = False
                            if isinstance(x, ast.Call) and isinstance(x.func, ast.Attribute) and x.func.attr in REMOVERS \
                                    and attr_path(x.func.value) == cont:
                                ok = False
                            if isinstance(x, (ast.Attribute,)) and isinstance(x.ctx, ast.Store) and attr_path(x) == cont \
                                    and f.name != "__init__":
                                ok = False
            present_cache[cont] = ok
            return ok
        cfg = rr_.cfg()
        fx9 = FlowNorm(rr_)
        rd9 = C.reaching_defs(cfg)

        def is_key(e):
            return isinstance(e, ast.Name) and e.id == p0

        def maybe_none(v):
            """x.get(req) / x.get(req, None) / x.pop(req, None) on a table that may have lost the entry -> the table."""
            if not (isinstance(v, ast.Call) and isinstance(v.func, ast.Attribute) and not v.keywords and v.args and is_key(v.args[0])):
                return None
            cont = attr_path(v.func.value)
            if not cont or not cont.startswith("self.") or present(cont):
                return None
            if v.func.attr == "get" and (len(v.args) == 1 or (len(v.args) == 2 and _is_none(v.args[1]))):
                return cont
            if v.func.attr == "pop" and len(v.args) == 2 and _is_none(v.args[1]):
                return cont
            return None

        def hazards(n, guards):
            """[(exception name, expression)] the node can raise for a request whose entry is gone."""
            out = []
            aug = n.ast.target if n.kind == "stmt" and isinstance(n.ast, ast.AugAssign) else None
            for e in node_exprs(n):
                for x in own_nodes(e):
                    if isinstance(x, ast.Subscript) and is_key(x.slice) and (isinstance(x.ctx, (ast.Load, ast.Del)) or x is aug):
                        cont = attr_path(x.value)
                        if cont and cont.startswith("self.") and not present(cont) and "in:" + cont not in guards:
                            out.append(("KeyError", x))
                    elif isinstance(x, ast.Call) and isinstance(x.func, ast.Attribute) and x.func.attr in ("pop", "remove") \
                            and len(x.args) == 1 and not x.keywords and is_key(x.args[0]):
                        cont = attr_path(x.func.value)
                        if cont and cont.startswith("self.") and not present(cont) and "in:" + cont not in guards:
                            out.append(("KeyError", x))
                    elif isinstance(x, ast.Attribute) and isinstance(x.ctx, ast.Load):
                        v = x.value
                        names = set()
                        if isinstance(v, ast.Name):
                            names.add(v.id)
                            try:
                                names.add(fx9.norm(n, v))
                            except Exception:
                                pass
                            v = _value_of(cfg, rd9, n, v)
                        cont = maybe_none(v)
                        if cont is None:
                            continue
                        try:
                            names.add(fx9.norm(n, v))
                        except Exception:
                            pass
                        if "in:" + cont in guards or any("nn:" + s in guards for s in names):
                            continue
                        out.append(("AttributeError", x))
            return out

        def after(n, guards):
            gone = set()
            for e in node_exprs(n):
                for x in own_nodes(e):
                    if isinstance(x, ast.Subscript) and isinstance(x.ctx, ast.Del) and is_key(x.slice):
                        gone.add("in:" + (attr_path(x.value) or "?"))
                    if isinstance(x, ast.Call) and isinstance(x.func, ast.Attribute) and x.func.attr in REMOVERS:
                        gone.add("in:" + (attr_path(x.func.value) or "?"))
            gone |= {"nn:" + s for s in node_stores(n)}
            return frozenset(g_ for g_ in guards if g_ not in gone)

        retires = lambda n: any(
            call_name(c) in ("self.pending_requests.discard", "self.pending_requests.remove") and c.args
            and is_key(c.args[0]) for c in node_calls(n))
        if not cfg.find(retires):
            raise AnchorVanished("_request_retired no longer takes the request out of pending_requests")

        def catches(h, name):
            return C._default_exc_match(name, h.ast.type) is True

        def transfer(n, lab, nxt, st):
            guards, flying = st
            if n.kind in ("entry", "exit", "raise"):
                return st
            if lab == "exc":
                if flying:
                    # the tail of a `finally` copy hands the exception on
                    return st if all(l == "exc" for (_d, l) in cfg.succ[n.id]) else None
                hz = hazards(n, guards)
                if is_raise(n):
                    if not any(g_.startswith("gone:") for g_ in guards):
                        return None
                    names = [C._exc_name(n.ast.exc)]
                elif hz:
                    names = sorted({h_[0] for h_ in hz})
                else:
                    return None
                for name in names:
                    hs = [cfg.nodes[d] for (d, l) in cfg.succ[n.id] if l == "exc" and cfg.nodes[d].kind == "except"]
                    hit = [h for h in hs if catches(h, name)]
                    if hit:
                        if nxt is hit[0]:
                            return (guards, False)
                    elif nxt.kind != "except":
                        return (guards, True)
                return None
            if hazards(n, guards) and not any(l == "exc" for (_d, l) in cfg.succ[n.id]):
                return None          # raises out of the function: reported from the visited state
            if retires(n):
                return None          # the request has left pending_requests
            if isinstance(lab, tuple) and (nxt.kind in ("raise", "except")):
                # a failing assert / precondition
                f = fx9.edge_fact(n, lab)
                if f and f[0] == "not in" and f[1] == p0 and f[2] and f[2].startswith("self.") and not present(f[2]):
                    return (guards, nxt.kind == "raise")
                return None
            guards = after(n, guards)
            f = fx9.edge_fact(n, lab)
            if f:
                if f[0] == "in" and f[1] == p0:
                    guards = guards | {"in:" + f[2]}
                elif f[0] == "not in" and f[1] == p0 and f[2] and f[2].startswith("self.") and not present(f[2]):
                    guards = guards | {"gone:" + f[2]}
                else:
                    got = f[1] if f[0] == "truth" else (f[2] if f[0] in ("is not", "!=") and f[1] == "None" else None)
                    if got:
                        guards = guards | {"nn:" + got}
                        m = re.match(r"^(self\.[\w.]+)\.get\(%s(, None)?\)$" % re.escape(p0), got)
                        if m:        # the table handed the entry out: it is there
                            guards = guards | {"in:" + m.group(1)}
            return (guards, flying)
        visited, parent = explore(cfg, (frozenset(), False), transfer)
        r.count(len(visited))
        r.site(rr_, None, "retires whatever is left of the bookkeeping")
        r.site(sr, None, "tables the request is always entered in: %s" % ", ".join(sorted(
            c_ for c_ in {attr_path(x.value) for x in func_own_nodes(rr_) if isinstance(x, ast.Subscript)}
            | {attr_path(x.func.value) for x in func_own_nodes(rr_) if isinstance(x, ast.Call) and isinstance(x.func, ast.Attribute)}
            if c_ and c_.startswith("self.") and present(c_)) or "-"))
        reported = set()
        for (nid, st) in sorted(visited, key=lambda x: (x[0], sorted(x[1][0]), x[1][1])):
            n = cfg.nodes[nid]
            if n.kind in ("entry", "exit"):
                continue
            if n.kind == "raise":
                p = parent.get((nid, st))
                culprit = cfg.nodes[p[0][0]] if p else n
                key = ("raise", culprit.id)
                what = None
            elif not st[1] and hazards(n, st[0]) and not any(l == "exc" for (_d, l) in cfg.succ[n.id]):
                culprit, key = n, ("hazard", n.id)
                what = hazards(n, st[0])[0]
            else:
                continue
            if key in reported:
                continue
            reported.add(key)
            w = witness(cfg, parent, (nid, st))
            if what is not None:
                msg = "`%s` raises %s for a request whose entry is already gone" % (src(rr_, what[1]), what[0])
            else:
                msg = "an exception (via `%s`) leaves the function" % src(rr_, culprit.ast)
            r.violation(rr_, rr_.loc(culprit.ast), "_request_retired(%s): %s (overdue() deletes the timer of a slow request, stop() "
                        "empties the table) before `%s` has left pending_requests: the late answer turns into an error, the "
                        "request stays pending for ever, loop() never finds pending_requests empty and never announces "
                        "no_more_shares - the read hangs (path: %s)" % (p0, msg, p0, w.brief()), w)


# -- wake-up discipline (clause (d) of the design; the rules live in C03) --------------------------------
# A read terminates only if every state change of fetcher / finder / share schedules the loop that reacts
# to it; a handler that returns without doing so leaves the read waiting although every server answered.
# The same holds for the share bookkeeping below the fetcher: a finished share that stays in the active / overdue
# map (C03.2), an observer that is never registered, a picked share that is never started or a block request
# retired without telling its observers (C03.7) leave SegmentFetcher._do_loop waiting for an answer that cannot
# come.  C03.4 / C03.5 / C03.8 are not adopted: their hang clauses are decided here by C46.3 / C46.7 and the rest of
# them concerns a premature not-enough-shares verdict, which terminates the read.
_run_termination = run


def _bookkeeping_through_helpers(ctx, rule):
    """C03.2 reads the bookkeeping of _block_request_activity in the handler's own body.  When the handler delegates to
    self.<helper>(share, shnum, ..) the same per-state exploration is repeated here with the helper's effects added at the
    call: the effects the helper performs on EVERY normal path that is consistent with the reported state, read with the
    helper's parameters renamed to the handler's arguments (so `del self._active_share_map[num]` in the helper counts only
    when `num` is bound to shnum).  The verdict of this exploration replaces the adopted one; without helper calls the
    adopted verdict stands untouched."""
    from sa.rules import C03 as c03
    idx = ctx.idx
    fn = idx.func(FETCH + "._block_request_activity")
    if fn.cls is None:
        return
    states = c03._state_names(idx)
    cfg = fn.cfg()
    delegating = [c for n in cfg.nodes if n.kind not in ("entry", "exit", "raise") for c in node_calls(n)
                  if isinstance(c.func, ast.Attribute) and attr_path(c.func.value) == "self"
                  and fn.cls.lookup(c.func.attr) is not None and fn.cls.lookup(c.func.attr) is not fn
                  and call_tail(c) != "loop"]
    if not delegating or not any("can be handled without" in v.msg for v in rule.violations):
        return

    def names_of(t):
        return set(re.findall(r"[A-Za-z_]\w*", t or ""))

    def consistent(f, X):
        op, l, rr = f
        if op in ("is", "==", "is not", "!=") and "state" in (l, rr):
            other = rr if l == "state" else l
            if other in states:
                return (other == X) if op in ("is", "==") else (other != X)
        if op in ("in", "not in") and l == "state":
            ns = names_of(rr)
            if ns and ns <= states:
                return (X in ns) if op == "in" else (X not in ns)
        return True

    def nothing_to_remove(f):
        op, l, rr = f
        if op in ("is not", "!=") and {l, rr} == {"self._active_share_map.get(shnum)", "share"}:
            return True
        return op == "not in" and l == "shnum" and rr == "self._active_share_map"

    summaries = {}

    class Body:
        """One function read in the handler's vocabulary (share / shnum / state)."""
        def __init__(self, f, rename, depth):
            self.f, self.depth = f, depth
            self.cfg = f.cfg()
            self.fx = FlowNorm(f, rename=rename)

        def callee_name(self, n, c):
            try:
                t = self.fx.norm(n, c.func)
            except Exception:
                t = None
            return t if t and re.match(r"^[\w.]+$", t) else call_name(c)

        def args_are(self, n, c, *want):
            return len(c.args) >= len(want) and all(self.fx.norm(n, a) == w for a, w in zip(c.args, want))

        def effects(self, n, X):
            out = set()
            a = n.ast
            if n.kind == "stmt" and isinstance(a, ast.Delete):
                for t in a.targets:
                    if isinstance(t, ast.Subscript) and attr_path(t.value) == "self._active_share_map" \
                            and self.fx.norm(n, t.slice) == "shnum":
                        out.add("active-")
            for c in node_calls(n):
                nm = self.callee_name(n, c)
                if nm == "self._active_share_map.pop" and self.args_are(n, c, "shnum"):
                    out.add("active-")
                if nm in ("self._overdue_share_map.discard", "self._overdue_share_map.remove") \
                        and self.args_are(n, c, "shnum", "share"):
                    out.add("overdue-")
                if nm == "self._overdue_share_map.add" and self.args_are(n, c, "shnum", "share"):
                    out.add("overdue+")
                out |= self.helper_effects(n, c, X)
            if "self._blocks[]" in node_stores(n):
                # only the handler itself is trusted with the block store (C03.2 checks the value nowhere either)
                if self.f is fn:
                    out.add("block")
            return out

        def helper_effects(self, n, c, X):
            if self.depth <= 0 or not isinstance(c.func, ast.Attribute) or attr_path(c.func.value) != "self":
                return set()
            h = self.f.cls.lookup(c.func.attr) if self.f.cls is not None else None
            if h is None or h is fn or h is self.f or any(isinstance(a, ast.Starred) for a in c.args) \
                    or any(k.arg is None for k in c.keywords):
                return set()
            if any(isinstance(x, (ast.Yield, ast.YieldFrom, ast.Await)) for x in func_own_nodes(h)) \
                    or isinstance(h.node, ast.AsyncFunctionDef) or h.node.decorator_list:
                return set()
            ps = first_positional_params(h)
            bound = {}
            for prm, a in zip(ps, c.args):
                bound[prm] = a
            for k in c.keywords:
                if k.arg in ps and k.arg not in bound:
                    bound[k.arg] = k.value
            rename = {}
            for prm, a in bound.items():
                t = self.fx.norm(n, a)
                if re.match(r"^[A-Za-z_]\w*$", t or ""):
                    rename[prm] = t
            # a local or unbound parameter of the helper must not be mistaken for the handler's share / shnum / state
            shadow = {"share", "shnum", "state"}
            hstores = set()
            for hn in h.cfg().nodes:
                if hn.kind not in ("entry", "exit", "raise"):
                    hstores |= {t for t in node_stores(hn) if re.match(r"^[A-Za-z_]\w*$", t)}
            if hstores & set(rename):
                return set()                         # the helper re-binds a parameter
            for nm in (set(h.params) | hstores) - set(rename):
                if nm in shadow:
                    rename[nm] = "<local %s of %s>" % (nm, h.name)
            key = (h.qual, tuple(sorted(rename.items())), X)
            if key not in summaries:
                summaries[key] = frozenset()         # recursion guard
                b = Body(h, rename, self.depth - 1)
                ends = b.ends(X)
                summaries[key] = frozenset.intersection(*ends) if ends else frozenset()
            return set(summaries[key])

        def ends(self, X):
            top = self.f is fn

            def transfer(n, lab, nxt, st):
                if n.kind in ("entry", "exit", "raise"):
                    return st
                if lab == "exc":
                    return st
                f = self.fx.edge_fact(n, lab)
                if f:
                    if (top and f == ("false", "self._running", None)) or not consistent(f, X):
                        return None
                    if nothing_to_remove(f):
                        st = st | {"active-"}
                e = self.effects(n, X)
                return st | frozenset(e) if e else st
            self.visited, self.parent = explore(self.cfg, frozenset(), transfer)
            return [st for (nid, st) in self.visited if nid == self.cfg.exit.id]

    words = {"active-": "removing it from _active_share_map", "overdue-": "discarding it from _overdue_share_map",
             "overdue+": "adding it to _overdue_share_map", "block": "storing the validated block"}
    why = {"active-": "the loop keeps counting the request as outstanding and never asks another share",
           "overdue-": "the k-count of the no-more-shares test keeps counting a finished share and the read never fails",
           "overdue+": "the no-more-shares test forgets a slow share and reports not-enough-shares while it may still answer",
           "block": "the block is lost and the segment can never reach k blocks"}
    kept = [v for v in rule.violations if "can be handled without" not in v.msg]
    rule.violations = kept
    for X in c03.TERMINAL + ("OVERDUE",):
        need = {"active-", "overdue-"} if X in c03.TERMINAL else {"active-", "overdue+"}
        if X == "COMPLETE":
            need = need | {"block"}
        top = Body(fn, None, 2)
        ends = top.ends(X)
        rule.count(len(top.visited))
        if not ends:
            raise AnalysisError("C46.6.2: no path of _block_request_activity is consistent with state %s" % X)
        reported = set()
        for st in ends:
            for m in sorted(need - st):
                if m in reported:
                    continue
                reported.add(m)
                w = witness(cfg, top.parent, (cfg.exit.id, st))
                rule.violation(fn, fn.loc(), "a share reporting %s can be handled without %s, in the handler or in the "
                               "helpers it calls: %s (path: %s)" % (X, words[m], why[m], w.brief()), w)


def run(ctx: Context):   # noqa: F811
    _run_termination(ctx)
    ctx.include("C03", ["C03.1", "C03.2", "C03.3", "C03.6", "C03.7"], "C46.6")
    for rule in ctx.rules:
        if rule.id == "C46.6.2":
            try:
                _bookkeeping_through_helpers(ctx, rule)
            except AnalysisError as e:
                # fail closed: the adopted verdict (violations included) stands and the problem is reported
                ctx.analysis_errors.append("C46.6.2: helper-following re-decision failed: %s" % e)
