"""C47 A successful mutable publish is recoverable.

Decided: the only route to the success report (`Publish._done`) and the
bookkeeping that makes the count of live writers an honest count of
acknowledged shares (DESIGN.md section 5, C47)."""
from fractions import Fraction

from sa.h import *
from sa.cfg import reaching_defs

EXPLANATION = (
    "Decided (structural, all paths): (1) Publish._done is called only from Publish._push, and every path to that "
    "call has observed required_shares <= len(self.writers), not self.surprised, and a state that is neither "
    "PUSHING_BLOCKS nor PUSHING_EVERYTHING_ELSE; (2) the DONE state is stored only by the callback that "
    "push_everything_else registers on finish_publishing()'s Deferred before _push, and finish_publishing returns a "
    "DeferredList over every writer's Deferred (no fire-on-first option); (3) on every writer Deferred the server's "
    "answer reaches _got_write_answer(writer) unchanged and a failure reaches _connection_problem(writer) unswallowed "
    "(earlier callbacks are pass-through; a closure standing in for either handler must call it on every normal path for "
    "the writer bound when it is registered - registration argument or default value evaluated in that writer's iteration - "
    "never for a variable of finish_publishing that the loop re-binds before the closure fires), and _connection_problem "
    "discards exactly that writer; (4) in "
    "_got_write_answer every normal exit with a false 'wrote' has stored self.surprised = True, and the "
    "servermap/placed tables record the share only under wrote and a set versioninfo, for this writer's (server, "
    "shnum); (5) _failure delivers NotEnoughServersError when not surprised and UncoordinatedWriteError when "
    "surprised to done_deferred, and only _done/_failure fire done_deferred; (6) self.surprised is cleared and "
    "writers are added only in publish()/update() before the first _push, True is the only value stored "
    "elsewhere; (7) update_goal places homeless shares only with a non-empty server list and raises "
    "NotEnoughServersError otherwise; (8) the write proxies return the remote test-and-set call's own Deferred "
    "(callbacks added in layout.py are pass-through), so 'wrote' is the server's verdict; (5b) publish()/update() "
    "return self.done_deferred on every normal path; (10) every normal exit of _push that has not observed both "
    "required_shares <= len(self.writers) and not self.surprised has called self._failure(), so too few live writers "
    "always end in an error report; (11) publish()/update() file each writer in self.writers under the share number "
    "it was built for (first constructor argument), and both write proxies keep exactly that number in self.shnum, so "
    "len(self.writers) counts distinct share numbers and _connection_problem discards under the same key; (12) "
    "StorageServer.slot_testv_and_readv_and_writev answers (verdict, read_data) where verdict is the result of "
    "_evaluate_test_vectors (or a constant refusal), and every return on which that verdict has not been observed "
    "false has called _evaluate_write_vectors - a true acknowledgement means the write vectors were applied; (9) "
    "adopted from C12: non-empty test vectors pinned to the surveyed version (C12.1-3, C12.15), sticky whole-checkstring "
    "surprise detection over a surprise set that starts from every share of the answer (C12.4, C12.11), the answer "
    "reaches the handler unchanged (C12.5), no local of _got_write_answer is read unbound before the marking "
    "(C12.10: the NameError would be swallowed by the DeferredList), and the server applies write vectors only under a "
    "passed test-vector evaluation that stops at the first failing vector (C12.9), and no protocol hop between the write proxy "
    "and the share comparison drops, filters, re-keys or recomputes any part of a test vector - both IStorageServer adapters, "
    "the HTTP body and handler, the Foolscap server object, and check_testv comparing `length` bytes at `offset` with the "
    "whole specimen (C12.16-18: a size recomputed from the specimen turns the 'slot must be empty' guard (0, 1, b'') into a test "
    "every share passes); (13) adopted from C23.9/C23.10: the same hops hand on the writer's own write vectors, new_length and "
    "read vector, element by element, and the HTTP handler answers the server's verdict and reads; (14) the answer's way back: "
    "the Foolscap adapter returns callRemote('slot_testv_and_readv_and_writev')'s own Deferred (pass-through callbacks only), the "
    "HTTP client builds its result object from the decoded response, and the HTTP adapter returns (verdict field, reads field) "
    "of that object where each field is filled from the response key under which the handler sent that element of the storage "
    "server's answer - so the 'wrote' the publisher tests is the server's verdict on both transports. "
    "Undecided: what _evaluate_write_vectors / MutableShareFile.writev put on disk, what _read_share_data returns for an "
    "offset / length, CBOR / Foolscap (de)serialisation and HTTP status handling (C31), the bytes of the shares (hash trees, "
    "signature, offsets - a publish of malformed shares is still acknowledged), exceptions other than unbound names "
    "raised inside _got_write_answer before self.surprised = True (swallowed by the DeferredList, value-level), that "
    "finish_publishing's loops visit every live writer (iteration narrowing is value-level), which servers update_goal "
    "picks and whether k distinct servers are used, liveness of the success path (_done's _running guard, returned "
    "Deferreds of push_segment/push_everything_else), DictOfSets arithmetic, Deferred scheduling inside Twisted.")
TECHNIQUE = ("static analysis: CFG path rules with linear edge facts, who-may-call/who-may-write sweeps, Deferred chain model with "
             "closure binding analysis, provenance of the vectors and of the answer across protocol hops")

PUB = "mutable.publish:Publish"
SDMFW = "mutable.layout:SDMFSlotWriteProxy"
MDMFW = "mutable.layout:MDMFSlotWriteProxy"
REMOTE = "slot_testv_and_readv_and_writev"
SRV = "storage.server:StorageServer"

_W_ATOM = re.compile(r"^len\((?:set\(|list\()?self\.writers(?:\.keys\(\))?\)?\)$")


# ------------------------------------------------------------------ helpers
def _lin_fact(fnorm, n, lab):
    """Edge fact as a linear inequality: (strict, Poly d) meaning 0 < d / 0 <= d, or None."""
    if n.kind != "test" or not isinstance(lab, tuple):
        return None
    e, pol = n.ast, lab[0] == "T"
    for _ in range(4):
        while isinstance(e, ast.UnaryOp) and isinstance(e.op, ast.Not):
            e, pol = e.operand, not pol
        r = fnorm.resolve(n, e)
        if r is e:
            break
        e = r
    if not (isinstance(e, ast.Compare) and len(e.ops) == 1):
        return None
    op, l, r = type(e.ops[0]), e.left, e.comparators[0]
    if not pol:
        op = {ast.Lt: ast.GtE, ast.LtE: ast.Gt, ast.Gt: ast.LtE, ast.GtE: ast.Lt}.get(op)
    if op in (ast.Gt, ast.GtE):
        op, l, r = ({ast.Gt: ast.Lt, ast.GtE: ast.LtE}[op]), r, l
    if op not in (ast.Lt, ast.LtE):
        return None
    nz = fnorm.at(n)
    try:
        return (op is ast.Lt, nz.poly(r) - nz.poly(l))
    except Exception:
        return None


def _enough_writers(fnorm):
    """Gate: the edge implies  self.required_shares <= len(self.writers)."""
    def gate(n, lab):
        f = _lin_fact(fnorm, n, lab)
        if f is None:
            return False
        strict, d = f
        c, w, k = Fraction(0), 0, 0
        for term, coef in d.t.items():
            if term == ():
                c = coef
            elif len(term) == 1 and _W_ATOM.match(term[0]):
                w += coef
            elif term == ("self.required_shares",):
                k += coef
            else:
                return False
        if w != 1 or k != -1:
            return False
        # 0 <= W - K + c needs c <= 0 ; 0 < W - K + c needs c <= 1
        return c <= (1 if strict else 0)
    return gate


def _sweep(idx, name):
    """Every call ``X.name(..)`` and every other load of an attribute ``X.name`` in the package, *including
    lambda bodies* (the engine's call-graph sweeps do not enter lambdas): (fn, node, receiver expr, 'call'|'ref')."""
    cache = idx.__dict__.setdefault("_lambda_sweep_cache", {})
    out = []
    for fn in idx.funcs.values():
        if name not in fn.module.source:
            continue
        ent = cache.get(fn.qual)
        if ent is None:
            nodes = [n for n in func_own_nodes(fn, into_lambda=True) if isinstance(n, (ast.Call, ast.Attribute))]
            callfuncs = {id(n.func) for n in nodes if isinstance(n, ast.Call)}
            ent = cache[fn.qual] = (nodes, callfuncs)
        nodes, callfuncs = ent
        for n in nodes:
            if isinstance(n, ast.Call):
                if isinstance(n.func, ast.Attribute) and n.func.attr == name:
                    out.append((fn, n, n.func.value, "call"))
            elif n.attr == name and isinstance(n.ctx, ast.Load) and id(n) not in callfuncs:
                out.append((fn, n, n.value, "ref"))
    return out


def _method_uses(idx, cg, tail, owner, foreign_prefix="allmydata.mutable"):
    """Calls and bare attribute references ``X.tail`` that can denote `owner`'s method: receiver ``self``
    inside the owner class (or a subclass), or any non-self receiver inside `foreign_prefix`."""
    out = []
    for (fn, node, recv, kind) in _sweep(idx, tail):
        if isinstance(recv, ast.Name) and recv.id == "self":
            if fn.cls is not None and owner in fn.cls.mro():
                out.append((fn, node, kind))
        elif fn.module.name.startswith(foreign_prefix):
            out.append((fn, node, kind))
    return out


def _class_funcs(ci):
    """Methods of a class and their nested functions (recursively)."""
    out, stack = [], list(ci.methods.values())
    while stack:
        f = stack.pop()
        out.append(f)
        stack.extend(v for k, v in f.nested.items() if not k.startswith("<lambda"))
    return out


def _fact_gate(fnorm, pred):
    def gate(n, lab):
        f = fnorm.edge_fact(n, lab)
        return bool(f) and bool(pred(*f))
    return gate


def _callable_info(idx, fn, target):
    """Resolve a registered callback to (FuncInfo, first positional parameter) or None."""
    if isinstance(target, ast.Lambda):
        lf = idx.lambda_func(fn, target)
        ps = first_positional_params(lf)
        return (lf, ps[0] if ps else None)
    if isinstance(target, ast.Name):
        p = fn
        while p is not None:
            if target.id in p.nested:
                g = p.nested[target.id]
                ps = first_positional_params(g)
                return (g, ps[0] if ps else None)
            p = p.parent
        return None
    if isinstance(target, ast.Attribute) and isinstance(target.value, ast.Name) and target.value.id == "self" \
            and fn.cls is not None:
        g = fn.cls.lookup(target.attr)
        if g is not None:
            ps = first_positional_params(g)
            return (g, ps[0] if ps else None)
    return None


def _is_pass_through(idx, fn, target):
    """The callable returns its first argument on every normal path."""
    info = _callable_info(idx, fn, target)
    if info is None or info[1] is None:
        return False
    g, p = info
    cfg = g.cfg()

    def ret_param(n):
        return is_return(n) and isinstance(n.ast.value, ast.Name) and n.ast.value.id == p
    bad = find_path_avoiding(cfg, lambda n: n.kind == "exit", gate_node=ret_param, kill=stores(p))
    return not bad


def _tname(reg, which="target"):
    t = reg.target if which == "target" else reg.errtarget
    if t is None:
        return ""
    if isinstance(t, ast.Attribute):
        return attr_path(t) or ""
    if isinstance(t, ast.Name):
        return t.id
    return "<expr>"


def _reg_args(reg, side):
    """Extra positional args given to the callback on the success / failure side."""
    if reg.kind != "pair":
        return list(reg.args)
    kw = kwarg(reg.call, "callbackArgs" if side == "ok" else "errbackArgs")
    if kw is None and side == "ok" and len(reg.call.args) > 2:
        kw = reg.call.args[2]
    if kw is None and side == "err" and len(reg.call.args) > 4:
        kw = reg.call.args[4]
    if isinstance(kw, (ast.Tuple, ast.List)):
        return list(kw.elts)
    return []


def _node_of(cfg, astnode):
    """CFG node whose statement is / whose own expressions contain `astnode` (lambda bodies included, nested defs not)."""
    for n in cfg.nodes:
        if n.ast is astnode:
            return n
    for n in cfg.nodes:
        for e in node_exprs(n):
            if any(x is astnode for x in own_nodes(e, into_lambda=True)):
                return n
    return None


def _forwarder(idx, fn, tgt, method):
    """`tgt`, registered on a Deferred inside `fn`, is a closure (nested def / lambda) that calls self.<method>:
    (closure FuncInfo, its first parameter, [the self.<method>(..) calls]) or None."""
    if not isinstance(tgt, (ast.Name, ast.Lambda)):
        return None
    info = _callable_info(idx, fn, tgt)
    if info is None:
        return None
    g, p0 = info
    calls = [c for c in calls_in_func(g, method) if call_name(c) == "self." + method]
    if not calls:
        return None
    return g, p0, calls


def _closure_defaults(g):
    """{parameter name: default expression} of a def / lambda."""
    a = g.node.args
    pos = list(getattr(a, "posonlyargs", [])) + list(a.args)
    out = {}
    for p, d in zip(pos[len(pos) - len(a.defaults):], a.defaults):
        out[p.arg] = d
    for p, d in zip(a.kwonlyargs, a.kw_defaults):
        if d is not None:
            out[p.arg] = d
    return out


def _check_forwarder(r, idx, fn, dn, dv, wv, reg, side, fw, method, wname):
    """A closure stands between the writer Deferred and self.<method>: it must make the call on every normal path and
    hand it the writer *of this Deferred* - bound when the closure is registered (extra registration argument, default
    value), not a variable of finish_publishing that the closure reads when it finally fires: by then the loop has
    moved on and every closure sees the last writer."""
    g, p0, calls = fw
    cfg = fn.cfg()
    gcfg = g.cfg()
    what = "errback" if side == "err" else "callback"
    gname = g.name if g.name != "<lambda>" else "lambda"

    def forwards(n):
        return any(call_name(c) == "self." + method for c in node_calls(n))
    for (n, w) in find_path_avoiding(gcfg, lambda n: n.kind == "exit", gate_node=forwards):
        r.violation(fn, fn.loc(reg.call), "the %s %s on the writer Deferred %s can finish without calling %s: %s (path: %s)" % (
            what, gname, dv, method, "a failed write leaves its writer counted as live" if side == "err"
            else "the write answer is not examined", w.brief()), w)
        break
    rd = reaching_defs(cfg)
    here = rd.get(dn.id, {}).get(wv)
    regnode = _node_of(cfg, reg.call)
    if regnode is None:
        raise AnalysisError("registration of %s not found in the CFG of %s" % (gname, short(fn)))
    gfn = FlowNorm(g)
    locals_g = set(g.params)
    for m in gcfg.nodes:
        locals_g |= {s for s in node_stores(m) if "." not in s and not s.endswith("[]")}
    extra = _reg_args(reg, "ok" if side == "ok" else "err")
    defaults = _closure_defaults(g)
    for c in calls:
        cn = _node_of(gcfg, c)
        if side == "ok":
            a0 = arg(c, 0, None)
            a0 = gfn.resolve(cn, a0) if (cn is not None and a0 is not None) else a0
            ok = isinstance(a0, ast.Name) and a0.id == p0 and not any(p0 in node_stores(m) for m in gcfg.nodes)
            r.require(ok, fn, fn.loc(c), "the callback %s hands %s to %s, not the server's answer it received" % (
                gname, src(g, a0) if a0 is not None else "nothing", method))
        x = arg(c, 1, wname)
        if x is not None and cn is not None:
            x = gfn.resolve(cn, x)
        if not isinstance(x, ast.Name):
            r.violation(fn, fn.loc(c), "the %s %s calls %s for %s, not for the writer %s whose Deferred it is registered on" % (
                what, gname, method, src(g, x) if x is not None else "no writer", wv))
            continue
        stored_in_g = any(x.id in node_stores(m) for m in gcfg.nodes)
        if x.id in g.params and not stored_in_g:
            i = g.params.index(x.id)
            bound = extra[i - 1] if 1 <= i <= len(extra) else None
            at = regnode
            if bound is None and x.id in defaults:
                bound = defaults[x.id]
                # defaults are evaluated where the def statement / lambda expression is
                at = regnode if isinstance(g.node, ast.Lambda) else _node_of(cfg, g.node)
            same = isinstance(bound, ast.Name) and bound.id == wv and at is not None \
                and rd.get(at.id, {}).get(wv) == here
            r.require(same, fn, fn.loc(reg.call), "the %s %s is registered on the Deferred of writer %s but its parameter %s "
                      "is bound to %s" % (what, gname, wv, x.id, src(fn, bound) if bound is not None else "nothing"))
            continue
        if x.id in locals_g:
            r.violation(fn, fn.loc(c), "the %s %s calls %s for its local %s, not for the writer %s" % (
                what, gname, method, x.id, wv))
            continue
        # a free variable: read from finish_publishing's frame when the closure fires
        late = find_path_from_to_avoiding(cfg, lambda m: m is regnode, lambda m: False,
                                          ends=lambda m, _v=x.id: _v in node_stores(m))
        if late:
            s0, w = late[0]
            r.violation(fn, fn.loc(reg.call), "the %s %s on the writer Deferred %s reads %s from the enclosing frame when it fires, and "
                        "%s re-binds %s before that (late-binding closure): every %s is attributed to the last writer of the "
                        "loop%s (path: %s)" % (
                            what, gname, dv, x.id, short(fn), x.id, "failed write" if side == "err" else "answer",
                            ", the writer that failed stays counted as a placed share" if side == "err" else "", w.brief()), w)
            continue
        r.require(x.id == wv, fn, fn.loc(c), "the %s %s calls %s for %s, not for the writer %s whose Deferred it is "
                  "registered on" % (what, gname, method, x.id, wv))


def _writer_chain(r, idx, fn):
    """finish_publishing: per-writer Deferred chain.  Returns the number of writer Deferreds."""
    cfg = fn.cfg()
    dvars = []
    for n in cfg.nodes:
        if n.kind == "stmt" and isinstance(n.ast, ast.Assign) and isinstance(n.ast.value, ast.Call) \
                and call_tail(n.ast.value) == "finish_publishing" and len(n.ast.targets) == 1 \
                and isinstance(n.ast.targets[0], ast.Name):
            recv = n.ast.value.func.value if isinstance(n.ast.value.func, ast.Attribute) else None
            if isinstance(recv, ast.Name) and recv.id != "self":
                dvars.append((n, n.ast.targets[0].id, recv.id))
    if not dvars:
        raise AnchorVanished("no 'd = <writer>.finish_publishing()' in %s" % short(fn))
    # name of the writer parameter of the two handlers (for closures that pass it by keyword)
    hp = {}
    for m in ("_got_write_answer", "_connection_problem"):
        ps = first_positional_params(idx.func(PUB + "." + m))
        if len(ps) < 2:
            raise AnchorVanished("%s(<result>, writer, ..) signature changed" % m)
        hp[m] = ps[1]
    ga_w, cp_w = hp["_got_write_answer"], hp["_connection_problem"]
    for (dn, dv, wv) in dvars:
        r.site(fn, dn.ast, "writer Deferred %s" % dv)
        chain = registrations(fn, dv)
        ok_intact, fail_alive = True, True
        ok_done = err_done = False
        for reg in chain:
            sides = {"cb": ("ok",), "eb": ("err",), "both": ("ok", "err"), "pair": ("ok", "err")}[reg.kind]
            for side in sides:
                tgt = reg.errtarget if (reg.kind == "pair" and side == "err") else reg.target
                name = (attr_path(tgt) or "") if isinstance(tgt, (ast.Attribute, ast.Name)) else ""
                if side == "ok" and not ok_done:
                    if name == "self._got_write_answer":
                        a = _reg_args(reg, "ok")
                        r.require(ok_intact, fn, fn.loc(reg.call), "the server's answer is replaced by an earlier callback "
                                  "before it reaches _got_write_answer")
                        r.require(bool(a) and isinstance(a[0], ast.Name) and a[0].id == wv, fn, fn.loc(reg.call),
                                  "_got_write_answer is registered for %s, not for the writer %s whose Deferred this is" % (
                                      src(fn, a[0]) if a else "no writer", wv))
                        ok_done = True
                    elif _forwarder(idx, fn, tgt, "_got_write_answer"):
                        r.require(ok_intact, fn, fn.loc(reg.call), "the server's answer is replaced by an earlier callback "
                                  "before it reaches _got_write_answer")
                        _check_forwarder(r, idx, fn, dn, dv, wv, reg, "ok", _forwarder(idx, fn, tgt, "_got_write_answer"),
                                         "_got_write_answer", ga_w)
                        ok_done = True
                    elif not _is_pass_through(idx, fn, tgt):
                        ok_intact = False
                        r.sample("non pass-through success callback %s" % src(fn, tgt))
                if side == "err" and not err_done:
                    if name == "self._connection_problem":
                        a = _reg_args(reg, "err")
                        r.require(fail_alive, fn, fn.loc(reg.call), "a write failure is swallowed by an earlier "
                                  "errback before it reaches _connection_problem")
                        r.require(bool(a) and isinstance(a[0], ast.Name) and a[0].id == wv, fn, fn.loc(reg.call),
                                  "_connection_problem is registered for %s, not for the writer %s whose Deferred this is" % (
                                      src(fn, a[0]) if a else "no writer", wv))
                        err_done = True
                    elif _forwarder(idx, fn, tgt, "_connection_problem"):
                        r.require(fail_alive, fn, fn.loc(reg.call), "a write failure is swallowed by an earlier "
                                  "errback before it reaches _connection_problem")
                        _check_forwarder(r, idx, fn, dn, dv, wv, reg, "err", _forwarder(idx, fn, tgt, "_connection_problem"),
                                         "_connection_problem", cp_w)
                        err_done = True
                    elif not _is_pass_through(idx, fn, tgt):
                        fail_alive = False
        r.require(ok_done, fn, fn.loc(dn.ast), "_got_write_answer is not registered as a callback on the writer "
                  "Deferred %s (write answers are never examined)" % dv)
        r.require(err_done, fn, fn.loc(dn.ast), "_connection_problem is not registered as an errback on the writer "
                  "Deferred %s (a failed write leaves its writer counted as live)" % dv)
    return dvars


def run(ctx: Context):
    idx = ctx.idx
    cg = get_callgraph(idx)
    pub = idx.cls(PUB)

    # -- 1. _done only from _push, under the three facts --------------------
    with ctx.rule("C47.1", "R4/R1", "Publish._done is called only from _push; every path to it has observed "
                  "required_shares <= len(self.writers), not self.surprised, and state not in {PUSHING_BLOCKS, "
                  "PUSHING_EVERYTHING_ELSE}", expected=4) as r:
        push = idx.func(PUB + "._push")
        idx.func(PUB + "._done")
        uses = _method_uses(idx, cg, "_done", pub)
        if not uses:
            raise AnchorVanished("no caller of Publish._done")
        r.site("callers/references of Publish._done: %d" % len(uses))
        for (f, nd, kind) in uses:
            if kind == "call" and f is push:
                continue
            r.violation(f, f.loc(nd), "%s %s _done: success is reported outside _push's checks" % (
                short(f), "calls" if kind == "call" else "passes around"))
        cfg = push.cfg()
        fnorm = FlowNorm(push)
        tgt = has_call("_done")
        tn = cfg.find(tgt)
        if not tn:
            raise AnchorVanished("_push no longer calls _done")
        # the target call must be the plain self._done() (not into a lambda run later)
        for n in tn:
            for c in calls_at(n, "_done"):
                r.require(call_name(c) == "self._done", push, push.loc(c), "unexpected receiver %s" % call_name(c))

        def run_gate(label, gate, kill):
            r.site(push, tn[0].ast, "gate " + label)
            r.count(len(cfg.nodes))
            for (n, w) in find_path_avoiding(cfg, tgt, gate_edge=gate, kill=kill):
                r.violation(push, push.loc(n.ast), "_done() is reachable without having observed %s (path: %s)" % (
                    label, w.brief()), w)
        run_gate("required_shares <= len(self.writers)", _enough_writers(fnorm),
                 stores_any(["self.writers", "self.required_shares"]))
        run_gate("not self.surprised", _fact_gate(fnorm, lambda op, l, rr: op == "false" and l == "self.surprised"),
                 stores("self.surprised"))
        for st in ("PUSHING_BLOCKS_STATE", "PUSHING_EVERYTHING_ELSE_STATE"):
            def g(op, l, rr, _st=st):
                if rr is None:
                    return False
                return (op == "!=" and {l, rr} == {_st, "self._state"}) or \
                       (op in ("==", "is") and {l, rr} == {"DONE_STATE", "self._state"})
            find = _fact_gate(fnorm, g)
            for (n, w) in find_path_avoiding(cfg, tgt, gate_edge=find, kill=stores("self._state")):
                r.violation(push, push.loc(n.ast), "_done() is reachable while the state may still be %s (path: %s)" % (
                    st, w.brief()), w)
        r.site(push, tn[0].ast, "gate state")
        # the three state constants are distinct
        folder = get_folder(idx)
        vals = [folder.module_const("mutable.publish", s) for s in
                ("PUSHING_BLOCKS_STATE", "PUSHING_EVERYTHING_ELSE_STATE", "DONE_STATE")]
        r.require(len(set(vals)) == 3, push, push.loc(), "publish state constants are not distinct: %r" % (vals,))

    # -- 2. DONE state only after every write answered ----------------------
    with ctx.rule("C47.2", "R4/E7", "DONE_STATE is stored only by the callback registered on finish_publishing()'s "
                  "Deferred before _push; finish_publishing returns a DeferredList over every writer Deferred",
                  expected=3) as r:
        pe = idx.func(PUB + ".push_everything_else")
        n_done_stores = 0
        for (f, nd) in cg.attr_stores("_state"):
            if f.cls is not pub:
                continue
            for n in f.cfg().nodes:
                v = assign_value(n, "self._state")
                if v is None:
                    continue
                if not any(x is nd for x in ast.walk(n.ast)):
                    continue
                if isinstance(v, ast.Name) and v.id in ("PUSHING_BLOCKS_STATE", "PUSHING_EVERYTHING_ELSE_STATE"):
                    continue
                n_done_stores += 1
                r.site(f, n.ast, "state store")
                ok = f.parent is pe and isinstance(v, ast.Name) and v.id == "DONE_STATE"
                r.require(ok, f, f.loc(n.ast), "%s stores %s into self._state: the DONE state may be entered before "
                          "the write answers arrived" % (short(f), src(f, v)))
        if n_done_stores == 0:
            raise AnchorVanished("no store of DONE_STATE")
        # registration order on the Deferred of finish_publishing()
        dvar = None
        for n in func_own_nodes(pe):
            if isinstance(n, ast.Assign) and isinstance(n.value, ast.Call) and call_name(n.value) == "self.finish_publishing" \
                    and len(n.targets) == 1:
                dvar = attr_path(n.targets[0])
        if dvar is None:
            raise AnchorVanished("push_everything_else: Deferred of self.finish_publishing() not found")
        chain = registrations(pe, dvar)
        r.site(pe, None, "chain " + " ".join(map(repr, chain)))
        setter = [i for i, x in enumerate(chain) if x.kind == "cb" and isinstance(x.target, ast.Name)
                  and x.target.id in pe.nested
                  and any("self._state" in node_stores(m) for m in pe.nested[x.target.id].cfg().nodes)]
        pushi = [i for i, x in enumerate(chain) if x.target_name() == "self._push"]
        r.require(bool(setter), pe, pe.loc(), "the DONE-state setter is not a callback of finish_publishing()'s Deferred")
        r.require(bool(pushi), pe, pe.loc(), "_push is not chained after finish_publishing()")
        if setter and pushi:
            r.require(setter[0] < pushi[0], pe, pe.loc(chain[pushi[0]].call),
                      "_push is registered before the DONE-state setter")
            r.require(chain[pushi[0]].kind in ("cb", "both"), pe, pe.loc(chain[pushi[0]].call), "_push registered as errback")
        # nothing in push_everything_else calls _push / _done directly
        for c in calls_in_func(pe, "_push") + calls_in_func(pe, "_done"):
            r.violation(pe, pe.loc(c), "push_everything_else calls %s synchronously, before the writes were answered" % call_name(c))
        # finish_publishing's return value
        fp = idx.func(PUB + ".finish_publishing")
        cfg = fp.cfg()
        fnorm = FlowNorm(fp)
        dvars = [(n, n.ast.targets[0].id) for n in cfg.nodes if n.kind == "stmt" and isinstance(n.ast, ast.Assign)
                 and isinstance(n.ast.value, ast.Call) and call_tail(n.ast.value) == "finish_publishing"
                 and len(n.ast.targets) == 1 and isinstance(n.ast.targets[0], ast.Name)]
        if not dvars:
            raise AnchorVanished("finish_publishing: writer Deferred not found")
        rets = cfg.find(is_return)
        r.require(bool(rets), fp, fp.loc(), "finish_publishing returns nothing")
        lists = set()
        for n in rets:
            v = fnorm.resolve(n, n.ast.value) if n.ast.value is not None else None
            ok = isinstance(v, ast.Call) and call_tail(v) in ("DeferredList", "gatherResults") and v.args \
                and isinstance(v.args[0], ast.Name)
            r.require(ok, fp, fp.loc(n.ast), "finish_publishing returns %s, not a DeferredList over the writer Deferreds" % (
                src(fp, n.ast.value)))
            if ok:
                lists.add(v.args[0].id)
                for kwn in ("fireOnOneCallback",):
                    kv = kwarg(v, kwn)
                    r.require(kv is None or (isinstance(kv, ast.Constant) and not kv.value), fp, fp.loc(v),
                              "DeferredList(%s=..) fires on the first answer" % kwn)
                r.require(len(v.args) < 2, fp, fp.loc(v), "DeferredList is given positional options")
        for (dn, dv) in dvars:
            r.site(fp, dn.ast, "writer Deferred collected")

            def appended(m, _dv=dv):
                for c in calls_at(m, "append"):
                    if isinstance(c.func.value, ast.Name) and c.func.value.id in lists and len(c.args) == 1 \
                            and isinstance(c.args[0], ast.Name) and c.args[0].id == _dv:
                        return True
                return False
            bad = find_path_from_to_avoiding(cfg, lambda m: m is dn, appended,
                                             ends=lambda m: m.kind in ("exit", "iter"))
            for (s, w) in bad:
                r.violation(fp, fp.loc(s.ast), "the writer Deferred %s can miss the list the DeferredList waits for "
                            "(path: %s)" % (dv, w.brief()), w)

    # -- 3. per-writer chain and _connection_problem ------------------------
    with ctx.rule("C47.3", "E7/R2", "every writer Deferred: failure reaches _connection_problem(writer) unswallowed, "
                  "answer reaches _got_write_answer(writer) unchanged; _connection_problem discards that writer",
                  expected=2) as r:
        fp = idx.func(PUB + ".finish_publishing")
        _writer_chain(r, idx, fp)
        cp = idx.func(PUB + "._connection_problem")
        ps = first_positional_params(cp)
        if len(ps) < 2:
            raise AnchorVanished("_connection_problem(f, writer) signature changed")
        wparam = ps[1]
        r.site(cp, None, "discard")
        nrm = N(cp)

        def discards(n):
            for c in calls_at(n, "discard"):
                if call_name(c) == "self.writers.discard" and len(c.args) == 2 \
                        and nrm.norm(c.args[0]) == wparam + ".shnum" and nrm.norm(c.args[1]) == wparam:
                    return True
            return False
        cfg = cp.cfg()
        r.count(len(cfg.nodes))
        for (n, w) in find_path_avoiding(cfg, lambda n: n.kind == "exit", gate_node=discards, kill=stores(wparam)):
            r.violation(cp, cp.loc(), "_connection_problem can return without self.writers.discard(%s.shnum, %s): a failed "
                        "writer stays counted as a placed share (path: %s)" % (wparam, wparam, w.brief()), w)

    # -- 4. _got_write_answer ------------------------------------------------
    with ctx.rule("C47.4", "R2/R1", "_got_write_answer: a false 'wrote' always ends with self.surprised = True; "
                  "servermap/placed are updated only under wrote and versioninfo for this writer's (server, shnum)",
                  expected=3) as r:
        ga = idx.func(PUB + "._got_write_answer")
        _not_wrote_surprised(r, ga)
        cfg = ga.cfg()
        fnorm = FlowNorm(ga)
        ps = first_positional_params(ga)
        ans, wr = ps[0], ps[1]
        wrote = _fact_gate(fnorm, lambda op, l, rr: op == "truth" and l == ans + "[0]")
        vinfo = _fact_gate(fnorm, lambda op, l, rr: op == "truth" and l == "self.versioninfo")

        def records(n):
            return any(call_name(c) in ("self._servermap.add_new_share", "self.placed.add") for c in node_calls(n))
        rec = cfg.find(records)
        if len(rec) < 2:
            raise AnchorVanished("_got_write_answer no longer records placements (add_new_share / placed.add)")
        for n in rec:
            r.site(ga, n.ast, "placement record")
            for c in node_calls(n):
                if call_name(c) == "self._servermap.add_new_share":
                    got = [fnorm.norm(n, a) for a in c.args[:3]]
                    r.require(got == [wr + ".server", wr + ".shnum", "self.versioninfo"], ga, ga.loc(c),
                              "servermap records %s instead of (%s.server, %s.shnum, self.versioninfo)" % (got, wr, wr))
                if call_name(c) == "self.placed.add":
                    got = fnorm.norm(n, c.args[0]) if c.args else None
                    r.require(got == norm_src("(%s.server, %s.shnum)" % (wr, wr)), ga, ga.loc(c),
                              "placed records %s instead of this writer's (server, shnum)" % got)
        r.count(len(cfg.nodes) * 2)
        for (n, w) in find_path_avoiding(cfg, records, gate_edge=wrote, kill=stores(ans)):
            r.violation(ga, ga.loc(n.ast), "a share is recorded as placed without the server having reported wrote=True "
                        "(path: %s)" % w.brief(), w)
        for (n, w) in find_path_avoiding(cfg, records, gate_edge=vinfo, kill=stores("self.versioninfo")):
            r.violation(ga, ga.loc(n.ast), "a share is recorded in the servermap before versioninfo is set "
                        "(path: %s)" % w.brief(), w)

    # -- 5. _failure ---------------------------------------------------------
    with ctx.rule("C47.5", "R3/R4", "_failure delivers NotEnoughServersError (not surprised) / UncoordinatedWriteError "
                  "(surprised) to done_deferred; only _done and _failure fire done_deferred; publish()/update() return it",
                  expected=5) as r:
        _failure_mapping(r, idx.func(PUB + "._failure"))
        for mname in ("publish", "update"):
            _returns_result_deferred(r, idx.func(PUB + "." + mname))
        allowed_fire = {idx.func(PUB + "._done").qual, idx.func(PUB + "._failure").qual}
        creators = {idx.func(PUB + ".publish").qual, idx.func(PUB + ".update").qual}
        nrefs = 0
        for (f, nd) in [(f, nd) for (f, nd, _r, k) in _sweep(idx, "done_deferred") if k == "ref"] + \
                cg.attr_stores("done_deferred"):
            if f.cls is not pub:
                continue
            nrefs += 1
            if f.qual in allowed_fire:
                continue
            if f.qual in creators:
                # creation and 'return self.done_deferred' only
                parent_attr = [x for x in ast.walk(f.node) if isinstance(x, ast.Attribute) and x.value is nd]
                r.require(not parent_attr, f, f.loc(nd), "%s uses self.done_deferred.%s" % (
                    short(f), parent_attr[0].attr if parent_attr else ""))
                continue
            r.violation(f, f.loc(nd), "%s touches done_deferred: the publish result is decided outside _done/_failure" % short(f))
        r.site("references of done_deferred in Publish: %d" % nrefs)
        if nrefs < 4:
            raise AnchorVanished("done_deferred references vanished")
        dn = idx.func(PUB + "._done")
        fires = [c for c in calls_in_func(dn, "eventually") if c.args and attr_path(c.args[0]) == "self.done_deferred.callback"]
        fires += [c for c in calls_in_func(dn, "callback") if call_name(c) == "self.done_deferred.callback"]
        r.site(dn, fires[0] if fires else None, "success delivery")
        r.require(bool(fires), dn, dn.loc(), "_done no longer fires done_deferred")

    # -- 6. who may clear surprised / add writers ---------------------------
    with ctx.rule("C47.6", "R4", "self.surprised is cleared, and writers are created/added, only in publish()/update() "
                  "before the first _push; elsewhere only True is stored into self.surprised", expected=6) as r:
        _surprised_and_writers_discipline(r, idx, cg, pub)

    # -- 7. update_goal -------------------------------------------------------
    with ctx.rule("C47.7", "R1", "update_goal: homeless shares are assigned only with a non-empty server list; an empty "
                  "list raises NotEnoughServersError", expected=2) as r:
        ug = idx.func(PUB + ".update_goal")
        cfg = ug.cfg()
        fnorm = FlowNorm(ug)
        # the list that is indexed to pick a server
        uses = []
        for n in cfg.nodes:
            for e in node_exprs(n):
                for x in own_nodes(e):
                    if isinstance(x, ast.Subscript) and isinstance(x.ctx, ast.Load) and isinstance(x.value, ast.Name) \
                            and x.value.id == "serverlist":
                        uses.append(n)
        if not uses:
            raise AnchorVanished("update_goal no longer indexes serverlist")
        nonempty = _fact_gate(fnorm, lambda op, l, rr: (op == "truth" and l == "serverlist") or
                              (op in ("<", "!=") and {l, rr} == {"0", "len(serverlist)"}))
        for n in set(uses):
            r.site(ug, n.ast, "server pick")
        r.count(len(cfg.nodes))
        for (n, w) in find_path_avoiding(cfg, lambda m: m in uses, gate_edge=nonempty):
            r.violation(ug, ug.loc(n.ast), "a server is picked from serverlist without a non-empty check "
                        "(path: %s)" % w.brief(), w)
        rs = cfg.find(raises("NotEnoughServersError"))
        for n in rs:
            r.site(ug, n.ast, "raise")
        empty = _fact_gate(fnorm, lambda op, l, rr: (op == "false" and l == "serverlist") or
                           (op in ("==", "<=") and {l, rr} == {"0", "len(serverlist)"}))
        # after the 'empty' edge every path ends in the raise exit via NotEnoughServersError
        for n in cfg.nodes:
            for (d, lab) in cfg.succ[n.id]:
                if empty(n, lab):
                    visited, parent = explore(cfg, 0, lambda a, b, c, s: None if raises("NotEnoughServersError")(a) else 0,
                                              start=cfg.nodes[d])
                    for (nid, _s) in visited:
                        if cfg.nodes[nid].kind == "exit" or cfg.nodes[nid] in uses:
                            r.violation(ug, ug.loc(n.ast), "with an empty server list update_goal continues instead of "
                                        "raising NotEnoughServersError", witness(cfg, parent, (nid, 0)))
                            break

    # -- 8. write proxies hand back the remote verdict ----------------------
    with ctx.rule("C47.8", "E7", "SDMF/MDMF finish_publishing return the Deferred of the remote test-and-set call; "
                  "callbacks added in layout.py are pass-through", expected=2) as r:
        _proxy_returns_remote(r, idx)

    # -- 10. too few live writers / a surprise is reported, not dropped ------
    with ctx.rule("C47.10", "R3", "_push: every normal exit that has not observed both required_shares <= "
                  "len(self.writers) and not self.surprised has called self._failure()", expected=2) as r:
        _push_reports_failure(r, idx.func(PUB + "._push"))

    # -- 11. len(self.writers) counts distinct share numbers ------------------
    with ctx.rule("C47.11", "R1", "publish()/update() file every writer in self.writers under the share number the "
                  "writer was built for; both write proxies keep that number in self.shnum (the key "
                  "_connection_problem discards and the key of the test-and-write vector)", expected=4) as r:
        _writers_keyed_by_shnum(r, idx)

    # -- 12. the server's acknowledgement is honest ---------------------------
    with ctx.rule("C47.12", "R3", "StorageServer.slot_testv_and_readv_and_writev: every normal return whose verdict (first "
                  "element) has not been observed false has applied the write vectors (_evaluate_write_vectors)",
                  expected=2) as r:
        _ack_means_written(r, idx.func(SRV + "." + REMOTE))

    # -- 14. the verdict's way back to the write proxy --------------------------
    with ctx.rule("C47.14", "R5/E7", "the (wrote, read_data) answer the write proxies receive is the storage server's: the Foolscap "
                  "adapter returns the Deferred of callRemote('slot_testv_and_readv_and_writev'); the HTTP adapter returns the two "
                  "fields of the read_test_write_chunks result that the HTTP client fills from the response keys under which the "
                  "handler sent the server's verdict and reads, in that order", expected=4) as r:
        _verdict_return_trip(r, idx)


# --------------------------------------------------------------- shared parts
def _push_reports_failure(r, push):
    cfg = push.cfg()
    fnorm = FlowNorm(push)
    enough = _enough_writers(fnorm)
    calm = _fact_gate(fnorm, lambda op, l, rr: op == "false" and l == "self.surprised")
    kill_w = stores_any(["self.writers", "self.required_shares"])
    kill_s = stores("self.surprised")

    def fails(n):
        return any(call_name(c) == "self._failure" for c in node_calls(n))
    # (no self._failure() call at all is a violation of the path rule below, not a vanished anchor)
    r.site(push, None, "failure report sites: %d" % len(cfg.find(fails)))

    def transfer(n, lab, nxt, st):
        ok_w, ok_s, failed = st
        if n.kind in ("entry", "exit", "raise"):
            return st
        if ok_w and kill_w(n):
            ok_w = False
        if ok_s and kill_s(n):
            ok_s = False
        if enough(n, lab):
            ok_w = True
        if calm(n, lab):
            ok_s = True
        if lab != "exc" and fails(n):
            failed = True
        return (ok_w, ok_s, failed)
    visited, parent = explore(cfg, (False, False, False), transfer)
    r.count(len(visited))
    r.site(push, None, "exits")
    seen = set()
    for (nid, st) in sorted(visited):
        if cfg.nodes[nid].kind != "exit":
            continue
        ok_w, ok_s, failed = st
        if failed or (ok_w and ok_s):
            continue
        what = "enough live writers" if not ok_w else "no surprise"
        if what in seen:
            continue
        seen.add(what)
        w = witness(cfg, parent, (nid, st))
        r.violation(push, push.loc(), "_push can return without calling self._failure() although it has not observed %s: "
                    "a publish that cannot place k shares (or met an unexpected version) never reports its error "
                    "(path: %s)" % (what, w.brief()), w)


def _writers_keyed_by_shnum(r, idx):
    n_add = 0
    for mname in ("publish", "update"):
        f = idx.func(PUB + "." + mname)
        cfg = f.cfg()
        fnorm = FlowNorm(f)
        for n in cfg.nodes:
            for c in node_calls(n):
                if call_name(c) != "self.writers.add":
                    continue
                n_add += 1
                r.site(f, c, "writer filed")
                if len(c.args) != 2 or c.keywords:
                    r.violation(f, f.loc(c), "self.writers.add is not called as add(shnum, writer)")
                    continue
                key, wexp = c.args
                made = fnorm.resolve(n, wexp)
                ok = isinstance(made, ast.Call) and made.args and not isinstance(made.args[0], ast.Starred)
                if not ok:
                    r.violation(f, f.loc(c), "%s files %s in self.writers, which is not a freshly built write proxy" % (
                        short(f), src(f, wexp)))
                    continue
                # norm at the defining statement == norm at the add: the loop variable is the same binding
                built_for = fnorm.norm(n, made.args[0])
                r.require(fnorm.norm(n, key) == built_for, f, f.loc(c),
                          "%s files the writer built for share %s under the key %s: len(self.writers) no longer counts "
                          "distinct share numbers" % (short(f), src(f, made.args[0]), src(f, key)))
    if n_add < 2:
        raise AnchorVanished("publish()/update() no longer add writers to self.writers")
    for q in (SDMFW, MDMFW):
        ci = idx.cls(q)
        init = ci.methods.get("__init__")
        if init is None:
            raise AnchorVanished("%s.__init__ vanished" % q)
        ps = first_positional_params(init)
        if not ps:
            raise AnchorVanished("%s.__init__ takes no share number" % q)
        r.site(init, None, "self.shnum")
        found = False
        for g in _class_funcs(ci):
            for n in g.cfg().nodes:
                if "self.shnum" not in node_stores(n):
                    continue
                v = assign_value(n, "self.shnum")
                if v is not None:
                    v = FlowNorm(g).resolve(n, v)
                good = g is init and isinstance(v, ast.Name) and v.id == ps[0] and \
                    not any(ps[0] in node_stores(m) for m in g.cfg().nodes)
                found = found or good
                r.require(good, g, g.loc(n.ast), "%s stores %s into self.shnum, not the share number the proxy was built for" % (
                    short(g), src(g, v) if v is not None else "?"))
        if not found:
            raise AnchorVanished("%s.__init__ no longer stores its share number in self.shnum" % q)


def _truth_source(fnorm, n, e):
    """(polarity, defining AST) of a truth test / value: strips `not`, bool(..) and plain-name copies."""
    pol = True
    for _ in range(8):
        if isinstance(e, ast.UnaryOp) and isinstance(e.op, ast.Not):
            e, pol = e.operand, not pol
        elif isinstance(e, ast.Call) and isinstance(e.func, ast.Name) and e.func.id == "bool" and len(e.args) == 1 \
                and not e.keywords:
            e = e.args[0]
        elif isinstance(e, ast.Name):
            d = fnorm.resolve(n, e)
            if d is e:
                break
            e = d
        else:
            break
    return pol, e


def _ack_means_written(r, fn):
    cfg = fn.cfg()
    fnorm = FlowNorm(fn)
    writes = has_call("_evaluate_write_vectors")
    wn = cfg.find(writes)
    if not wn:
        raise AnchorVanished("no _evaluate_write_vectors call in %s" % short(fn))
    r.site(fn, wn[0].ast, "write vectors applied")
    rets = cfg.find(is_return)
    if not rets:
        raise AnchorVanished("%s returns nothing" % short(fn))
    r.site(fn, rets[0].ast, "verdict returned")
    for (n, w) in find_path_avoiding(cfg, lambda n: n.kind == "exit", gate_node=is_return, skip_exc_edges=True):
        r.violation(fn, fn.loc(), "%s can fall off its end without an answer" % short(fn), w)
    r.count(len(cfg.nodes) * len(rets))

    def refused_by(src_node):
        """Edge gate: the edge has observed the value defined by `src_node` to be false."""
        def gate(n, lab):
            if n.kind != "test" or not isinstance(lab, tuple) or lab[0] not in ("T", "F"):
                return False
            pol, e = _truth_source(fnorm, n, n.ast)
            return e is src_node and pol != (lab[0] == "T")
        return gate
    verdict_calls = [c for n in cfg.nodes for c in calls_at(n, "_evaluate_test_vectors")]
    for ret in rets:
        v = fnorm.resolve(ret, ret.ast.value) if ret.ast.value is not None else None
        if not (isinstance(v, ast.Tuple) and len(v.elts) == 2):
            r.violation(fn, fn.loc(ret.ast), "%s returns %s, not (verdict, read_data)" % (short(fn), src(fn, ret.ast.value)))
            continue
        pol, vsrc = _truth_source(fnorm, ret, v.elts[0])
        if isinstance(vsrc, ast.Constant):
            if bool(vsrc.value) == pol:
                r.violation(fn, fn.loc(ret.ast), "%s answers with the constant verdict %s: the acknowledgement no longer "
                            "says whether the test vectors passed and the share was written" % (short(fn), src(fn, v.elts[0])))
            continue                       # a constant refusal acknowledges nothing
        if not pol or not any(vsrc is c for c in verdict_calls):
            r.violation(fn, fn.loc(ret.ast), "%s answers with %s, which is not the result of _evaluate_test_vectors" % (
                short(fn), src(fn, v.elts[0])))
            continue
        for (t, w) in find_path_avoiding(cfg, lambda x, _r=ret: x is _r, gate_node=writes, gate_edge=refused_by(vsrc),
                                         skip_exc_edges=True):
            r.violation(fn, fn.loc(ret.ast), "%s can answer with a true verdict (%s) without having applied the write vectors: "
                        "the publisher counts a share the server never stored (path: %s)" % (
                            short(fn), src(fn, v.elts[0]), w.brief()), w)


# -- the answer's return trip (C47.14) ------------------------------------------------------------------------
# C47.8 / C47.12 decide both ends: the proxies hand back whatever IStorageServer.slot_testv_and_readv_and_writev gives
# them, and StorageServer's verdict is honest.  In between sit the adapters of storage_client.py and, for HTTP, the
# handler's response dict and the client's decoding.  An adapter answering (True, reads), swapping the two fields, or
# a client reading the verdict from another key makes every rejected write look acknowledged: len(self.writers) stays
# >= k and nothing is surprising, so the publish reports success for shares that were never stored.
AD_FOOLSCAP = "storage_client:_StorageServer"
AD_HTTP = "storage_client:_HTTPStorageServer"
HTTP_CLIENT = "storage.http_client:StorageClientMutables"
HTTP_HANDLER = "storage.http_server:HTTPServer.mutable_read_test_write"


def _strip_wait(e):
    """x for `yield x`, `await x`, `cast(T, x)`."""
    for _ in range(8):
        if isinstance(e, (ast.Await, ast.Yield, ast.YieldFrom)) and e.value is not None:
            e = e.value
        elif isinstance(e, ast.Call) and call_tail(e) == "cast" and len(e.args) == 2 and not e.keywords:
            e = e.args[1]
        else:
            break
    return e


def _value_of(fnorm, n, e):
    """Defining expression of `e` at node n: name copies followed (also through `x = yield ..` / `x = await ..`, which
    FlowNorm does not treat as copies: the unique reaching plain assignment is used), awaits / yields / typing casts stripped."""
    cfg = fnorm.cfg
    for _ in range(8):
        e = _strip_wait(e)
        if not isinstance(e, ast.Name):
            break
        d = fnorm.resolve(n, e)
        if d is e:
            defs = fnorm.rd.get(n.id, {}).get(e.id)
            if defs and len(defs) == 1:
                (k,) = defs
                a = cfg.nodes[k].ast if isinstance(k, int) and 0 <= k < len(cfg.nodes) else None
                if isinstance(a, ast.Assign) and len(a.targets) == 1 and isinstance(a.targets[0], ast.Name) \
                        and a.targets[0].id == e.id and cfg.nodes[k].kind == "stmt":
                    d = a.value
        if d is e:
            break
        e = d
    return e


def _no_silent_end(r, fn, cfg, what):
    for (n, w) in find_path_avoiding(cfg, lambda n: n.kind == "exit", gate_node=is_return, skip_exc_edges=True):
        r.violation(fn, fn.loc(), "%s can end without returning %s (path: %s)" % (short(fn), what, w.brief()), w)
        break


def _handler_answer_keys(r, idx):
    """(key of the verdict, key of the reads) in the response dict of the HTTP read-test-write handler."""
    fn = idx.func(HTTP_HANDLER)
    cfg = fn.cfg()
    fnorm = FlowNorm(fn)
    rd = reaching_defs(cfg)
    srv = [(n, c) for n in cfg.nodes for c in calls_at(n, REMOTE)]
    if len(srv) != 1:
        raise AnchorVanished("%s: expected one %s call, found %d" % (short(fn), REMOTE, len(srv)))
    sn, scall = srv[0]
    r.site(fn, scall, "handler answer")

    def element(n, e):
        """0 / 1 when `e` is that element of the storage server's answer, else None."""
        e0 = _strip_wait(e)
        if isinstance(e0, ast.Subscript) and isinstance(e0.slice, ast.Constant) and e0.slice.value in (0, 1):
            if _value_of(fnorm, n, e0.value) is scall:
                return e0.slice.value
            return None
        if isinstance(e0, ast.Name):
            defs = rd.get(n.id, {}).get(e0.id)
            if defs and len(defs) == 1:
                (d,) = defs
                dn = cfg.nodes[d] if isinstance(d, int) and 0 <= d < len(cfg.nodes) else None
                a = dn.ast if dn is not None else None
                if isinstance(a, ast.Assign) and len(a.targets) == 1 and isinstance(a.targets[0], (ast.Tuple, ast.List)) \
                        and _strip_wait(a.value) is scall and len(a.targets[0].elts) == 2:
                    for i, t in enumerate(a.targets[0].elts):
                        if isinstance(t, ast.Name) and t.id == e0.id:
                            return i
                    return None
            v = fnorm.resolve(n, e0)
            if v is not e0:
                return element(n, v)
        return None
    keys = {}
    dicts = 0
    for n in cfg.nodes:
        for c in calls_at(n, "_send_encoded"):
            for a in list(c.args) + [k.value for k in c.keywords]:
                v = _value_of(fnorm, n, a)
                if not isinstance(v, ast.Dict):
                    continue
                dicts += 1
                for k, val in zip(v.keys, v.values):
                    i = element(n, val)
                    if isinstance(k, ast.Constant) and i is not None:
                        if i in keys and keys[i] != k.value:
                            r.violation(fn, fn.loc(v), "%s answers element %d of the server's result under two keys" % (short(fn), i))
                        keys[i] = k.value
    if not dicts:
        raise AnchorVanished("%s no longer sends a response dict through _send_encoded" % short(fn))
    for i, what in ((0, "verdict"), (1, "read data")):
        if i not in keys:
            r.violation(fn, fn.loc(scall), "%s does not put the storage server's %s (element %d of the %s result) into its response: "
                        "the client cannot learn whether the write was accepted" % (short(fn), what, i, REMOTE))
    if len(keys) == 2 and keys[0] == keys[1]:
        r.violation(fn, fn.loc(scall), "%s sends verdict and reads under the same key %r" % (short(fn), keys[0]))
    return keys.get(0), keys.get(1)


def _client_result_fields(r, idx, fn, depth=0):
    """{result field: response key} of what StorageClientMutables.read_test_write_chunks returns."""
    cfg = fn.cfg()
    fnorm = FlowNorm(fn)
    rets = cfg.find(is_return)
    if not rets:
        raise AnchorVanished("%s returns nothing" % short(fn))
    _no_silent_end(r, fn, cfg, "the decoded read-test-write result")
    out = None
    for n in rets:
        v = _value_of(fnorm, n, n.ast.value) if n.ast.value is not None else None
        if isinstance(v, ast.Call) and call_name(v).startswith("self.") and depth < 2 and fn.cls is not None \
                and fn.cls.lookup(call_tail(v)) is not None:
            got = _client_result_fields(r, idx, fn.cls.lookup(call_tail(v)), depth + 1)
        else:
            cands = [c for c in idx.class_by_name.get(call_tail(v) or "", []) if c.module is fn.module] \
                if isinstance(v, ast.Call) else []
            if len(cands) != 1:
                r.violation(fn, fn.loc(n.ast), "%s returns %s, not a result object built from the decoded response" % (
                    short(fn), src(fn, n.ast.value) if n.ast.value is not None else "None"))
                continue
            fields = [st.target.id for st in cands[0].node.body if isinstance(st, ast.AnnAssign) and isinstance(st.target, ast.Name)]
            given = {}
            for i, a in enumerate(v.args):
                if isinstance(a, ast.Starred) or i >= len(fields):
                    raise AnalysisError("%s: cannot match the arguments of %s to fields" % (short(fn), src(fn, v)))
                given[fields[i]] = a
            for k in v.keywords:
                if k.arg is None:
                    raise AnalysisError("%s: cannot match the arguments of %s to fields" % (short(fn), src(fn, v)))
                given[k.arg] = k.value
            got = {}
            for f, e in given.items():
                e = _value_of(fnorm, n, e)
                if isinstance(e, ast.Subscript) and isinstance(e.slice, ast.Constant):
                    base = _value_of(fnorm, n, e.value)
                    if isinstance(base, ast.Call) and call_tail(base) == "decode_cbor":
                        got[f] = e.slice.value
                        continue
                got[f] = ("<not a response field>", src(fn, e))
            r.site(fn, v, "decoded result")
        if out is not None and got != out:
            r.violation(fn, fn.loc(n.ast), "%s builds its result differently on different paths" % short(fn))
        out = got if out is None else out
    return out or {}


def _verdict_return_trip(r, idx):
    # Foolscap: the adapter's result is callRemote's own Deferred
    fa = idx.func(AD_FOOLSCAP + "." + REMOTE)
    r.site(fa, None, "foolscap adapter result")
    _returns_remote(r, idx, fa, depth=0, is_remote=lambda c: call_tail(c) == "callRemote" and bool(c.args)
                    and isinstance(c.args[0], ast.Constant) and c.args[0].value == REMOTE,
                    what="callRemote(%r, ..)" % REMOTE, site=False)
    # HTTP: server dict -> client result object -> adapter tuple
    kv, kr = _handler_answer_keys(r, idx)
    cfn = idx.func(HTTP_CLIENT + ".read_test_write_chunks")
    fields = _client_result_fields(r, idx, cfn)
    ha = idx.func(AD_HTTP + "." + REMOTE)
    cfg = ha.cfg()
    fnorm = FlowNorm(ha)
    rets = cfg.find(is_return)
    if not rets:
        raise AnchorVanished("%s returns nothing" % short(ha))
    r.site(ha, rets[0].ast, "http adapter result")
    _no_silent_end(r, ha, cfg, "the (wrote, read_data) answer")
    if kv is None or kr is None:
        return
    for n in rets:
        v = _value_of(fnorm, n, n.ast.value) if n.ast.value is not None else None
        if not (isinstance(v, ast.Tuple) and len(v.elts) == 2):
            r.violation(ha, ha.loc(n.ast), "%s returns %s, not (wrote, read_data)" % (
                short(ha), src(ha, n.ast.value) if n.ast.value is not None else "None"))
            continue
        for pos, (e, key, what) in enumerate(zip(v.elts, (kv, kr), ("the server's verdict", "the server's read data"))):
            e = _value_of(fnorm, n, e)
            base = _value_of(fnorm, n, e.value) if isinstance(e, ast.Attribute) else None
            if not (isinstance(base, ast.Call) and call_tail(base) == cfn.name):
                r.violation(ha, ha.loc(n.ast), "%s answers with %s as element %d, which is not a field of the %s result: the publisher "
                            "does not see %s" % (short(ha), src(ha, v.elts[pos]), pos, cfn.name, what))
                continue
            got = fields.get(e.attr)
            r.require(got == key, ha, ha.loc(n.ast), "%s answers with .%s as element %d; the HTTP client fills that field from %s, but "
                      "the handler sends %s under %r" % (short(ha), e.attr, pos,
                                                         ("response key %r" % (got,)) if not isinstance(got, tuple) and got is not None
                                                         else (got[1] if got else "nothing"), what, key))


def _returns_result_deferred(r, f):
    """publish()/update(): every normal exit returns self.done_deferred."""
    cfg = f.cfg()
    fnorm = FlowNorm(f)

    def ret_dd(n):
        return is_return(n) and n.ast.value is not None and fnorm.norm(n, n.ast.value) == "self.done_deferred"
    if not cfg.find(is_return):
        raise AnchorVanished("%s has no return statement" % short(f))
    r.site(f, None, "returns the result Deferred")
    for (n, w) in find_path_avoiding(cfg, lambda n: n.kind == "exit", gate_node=ret_dd, skip_exc_edges=True):
        r.violation(f, f.loc(), "%s can return something other than self.done_deferred: the caller never sees the result "
                    "that _done/_failure deliver (path: %s)" % (short(f), w.brief()), w)
        break



def _not_wrote_surprised(r, ga):
    """Every normal exit of _got_write_answer with wrote false has stored self.surprised = True."""
    cfg = ga.cfg()
    fnorm = FlowNorm(ga)
    ps = first_positional_params(ga)
    if len(ps) < 2:
        raise AnchorVanished("_got_write_answer(answer, writer, ..) signature changed")
    ans = ps[0]
    seen_wrote_test = [False]

    def transfer(n, lab, nxt, st):
        wrote_true, no_answer, sset = st
        f = fnorm.edge_fact(n, lab)
        if f:
            if f[1] == ans + "[0]" and f[2] is None:
                seen_wrote_test[0] = True
                if f[0] == "truth":
                    wrote_true = True
            if f[0] == "false" and f[1] == ans and f[2] is None:
                no_answer = True
        if n.kind == "stmt" and "self.surprised" in node_stores(n):
            v = assign_value(n, "self.surprised")
            sset = isinstance(v, ast.Constant) and v.value is True
        return (wrote_true, no_answer, sset)
    visited, parent = explore(cfg, (False, False, False), transfer)
    r.count(len(visited))
    r.site(ga, None, "not wrote => surprised")
    if not seen_wrote_test[0]:
        raise AnchorVanished("_got_write_answer no longer tests answer[0] ('wrote')")
    for (nid, st) in sorted(visited):
        if cfg.nodes[nid].kind == "exit" and not (st[0] or st[1] or st[2]):
            w = witness(cfg, parent, (nid, st))
            r.violation(ga, ga.loc(), "_got_write_answer can return with wrote false and self.surprised unset: a rejected "
                        "test-and-set write is not noticed (path: %s)" % w.brief(), w)
            break


def _failure_mapping(r, fl):
    cfg = fl.cfg()
    fnorm = FlowNorm(fl)

    def delivers(n):
        for c in node_calls(n):
            if call_tail(c) == "eventually" and c.args and attr_path(c.args[0]) in (
                    "self.done_deferred.callback", "self.done_deferred.errback"):
                return c.args[1] if len(c.args) > 1 else None
            if call_name(c) in ("self.done_deferred.callback", "self.done_deferred.errback"):
                return c.args[0] if c.args else None
        return None
    dl = [n for n in cfg.nodes if n.kind == "stmt" and delivers(n) is not None]
    if not dl:
        raise AnchorVanished("_failure no longer delivers to done_deferred")

    ERRS = ("NotEnoughServersError", "UncoordinatedWriteError")

    def classify(v, env):
        """Error class carried by expression v (an exception instance or a Failure wrapping one)."""
        if isinstance(v, ast.Name):
            return env.get(v.id)
        if isinstance(v, ast.Call) and call_tail(v) in ERRS:
            return call_tail(v)
        if isinstance(v, ast.Call) and call_tail(v) == "Failure" and v.args:
            return classify(v.args[0], env) or "?"
        return None

    def transfer(n, lab, nxt, st):
        sur, envt, delivered = st
        f = fnorm.edge_fact(n, lab)
        if f and f[1] == "self.surprised" and f[2] is None:
            sur = "T" if f[0] == "truth" else "F"
        if n.kind == "stmt" and isinstance(n.ast, ast.Assign) and len(n.ast.targets) == 1 \
                and isinstance(n.ast.targets[0], ast.Name):
            env = dict(envt)
            c = classify(n.ast.value, env)
            if c is not None:
                env[n.ast.targets[0].id] = c
            else:
                env.pop(n.ast.targets[0].id, None)
            envt = tuple(sorted(env.items()))
        if n.kind == "stmt":
            a = delivers(n)
            if a is not None:
                delivered = classify(a, dict(envt)) or "?"
        return (sur, envt, delivered)
    visited, parent = explore(cfg, (None, (), None), transfer)
    r.count(len(visited))
    r.site(fl, dl[0].ast, "error class by surprised")
    want = {"T": "UncoordinatedWriteError", "F": "NotEnoughServersError"}
    seen = set()
    for (nid, st) in sorted(visited, key=lambda x: (x[0], str(x[1]))):
        if cfg.nodes[nid].kind != "exit":
            continue
        sur, _env, delivered = st
        w = witness(cfg, parent, (nid, st))
        if delivered is None:
            r.violation(fl, fl.loc(), "_failure can return without delivering an error to done_deferred (path: %s)" % w.brief(), w)
        elif sur is None:
            r.violation(fl, fl.loc(), "_failure picks the error without looking at self.surprised (path: %s)" % w.brief(), w)
        elif delivered != want[sur] and (sur, delivered) not in seen:
            seen.add((sur, delivered))
            r.violation(fl, fl.loc(), "_failure delivers %s when self.surprised is %s (expected %s)" % (
                delivered, {"T": "true", "F": "false"}[sur], want[sur]), w)


def _surprised_and_writers_discipline(r, idx, cg, pub):
    starters = {idx.func(PUB + ".publish").qual: idx.func(PUB + ".publish"),
                idx.func(PUB + ".update").qual: idx.func(PUB + ".update")}
    ga = idx.func(PUB + "._got_write_answer")
    n_s = 0
    for (f, nd) in cg.attr_stores("surprised"):
        if f.cls is not pub or attr_path(nd) != "self.surprised":
            continue
        n_s += 1
        node = [n for n in f.cfg().nodes if n.kind == "stmt" and "self.surprised" in node_stores(n)
                and any(x is nd for x in ast.walk(n.ast))]
        v = assign_value(node[0], "self.surprised") if node else None
        r.site(f, nd, "surprised store")
        if isinstance(v, ast.Constant) and v.value is True:
            continue
        r.require(f.qual in starters, f, f.loc(nd), "%s stores %s into self.surprised: an observed surprise can be forgotten" % (
            short(f), src(f, v) if v is not None else "?"))
    if n_s < 4:
        raise AnchorVanished("stores of self.surprised vanished (%d found)" % n_s)
    # in the starters, the clearing store precedes the first _push and nothing clears it after
    for f in starters.values():
        cfg = f.cfg()
        clr = stores("self.surprised")
        if not cfg.find(clr):
            raise AnchorVanished("%s no longer initialises self.surprised" % short(f))
        for (s, w) in find_path_from_to_avoiding(cfg, has_call("_push"), lambda n: False,
                                                 ends=lambda n: clr(n)):
            r.violation(f, f.loc(s.ast), "%s clears self.surprised after _push has started the writes" % short(f), w)
        for (n, w) in find_path_avoiding(cfg, has_call("_push"), gate_node=clr):
            r.violation(f, f.loc(n.ast), "%s starts _push without initialising self.surprised" % short(f), w)
    # writers: rebinding and .add only in the starters
    n_w = 0
    for (f, nd) in cg.attr_stores("writers"):
        if f.cls is pub and attr_path(nd) == "self.writers":
            n_w += 1
            r.site(f, nd, "writers binding")
            r.require(f.qual in starters, f, f.loc(nd), "%s re-binds self.writers" % short(f))
    for g in _class_funcs(pub):
        if g.qual in starters:
            continue
        for c in calls_in_func(g, None, into_lambda=True):
            if call_name(c) in ("self.writers.add", "self.writers.update", "self.writers.setdefault"):
                r.violation(g, g.loc(c), "%s adds a writer after the publish started: the live-writer count no longer "
                            "only shrinks" % short(g))
        for n in g.cfg().nodes:
            if "self.writers[]" in node_stores(n) and not isinstance(n.ast, ast.Delete):
                r.violation(g, g.loc(n.ast), "%s stores into self.writers" % short(g))
    if n_w < 2:
        raise AnchorVanished("bindings of self.writers vanished")


def _proxy_returns_remote(r, idx):
    for q in (SDMFW, MDMFW):
        fp = idx.func(q + ".finish_publishing")
        _returns_remote(r, idx, fp, depth=0)


def _returns_remote(r, idx, fn, depth, is_remote=None, what=None, site=True):
    is_remote = is_remote or (lambda c: call_tail(c) == REMOTE)
    what = what or REMOTE
    cfg = fn.cfg()
    fnorm = FlowNorm(fn)
    rets = cfg.find(is_return)
    if not rets:
        raise AnchorVanished("%s returns nothing" % short(fn))
    if depth == 0 and site:
        r.site(fn, None, "proxy result")
    # a normal exit without 'return' would hand None to the publisher
    for (n, w) in find_path_avoiding(cfg, lambda n: n.kind == "exit", gate_node=is_return):
        r.violation(fn, fn.loc(), "%s can fall off its end and return None instead of the write's Deferred" % short(fn), w)
    for n in rets:
        v = n.ast.value
        rv = fnorm.resolve(n, v) if v is not None else None
        if isinstance(rv, ast.Call) and is_remote(rv):
            # direct return of the remote call; registrations on a local are checked below
            if isinstance(v, ast.Name):
                _check_passthrough_regs(r, idx, fn, v.id)
            continue
        if isinstance(rv, ast.Call) and call_name(rv).startswith("self.") and depth < 2 and fn.cls is not None:
            g = fn.cls.lookup(call_tail(rv))
            if g is not None:
                _returns_remote(r, idx, g, depth + 1, is_remote, what, site)
                continue
        r.violation(fn, fn.loc(n.ast), "%s returns %s, not the Deferred of %s" % (
            short(fn), src(fn, v) if v is not None else "None", what))


def _check_passthrough_regs(r, idx, fn, dvar):
    for reg in registrations(fn, dvar):
        tg = [reg.target] + ([reg.errtarget] if reg.kind == "pair" and reg.errtarget is not None else [])
        for t in tg:
            r.require(_is_pass_through(idx, fn, t), fn, fn.loc(reg.call),
                      "%s: callback %s on the write Deferred does not return its argument, so the publisher never sees the "
                      "server's (wrote, read_data) answer" % (short(fn), src(fn, t)))


# -- surprise detection (shared with C12) -----------------------------------------------------------------
# "A successful publish" presupposes that no unexpected version was met: the surprise flag must be sticky
# over all shares of all responses and compare whole checkstrings (C12.4), and the answer must reach
# _got_write_answer unchanged (C12.5).
_run_publish_recoverable = run


def run(ctx: Context):   # noqa: F811
    _run_publish_recoverable(ctx)
    # C12.16-18: the test vector the writer built is the one the share is compared with - no protocol hop (IStorageServer
    # adapter, HTTP body, HTTP handler / Foolscap server object, check_testv) drops, filters, re-keys or recomputes any
    # part of it.  A size recomputed from the specimen turns the 'slot must be empty' guard (0, 1, b'') into a test every
    # share passes, and the acknowledgement the publisher counts no longer says that the surveyed version was replaced.
    ctx.include("C12", ["C12.1", "C12.2", "C12.3", "C12.4", "C12.5", "C12.9", "C12.10", "C12.11", "C12.15",
                        "C12.16", "C12.17", "C12.18"], "C47.9")
    # C23.9/10: the same hops for the rest of the request and for the answer - the write vectors and new_length the
    # server applies are the ones the proxy sent (an acknowledged write that stored something else, or nothing, is
    # counted as a placed share), and the (verdict, read data) the publisher examines is what the server returned.
    # (Neither C12 nor C23 includes another property: no include cycle.)
    ctx.include("C23", ["C23.9", "C23.10"], "C47.13")
