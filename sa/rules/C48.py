"""C48 Configuration values parse to their documented meaning.

Decided (R11, DESIGN.md section 5 C48): grammar-versus-table agreement of the
three tahoe.cfg value parsers, the documented spellings, the printer/parser
round trip and the plumbing of the parsed values into the storage server."""
from sa.h import *
from sa.tables import ConstEval
import itertools

EXPLANATION = (
    "Decided (tables folded from the AST, regexes parsed with the stdlib regex parser; a pattern is followed from its "
    "application - re.match/search/fullmatch or the same methods of a pattern precompiled in a local, a default argument "
    "or a module constant, with the flags of re.compile and of the call): (1) parse_duration: the "
    "pattern covers the whole value (decided from pattern anchors x method: match/fullmatch start at the first character, "
    "search only with \\A or a non-MULTILINE ^; fullmatch, \\Z or a non-MULTILINE $ end at the last; malformed probe "
    "strings give the concrete misreading), the number group is a digit class, nothing outside the two groups "
    "but optional whitespace, the finite language of the unit group (lower-cased) is contained in the keys of "
    "time_map, IGNORECASE implies the key is lower-cased, the multipliers fold to second=1, day=86400, "
    "month=31 days, year=365 days and the result is int(group 1) * time_map[unit]; (2) every spelling documented in "
    "docs/garbage-collection.rst is accepted with that value; (3) parse_abbreviated_size: the pattern covers the whole value "
    "(same decision), "
    "every word of the suffix group's language reaches the multiplier table (after the function's own rewriting of "
    "the suffix, interpreted on the finite language) with an existing key whose value is 1000**n resp. 1024**n; "
    "(4) every reserved_space spelling documented in docs/configuration.rst is accepted with the documented value; "
    "(5) parse_date is int(iso_utc_time_to_seconds(s + 'T00:00:00')), the regex groups year..second feed "
    "calendar.timegm in that order and the documented dates are accepted; (6) the date grammar covers the whole value: either parse_date gates "
    "every return on a fixed-shape guard applied to its argument that is anchored at both ends, or the ISO regex "
    "itself is (anchors x method); "
    "(7) every output template of abbreviate_space lies in the grammar of parse_abbreviated_size; (8) client.py hands "
    "reserved_space / expire.override_lease_duration / expire.cutoff_date through the matching parser to the "
    "matching StorageServer argument, and per path of get_anonymous_storage_server the local handed to StorageServer never "
    "still holds the tahoe.cfg text, is never reached after an error raised while reading the present value (a handler around "
    "get_config that catches an InterpolationError/ValueError class) was handled, is never replaced by a constant unless it was found None/empty (the constant for "
    "an absent reserved_space being 0), and StorageServer is not reached after an exception of the parser was handled; "
    "(9) accept/reject decision: parse_duration and parse_abbreviated_size reach their result only on paths that "
    "established that the pattern matched, and parse_abbreviated_size returns None (also by falling off its end) only on "
    "paths that established that the value is None/empty; (10) iso_utc_time_to_seconds interpreted on each documented "
    "date + 'T00:00:00' (regex answered by the regex engine, timegm symbolic) returns exactly timegm(y, m, d, 0, 0, 0) "
    "with nothing added, and so it does on every calendar date of a sample of leap, ordinary and century years (first and "
    "last day of each month, 28/29 February): a range check the function makes on its fields - against calendar.mdays, "
    "calendar.monthrange, calendar.isleap, datetime.date, all answered by the standard library's own tables - must not "
    "reject a legal date such as 29 February; (11) abbreviate_space interpreted on sample sizes in both modes prints <number> <unit> whose "
    "unit, read with the parser's own multiplier table, gives back the size to the printed precision, and an integer "
    "text that lies in the grammar parses back to exactly the size; (12) node.py _Config accessors "
    "(get_config, items, enumerate_section - every method that reads self.config): with the exception hierarchy of "
    "configparser taken from the library (Error > NoSectionError, NoOptionError, InterpolationError > ...), a handler "
    "(or contextlib.suppress) around the read that can complete normally - i.e. hand back the caller's default - catches "
    "none of the errors raised while reading a PRESENT value (InterpolationError family for a '%' in the value, ValueError "
    "of a typed getter, the accessor's own UnescapedHashError); isinstance tests on the caught exception narrow the set "
    "along the handler's paths. "
    "Undecided: whether invalid dates such as 31 February are rejected (timegm normalises them),  \\d accepting non-ASCII digits and str.upper()/lower() case-folding oddities (noted in thorough "
    "mode), the arithmetic of calendar.timegm, ConfigParser's own whitespace stripping, the exception type with which "
    "a malformed value is rejected (any raise counts), which unit abbreviate_space picks for a size (thresholds: "
    "'0.00 MB' for 2500 bytes is faithful to its printed precision), which of SI/binary the SI flag selects, the "
    "sub-second branch of iso_utc_time_to_seconds (not reachable from tahoe.cfg), what the client does with "
    "expire.mode / expire.enabled / sharetypes (not value parsing).")
TECHNIQUE = "static analysis: constant folding of tables and regexes, regex-language enumeration, must-precede path queries on the CFG, finite-domain AST interpretation of the suffix rewriting, the date conversion (calendar tables of the standard library as constants) and the size printer, exception-class subsumption over the configparser hierarchy on the handler paths of the configuration accessors"

TF = "util.time_format"
AB = "util.abbreviate"

DAY = 24 * 60 * 60
DURATION_MEANING = {"s": 1, "second": 1, "seconds": 1, "day": DAY, "days": DAY,
                    "mo": 31 * DAY, "month": 31 * DAY, "months": 31 * DAY, "year": 365 * DAY, "years": 365 * DAY}
SCALE = "KMGTPE"
PARSERS = ("parse_abbreviated_size", "parse_duration", "parse_date")


# ------------------------------------------------------------------ folding
def fold_locals(idx, fn, extra_eval=None):
    """name -> value for the straight-line constant assignments of fn (in order)."""
    folder = get_folder(idx)
    env = {}
    for st in fn.body:
        if isinstance(st, ast.Assign) and len(st.targets) == 1 and isinstance(st.targets[0], ast.Name):
            try:
                env[st.targets[0].id] = evaluate(idx, fn, st.value, env)
            except NotConstant:
                pass
    return env


def enum_values(idx, ci):
    """Member values of an Enum class in definition order (class-level constants)."""
    if not ci.is_subclass_of("Enum"):
        raise NotConstant("%s is not an Enum" % ci.qual)
    folder = get_folder(idx)
    out = []
    for name in ci.attrs:
        if name.startswith("_"):
            continue
        out.append(folder.class_attr(ci, name))
    return out


_LIST_VALUES_FORMS = None


def list_values_ok(fn):
    global _LIST_VALUES_FORMS
    if _LIST_VALUES_FORMS is None:
        _LIST_VALUES_FORMS = {norm_src(s) for s in (
            "list(map(lambda c: c.value, cls))", "[c.value for c in cls]", "list(c.value for c in cls)",
            "[m.value for m in cls]", "list(map(lambda m: m.value, cls))")}
    rets = [n for n in func_own_nodes(fn) if isinstance(n, ast.Return)]
    return len(rets) == 1 and norm_plain(rets[0].value) in _LIST_VALUES_FORMS


def evaluate(idx, fn, e, env):
    """Folder.fold plus: sep.join(<comprehension>), re.escape, Enum.list_values()."""
    folder = get_folder(idx)
    m = fn.module
    if isinstance(e, ast.Call):
        f = e.func
        if isinstance(f, ast.Attribute) and f.attr == "join" and len(e.args) == 1 \
                and isinstance(e.args[0], (ast.GeneratorExp, ast.ListComp)) and len(e.args[0].generators) == 1:
            sep = evaluate(idx, fn, f.value, env)
            comp = e.args[0]
            g = comp.generators[0]
            if g.ifs or not isinstance(g.target, ast.Name):
                raise NotConstant("comprehension")
            items = evaluate(idx, fn, g.iter, env)
            return sep.join(evaluate(idx, fn, comp.elt, dict(env, **{g.target.id: x})) for x in items)
        if call_name(e) == "re.escape" and len(e.args) == 1:
            return re.escape(evaluate(idx, fn, e.args[0], env))
        if isinstance(f, ast.Attribute) and not e.args and not e.keywords:
            tgt = idx.resolve_expr(m, f.value)
            if isinstance(tgt, ClassInfo) and tgt.is_subclass_of("Enum"):
                meth = tgt.lookup(f.attr)
                if meth is not None and list_values_ok(meth):
                    return enum_values(idx, tgt)
                raise NotConstant("enum method %s" % f.attr)
    if isinstance(e, ast.JoinedStr):
        parts = []
        for v in e.values:
            if isinstance(v, ast.Constant):
                parts.append(v.value)
            else:
                parts.append(format(evaluate(idx, fn, v.value, env), ""))
        return "".join(parts)
    if isinstance(e, ast.Dict):
        return {evaluate(idx, fn, k, env): evaluate(idx, fn, v, env) for k, v in zip(e.keys, e.values)}
    v = folder.fold(e, m, fn.cls, env)
    return v


RE_METHODS = ("match", "search", "fullmatch")
RE_FLAG_MASK = int(re.IGNORECASE | re.MULTILINE | re.DOTALL | re.VERBOSE | re.ASCII)


def re_member(m, f):
    """'match' for an expression that denotes re.match in module m (re.match, r.match with `import re as r`,
    match with `from re import match`); None otherwise."""
    if isinstance(f, ast.Attribute) and isinstance(f.value, ast.Name) and m.imports.get(f.value.id) == "re":
        return f.attr
    if isinstance(f, ast.Name) and (m.imports.get(f.id) or "").startswith("re."):
        return m.imports[f.id][3:]
    return None


def flag_bits(m, exprs):
    """Value and names of regex flag expressions (re.I | re.M, IGNORECASE imported from re, integers)."""
    bits, names = 0, []
    for a in exprs:
        for n in ast.walk(a):
            if isinstance(n, (ast.BinOp, ast.BitOr, ast.Load)):
                continue
            if isinstance(n, ast.Constant) and isinstance(n.value, int):
                bits |= n.value
                continue
            if isinstance(n, ast.Name) and m.imports.get(n.id) == "re":
                continue
            nm = re_member(m, n) if isinstance(n, (ast.Attribute, ast.Name)) else None
            if nm is None or not isinstance(getattr(re, nm, None), re.RegexFlag):
                raise AnalysisError("cannot evaluate the regex flags %s" % ast.unparse(a))
            bits |= int(getattr(re, nm))
            names.append(nm)
    return bits, names


def regex_source(idx, fn, e, env, local=True, depth=0):
    """(pattern text, flag bits, flag names, description) of an expression that denotes a regular expression: a
    constant string, or a pattern precompiled with re.compile in a local, a default argument, a module or class
    constant.  Flags given to re.compile (positionally or by keyword) are part of the result."""
    m = fn.module
    if depth > 6:
        raise AnalysisError("%s: regex definition chain too deep at %s" % (fn.qual, ast.unparse(e)))
    if isinstance(e, ast.Call) and re_member(m, e.func) == "compile":
        pe = arg(e, 0, "pattern")
        if pe is None:
            raise AnalysisError("%s: re.compile without a pattern" % fn.qual)
        pat, fl, names, _d = regex_source(idx, fn, pe, env, local, depth + 1)
        fl2, names2 = flag_bits(m, list(e.args[1:]) + [k.value for k in e.keywords if k.arg == "flags"])
        return pat, fl | fl2, names + names2, "re.compile"
    if isinstance(e, ast.Name):
        if local and isinstance(env.get(e.id), str):
            return env[e.id], 0, [], e.id
        if local:
            defs = [st.value for st in func_own_nodes(fn) if isinstance(st, ast.Assign)
                    and any(isinstance(t, ast.Name) and t.id == e.id for t in st.targets)]
            others = [st for st in func_own_nodes(fn) if isinstance(st, (ast.AugAssign, ast.AnnAssign, ast.NamedExpr))
                      and isinstance(st.target, ast.Name) and st.target.id == e.id]
            if len(defs) > 1 or others:
                raise AnalysisError("%s: the pattern %s is assigned more than once" % (fn.qual, e.id))
            if defs:
                r = regex_source(idx, fn, defs[0], env, True, depth + 1)
                return r[:3] + (e.id,)
            a = fn.node.args
            pos = list(a.posonlyargs) + list(a.args)
            dflt = dict(zip([x.arg for x in pos][len(pos) - len(a.defaults):], a.defaults))
            dflt.update({x.arg: d for x, d in zip(a.kwonlyargs, a.kw_defaults) if d is not None})
            if e.id in dflt:
                r = regex_source(idx, fn, dflt[e.id], {}, False, depth + 1)
                return r[:3] + ("default argument " + e.id,)
            if e.id in fn.params:
                raise AnalysisError("%s: the pattern is the caller-supplied argument %s" % (fn.qual, e.id))
        mdefs = m.assigns.get(e.id) or []
        if len(mdefs) == 1:
            r = regex_source(idx, fn, mdefs[0], {}, False, depth + 1)
            return r[:3] + ("module constant " + e.id,)
        if len(mdefs) > 1:
            raise AnalysisError("%s: module constant %s is assigned more than once" % (fn.qual, e.id))
    try:
        v = evaluate(idx, fn, e, env if local else {})
    except NotConstant as ex:
        raise AnalysisError("%s: cannot fold the pattern %s (%s)" % (fn.qual, ast.unparse(e), ex))
    if isinstance(v, tuple) and len(v) == 3 and v[0] == "re" and isinstance(v[1], str):
        fl, names = flag_bits(m, [ast.parse(x, mode="eval").body for x in v[2]])
        return v[1], fl, names, ast.unparse(e)
    if isinstance(v, str):
        return v, 0, [], "literal"
    raise AnalysisError("%s: %s is not a text pattern (%r)" % (fn.qual, ast.unparse(e), type(v).__name__))


class RegexUse:
    """One application of a regular expression to a subject: re.match(p, s, flags) / <compiled>.search(s) / ..."""

    def __init__(self, fn, call, how, pattern, flags, flagnames, subject, via):
        self.fn, self.call, self.how, self.pattern, self.subject, self.via = fn, call, how, pattern, subject, via
        # flags written inside the pattern ((?i), (?m)) count as well
        import sre_parse as _sp
        try:
            inline = int(_sp.parse(pattern, flags).state.flags) & RE_FLAG_MASK
        except re.error as ex:
            raise AnalysisError("%s: pattern %r does not compile: %s" % (fn.qual, pattern, ex))
        self.flags = (flags | inline) & RE_FLAG_MASK
        self.flagnames = flagnames
        self.rast = regex_ast(pattern, self.flags)

    def apply(self, text):
        return getattr(re, self.how)(self.pattern, text, self.flags)

    def describe(self):
        f = self.call.func
        if re_member(self.fn.module, f) is not None:
            return "re.%s()" % self.how
        return "%s.%s()" % (ast.unparse(f.value), self.how) + ("" if self.via == "re.compile" else " (%s)" % self.via)


def regex_uses(idx, fn, env=None):
    """Every match/search/fullmatch application in fn, through the re module functions or a compiled pattern."""
    m = fn.module
    env = fold_locals(idx, fn) if env is None else env
    out = []
    for c in calls_in_func(fn):
        f = c.func
        how = re_member(m, f)
        if how in RE_METHODS:
            pe, subj = arg(c, 0, "pattern"), arg(c, 1, "string")
            fexprs = list(c.args[2:]) + [k.value for k in c.keywords if k.arg == "flags"]
        elif how is None and isinstance(f, ast.Attribute) and f.attr in RE_METHODS:
            how, pe, subj, fexprs = f.attr, f.value, arg(c, 0, "string"), []
            if len(c.args) > 1 or any(k.arg in ("pos", "endpos") for k in c.keywords):
                raise AnalysisError("%s: %s restricts the matched region with pos/endpos" % (fn.qual, ast.unparse(c)))
        else:
            continue
        if pe is None or subj is None:
            raise AnalysisError("%s: cannot read pattern and subject of %s" % (fn.qual, ast.unparse(c)))
        pat, fl, names, via = regex_source(idx, fn, pe, env)
        fl2, names2 = flag_bits(m, fexprs)
        out.append(RegexUse(fn, c, how, pat, fl | fl2, names + names2, subj, via))
    return out


def the_regex_use(idx, fn, env=None):
    """The single regex application of a parser function."""
    us = regex_uses(idx, fn, env)
    if len(us) != 1:
        raise AnchorVanished("%s: expected one regex match/search/fullmatch application, found %d" % (fn.qual, len(us)))
    return us[0]


def start_anchored(u):
    """(pattern anchors x method): .match/.fullmatch start at the first character; .search does only with \\A, or
    with ^ when MULTILINE is off (under MULTILINE ^ also matches after every newline)."""
    if u.how in ("match", "fullmatch"):
        return True
    r = u.rast
    if not r or r[0][0] != "AT":
        return False
    return r[0][1] == "AT_BEGINNING_STRING" or (r[0][1] == "AT_BEGINNING" and not u.flags & re.MULTILINE)


def end_anchored(u):
    """.fullmatch ends at the last character; otherwise \\Z, or $ when MULTILINE is off (under MULTILINE $ also
    matches before every newline)."""
    if u.how == "fullmatch":
        return True
    k = regex_end_anchor(u.rast)
    return k == "AT_END_STRING" or (k == "AT_END" and not u.flags & re.MULTILINE)


def match_succeeded(fnorm, n, lab, call):
    """The edge (n, lab) is taken only when the regex application `call` produced a match object
    (`if m:`, `if not m: raise`, `if m is None: raise`, also through a local holding the result)."""
    f = fnorm.edge_fact(n, lab)
    if not f:
        return False
    if f[0] == "truth":
        return fnorm.resolve(n, n.ast) is call
    if f[0] == "is not" and "None" in f[1:] and isinstance(n.ast, ast.Compare) and len(n.ast.comparators) == 1:
        return any(fnorm.resolve(n, x) is call for x in (n.ast.left, n.ast.comparators[0]))
    return False


def ungated_results(fn, fnorm, targets, mc):
    """[(node, witness)] for the target nodes of fn that are reachable on a path which never took an edge that
    establishes that the regex application `mc` produced a match."""
    tl = list(targets)
    return find_path_avoiding(fn.cfg(), lambda n: any(n is t for t in tl),
                              gate_edge=lambda n, lab: match_succeeded(fnorm, n, lab, mc))


def none_returns(fn, fnorm):
    """Nodes of fn that make it return None: `return`, `return None` (also through a local) and statements that fall
    off the end of the body."""
    cfg = fn.cfg()
    out = []
    for n in cfg.find(is_return):
        v = n.ast.value
        v = fnorm.resolve(n, v) if v is not None else None
        if v is None or (isinstance(v, ast.Constant) and v.value is None):
            out.append(n)
    for (p, _lab) in cfg.predecessors(cfg.exit):
        if not is_return(p) and p.kind not in ("entry",):
            out.append(p)
    return out


def empty_value_facts(p):
    """Normal forms of the edge facts that say 'the value p is absent or empty'."""
    nz = N()
    out = set()
    for s in ("%s is None", "%s == ''", "not %s", "len(%s) == 0", "%s in (None, '')", "%s in ('', None)",
              "%s in [None, '']", "%s in ['', None]", "%s in {None, ''}", "%s in {'', None}"):
        out.add(nz.cmp(parse_expr(s % p), True))
    return out


class _Raised(Exception):
    """An exception leaving the interpreted code: what (text), the raising construct, the condition of the innermost
    enclosing `if` (guard) and, when it is a builtin exception, its class (for try/except inside the interpreted code)."""

    def __init__(self, what, node=None, guard=None, cls=None):
        Exception.__init__(self, what)
        self.what, self.node, self.guard, self.cls = what, node, guard, cls


def _builtin_exception(e):
    """The builtin exception class an expression names (ValueError, ValueError(...)), else None."""
    import builtins
    if isinstance(e, ast.Call):
        e = e.func
    if isinstance(e, ast.Name):
        c = getattr(builtins, e.id, None)
        if isinstance(c, type) and issubclass(c, BaseException):
            return c
    return None


# Pure constants / functions of the standard library that a date check may consult; they are modelled by the
# standard library itself (like the regex engine), nothing of the package under analysis is imported.
def _stdlib_models():
    import calendar as _cal
    import datetime as _dt
    out = {"calendar": {}, "datetime": {"date": _dt.date, "datetime": _dt.datetime, "MINYEAR": _dt.MINYEAR,
                                       "MAXYEAR": _dt.MAXYEAR, "timedelta": _dt.timedelta}}
    for nm in ("mdays", "isleap", "monthrange", "leapdays", "January", "February", "JANUARY", "FEBRUARY"):
        if hasattr(_cal, nm):
            out["calendar"][nm] = getattr(_cal, nm)
    return out


STDLIB_MODELS = _stdlib_models()
_NO_MODEL = object()


class _Closure:
    def __init__(self, node, env):
        self.node, self.env = node, env


class _Opaque:
    """A value the interpretation does not model (e.g. a precompiled pattern)."""

    def __init__(self, what):
        self.what = what


class TimegmValue:
    """calendar.timegm(<fields>) + offset, kept symbolic (the arithmetic of timegm is not modelled)."""

    def __init__(self, fields, offset=0):
        self.fields, self.offset = fields, offset

    def __add__(self, o):
        if isinstance(o, bool) or not isinstance(o, (int, float)):
            raise NotConstant("timegm value + %r" % (o,))
        return TimegmValue(self.fields, self.offset + o)
    __radd__ = __add__

    def __sub__(self, o):
        if isinstance(o, bool) or not isinstance(o, (int, float)):
            raise NotConstant("timegm value - %r" % (o,))
        return TimegmValue(self.fields, self.offset - o)


class LocalEval(ConstEval):
    """ConstEval for one function body run on concrete sample arguments, plus: nested helper functions (closures),
    `raise` (reported as _Raised), float/round, f-strings, a regex application of the function answered by the stdlib
    regex engine on the pattern the rule extracted, match-object accessors, calendar.timegm kept symbolic.  It records
    the return statements it executes."""

    _BUILTINS = dict(ConstEval._BUILTINS, float=float, round=round, divmod=divmod, repr=repr, isinstance=isinstance,
                     map=lambda f, *its: [f(*xs) for xs in zip(*its)])

    def __init__(self, folder, module, uses=()):
        ConstEval.__init__(self, folder, module)
        self.uses = list(uses)
        self.returned = []
        self.guards = []
        self.handling = []

    def stdlib_value(self, e, env):
        """The modelled standard-library object an expression denotes (calendar.mdays, `from calendar import
        monthrange`, datetime.date, ...), or _NO_MODEL."""
        path = []
        x = e
        while isinstance(x, ast.Attribute):
            path.append(x.attr)
            x = x.value
        if not isinstance(x, ast.Name) or x.id in env or x.id in self.module.assigns or x.id in self.module.funcs \
                or x.id in self.module.classes:
            return _NO_MODEL
        dotted = (self.module.imports.get(x.id) or "").split(".") + path[::-1]
        if dotted[0] not in STDLIB_MODELS or len(dotted) < 2:
            return _NO_MODEL
        if dotted[1] not in STDLIB_MODELS[dotted[0]]:
            raise NotConstant("%s is not modelled" % ".".join(dotted))
        v = STDLIB_MODELS[dotted[0]][dotted[1]]
        for a in dotted[2:]:
            if a.startswith("_") or not hasattr(v, a):
                raise NotConstant("%s is not modelled" % ".".join(dotted))
            v = getattr(v, a)
        return v

    def run(self, fn, args, kwargs=None):
        kwargs = dict(kwargs or {})
        a = fn.node.args
        if a.vararg or a.kwarg:
            raise NotConstant("varargs in %s" % fn.qual)
        pos = list(a.posonlyargs) + list(a.args)
        dflt = dict(zip([x.arg for x in pos][len(pos) - len(a.defaults):], a.defaults))
        dflt.update({x.arg: d for x, d in zip(a.kwonlyargs, a.kw_defaults) if d is not None})
        env = {}
        for i, x in enumerate(pos + list(a.kwonlyargs)):
            if i < len(args) and i < len(pos):
                env[x.arg] = args[i]
            elif x.arg in kwargs:
                env[x.arg] = kwargs[x.arg]
            elif x.arg in dflt:
                try:
                    env[x.arg] = self.expr(dflt[x.arg], {})
                except NotConstant:
                    env[x.arg] = _Opaque("default of " + x.arg)
            else:
                raise NotConstant("missing argument %s" % x.arg)
        return self._body(fn.node.body, env)

    def _body(self, body, env):
        from sa.tables import _Return
        try:
            self.block(body, env)
        except _Return as rv:
            return rv.v
        return None

    def stmt(self, st, env):
        if isinstance(st, ast.FunctionDef):
            self.tick()
            env[st.name] = _Closure(st, env)
            return
        guard = self.guards[-1] if self.guards else None
        if isinstance(st, ast.Raise):
            self.tick()
            if st.exc is None and self.handling:
                raise self.handling[-1]
            raise _Raised(ast.unparse(st.exc) if st.exc is not None else "re-raise", st, guard,
                          _builtin_exception(st.exc) if st.exc is not None else None)
        if isinstance(st, ast.Try):
            self.tick()
            try:
                self.block(st.body, env)
            except _Raised as ex:
                for h in st.handlers:
                    types = [] if h.type is None else (list(h.type.elts) if isinstance(h.type, ast.Tuple) else [h.type])
                    classes = [_builtin_exception(t) for t in types]
                    if h.type is not None and (ex.cls is None or any(c is None for c in classes)):
                        raise NotConstant("cannot decide whether `except %s` catches %s" % (ast.unparse(h.type), ex.what))
                    if h.type is None or issubclass(ex.cls, tuple(classes)):
                        if h.name:
                            env[h.name] = _Opaque("exception " + ex.what)
                        self.handling.append(ex)
                        try:
                            self.block(h.body, env)
                        finally:
                            self.handling.pop()
                            self.block(st.finalbody, env)
                        return
                self.block(st.finalbody, env)
                raise
            except BaseException:
                self.block(st.finalbody, env)
                raise
            self.block(st.orelse, env)
            self.block(st.finalbody, env)
            return
        if isinstance(st, ast.Assert):
            self.tick()
            if not self.expr(st.test, env):
                raise _Raised("AssertionError", st, st.test)
            return
        if isinstance(st, ast.Expr) and isinstance(st.value, ast.Call) and st.value.args \
                and call_tail(st.value) in ("precondition", "_assert", "postcondition"):
            self.tick()
            if not self.expr(st.value.args[0], env):
                raise _Raised("AssertionError (%s)" % call_tail(st.value), st, st.value.args[0])
            return
        if isinstance(st, ast.If):
            self.tick()
            taken = st.body if self.expr(st.test, env) else st.orelse
            self.guards.append(st.test)
            try:
                self.block(taken, env)
            finally:
                self.guards.pop()
            return
        if isinstance(st, ast.Return):
            self.returned.append(st)
        return ConstEval.stmt(self, st, env)

    def expr(self, e, env):
        from sa.tables import _Return
        self.tick()
        try:
            return self._expr(e, env)
        except (NotConstant, _Return, _Raised):
            raise
        except RecursionError:
            raise NotConstant("constexpr recursion")
        except Exception as ex:
            raise NotConstant("constexpr: %s" % ex)

    def _expr(self, e, env):
        if isinstance(e, ast.JoinedStr):
            parts = []
            for v in e.values:
                if isinstance(v, ast.Constant):
                    parts.append(v.value)
                else:
                    if v.conversion not in (-1, 115):
                        raise NotConstant("f-string conversion")
                    spec = self._expr(v.format_spec, env) if v.format_spec is not None else ""
                    parts.append(format(self.expr(v.value, env), spec))
            return "".join(parts)
        if isinstance(e, (ast.Attribute, ast.Name)):
            v = self.stdlib_value(e, env)
            if v is not _NO_MODEL:
                return v
        if isinstance(e, ast.Name) and e.id not in env and e.id not in self._BUILTINS:
            try:
                return self.folder.name(e.id, self.module, None)
            except NotConstant:
                defs = self.module.assigns.get(e.id) or []
                if len(defs) != 1:
                    raise
                return self.expr(defs[0], {})
        if isinstance(e, ast.Call):
            for u in self.uses:
                if e is u.call:
                    subj = self.expr(u.subject, env)
                    if not isinstance(subj, str):
                        raise NotConstant("regex applied to %r" % (subj,))
                    return u.apply(subj)
            f = e.func
            if isinstance(f, ast.Name) and isinstance(env.get(f.id), _Closure):
                clo = env[f.id]
                sub = LocalEval(self.folder, self.module, self.uses)
                sub.steps = self.steps
                a = clo.node.args
                names = [x.arg for x in list(a.posonlyargs) + list(a.args)]
                args = [self.expr(x, env) for x in e.args]
                kwargs = {k.arg: self.expr(k.value, env) for k in e.keywords if k.arg}
                if a.vararg or a.kwarg or a.kwonlyargs or len(args) > len(names):
                    raise NotConstant("call of nested %s" % f.id)
                env2 = dict(clo.env)
                nd = len(a.defaults)
                for i, nm in enumerate(names):
                    if i < len(args):
                        env2[nm] = args[i]
                    elif nm in kwargs:
                        env2[nm] = kwargs[nm]
                    elif i >= len(names) - nd:
                        env2[nm] = self.expr(a.defaults[i - (len(names) - nd)], clo.env)
                    else:
                        raise NotConstant("missing argument %s" % nm)
                v = sub._body(clo.node.body, env2)
                self.steps = sub.steps
                self.returned.extend(sub.returned)
                return v
            if call_tail(e) == "timegm" and len(e.args) == 1 and not e.keywords:
                t = self.expr(e.args[0], env)
                if not isinstance(t, tuple):
                    raise NotConstant("timegm of %r" % (t,))
                return TimegmValue(t)
            tgt = None
            if isinstance(f, ast.Name) and f.id not in env and f.id not in self._BUILTINS:
                tgt = self.folder.idx.resolve_name(self.module, f.id)
            elif isinstance(f, ast.Attribute) and f.attr not in self._METHODS:
                tgt = self.folder.idx.resolve_expr(self.module, f)
            if isinstance(tgt, FuncInfo) and tgt.cls is None:
                # a helper of the package (parse_date -> iso_utc_time_to_seconds): interpreted the same way
                sub = LocalEval(self.folder, tgt.module, self.uses)
                sub.steps = self.steps
                try:
                    v = sub.run(tgt, [self.expr(x, env) for x in e.args],
                                {k.arg: self.expr(k.value, env) for k in e.keywords if k.arg})
                finally:
                    self.steps = sub.steps
                return v
            if isinstance(f, (ast.Attribute, ast.Name)):
                target = self.stdlib_value(f, env)
                if target is not _NO_MODEL:
                    if not callable(target):
                        raise NotConstant("%s is not callable" % ast.unparse(f))
                    args = [self.expr(x, env) for x in e.args]
                    kwargs = {k.arg: self.expr(k.value, env) for k in e.keywords if k.arg}
                    if any(isinstance(x, (TimegmValue, _Opaque, _Closure)) for x in args + list(kwargs.values())):
                        raise NotConstant("%s applied to a symbolic value" % ast.unparse(f))
                    try:
                        return target(*args, **kwargs)
                    except Exception as ex:
                        # the library function itself rejects the arguments (datetime.date(2023, 2, 30))
                        raise _Raised("%s: %s (from %s)" % (type(ex).__name__, ex, ast.unparse(e)), e,
                                      self.guards[-1] if self.guards else None, type(ex))
            if isinstance(f, ast.Name) and f.id in ("int", "float") and f.id not in env and len(e.args) == 1:
                v = self.expr(e.args[0], env)
                if isinstance(v, TimegmValue):
                    return TimegmValue(v.fields, int(v.offset) if f.id == "int" else float(v.offset))
                return {"int": int, "float": float}[f.id](v)
            if isinstance(f, ast.Attribute) and f.attr in ("group", "groups", "groupdict", "start", "end", "span"):
                recv = self.expr(f.value, env)
                if isinstance(recv, re.Match):
                    return getattr(recv, f.attr)(*[self.expr(x, env) for x in e.args])
        return ConstEval._expr(self, e, env)


def _is_modelled(module, x):
    """x is a reference to a modelled standard-library constant / function (calendar.mdays, monthrange, ...)."""
    path = []
    while isinstance(x, ast.Attribute):
        path.append(x.attr)
        x = x.value
    if not isinstance(x, ast.Name):
        return False
    dotted = (module.imports.get(x.id) or "").split(".") + path[::-1]
    return len(dotted) >= 2 and dotted[0] in STDLIB_MODELS and dotted[1] in STDLIB_MODELS[dotted[0]]


def calendar_samples():
    """Legal calendar dates YYYY-MM-DD: first and last day of every month plus 28 (and 29) February, for leap years
    (also the century leap year 2000), ordinary years and the non-leap century year 2100."""
    import calendar as _cal
    out = []
    for y in (1970, 1972, 1999, 2000, 2023, 2024, 2028, 2038, 2100):
        for mth in range(1, 13):
            last = _cal.monthrange(y, mth)[1]
            days = {1, last} | ({28} if mth == 2 else set())
            out.extend("%04d-%02d-%02d" % (y, mth, dd) for dd in sorted(days))
    return out


LEAD_JUNK = ("x", "-", "1.", "1,", "= ", "x\n")
TRAIL_JUNK = ("x", " x", ".5", "\nx", " 7")


def whole_value(r, fn, u, what, samples, reading):
    """The grammar must cover the value from its first to its last character.  Decided from (anchors x method x
    MULTILINE); malformed probe strings built from well-formed samples give the concrete misreading: a probe that is
    accepted with a match that begins after its first / ends before its last character shows the ignored text."""
    good = [s for s in samples if u.apply(s)]
    if not good:
        raise AnalysisError("%s: none of the well-formed samples %r is accepted by %r" % (fn.qual, samples, u.pattern))
    wit = {"start": None, "end": None, "grammar": None}
    for lead, junks in ((True, LEAD_JUNK), (False, TRAIL_JUNK)):
        for s in good:
            for j in junks:
                t = j + s if lead else s + j
                mm = u.apply(t)
                if not mm:
                    continue
                if lead and mm.start() > 0:
                    wit["start"] = wit["start"] or (t, mm)
                elif not lead and mm.end() < len(t):
                    wit["end"] = wit["end"] or (t, mm)
                elif mm.span() == (0, len(t)):
                    wit["grammar"] = wit["grammar"] or (t, mm)
    ml = " under re.MULTILINE" if u.flags & re.MULTILINE else ""
    for side, ok in (("start", start_anchored(u)), ("end", end_anchored(u))):
        w = wit[side]
        if ok and w is None:
            continue
        if w is None:
            raise AnalysisError("%s: cannot decide whether %r applied with %s is anchored at the %s" % (
                fn.qual, u.pattern, u.describe(), side))
        why = ("it is applied with %s%s and has no %s anchor" % (u.describe(), ml, side)) if not ok else \
            "its %s admits other text" % side
        r.violation(fn, fn.loc(u.call), "%s pattern %r does not cover the whole value: %s, so text %s the value is ignored "
                    "instead of being rejected: %r is accepted and read as %s" % (
                        what, u.pattern, why, "before" if side == "start" else "after", w[0], reading(w[1])))
    if wit["grammar"]:
        w = wit["grammar"]
        r.violation(fn, fn.loc(u.call), "%s pattern %r accepts the malformed value %r and reads it as %s" % (
            what, u.pattern, w[0], reading(w[1])))


def strip_top(rast):
    """Top-level items of the pattern without anchors."""
    return [(op, av) for (op, av) in rast if op != "AT"]


def is_ws_star(item):
    """A repetition of whitespace only (\\s*, \\s+, ' ?', [ \\t]*)."""
    op, av = item
    if op == "LITERAL":
        return chr(av).isspace()
    if op != "MAX_REPEAT":
        return False
    lo, hi, sub = av
    if len(sub) != 1:
        return False
    k, v = sub[0]
    if k == "LITERAL":
        return chr(v).isspace()
    if k != "IN":
        return False
    for a, b in v:
        if a == "CATEGORY" and str(b) == "CATEGORY_SPACE":
            continue
        if a == "LITERAL" and chr(b).isspace():
            continue
        return False
    return True


def is_digits_plus(items):
    if len(items) != 1 or items[0][0] != "MAX_REPEAT":
        return False
    lo, hi, sub = items[0][1]
    if lo < 1 or len(sub) != 1 or sub[0][0] != "IN":
        return False
    for a, b in sub[0][1]:
        if a == "CATEGORY" and str(b) == "CATEGORY_DIGIT":
            continue
        if a == "RANGE" and b == (ord("0"), ord("9")):
            continue
        return False
    return True


def groups_of(rast):
    return [av for (op, av) in rast if op == "SUBPATTERN"]


def literal_block_after(text, marker, what):
    """Lines of the rst literal block that follows the first paragraph line matching `marker` and ending in '::'."""
    lines = text.splitlines()
    for i, ln in enumerate(lines):
        if re.search(marker, ln) and ln.rstrip().endswith("::"):
            out = []
            j = i + 1
            while j < len(lines) and not lines[j].strip():
                j += 1
            if j >= len(lines):
                break
            ind = len(lines[j]) - len(lines[j].lstrip())
            base = len(ln) - len(ln.lstrip())
            if ind <= base:
                break
            while j < len(lines) and (not lines[j].strip() or len(lines[j]) - len(lines[j].lstrip()) >= ind):
                if lines[j].strip():
                    out.append(lines[j].strip())
                j += 1
            return out
    raise AnchorVanished("documentation block %s not found" % what)


def resolve_dict(fnorm, node, e):
    """A dict literal, directly or through a local with one reaching definition (FlowNorm does not
    substitute mutable literals)."""
    if isinstance(e, ast.Dict):
        return e
    if isinstance(e, ast.Name):
        ds = fnorm.rd.get(node.id, {}).get(e.id)
        if ds and len(ds) == 1:
            (d,) = tuple(ds)
            if d >= 0:
                v = fnorm._def_value(fnorm.cfg.nodes[d], e.id)
                if isinstance(v, ast.Dict):
                    return v
    return None


def group_index(s):
    """'....group(2)' / '....groups()[1]' (optionally .lower()/.upper()) -> 2"""
    m = re.search(r"\.group\((\d+)\)(?:\.(?:lower|upper|casefold)\(\))?$", s)
    if m:
        return int(m.group(1))
    m = re.search(r"\.groups\(\)\[(\d+)\](?:\.(?:lower|upper|casefold)\(\))?$", s)
    if m:
        return int(m.group(1)) + 1
    return None


def plumbing_paths(r, fn, sscall, var, kw, parser, key, idx):
    """Follow the local `var` along every path of fn into StorageServer(kw=var): it must not arrive (a) still holding
    the configuration text, (b) with the parsed value replaced by a constant on a path that did not find it None /
    empty, (c) after the parser's rejection (an exception leaving the parser call) was handled and execution went on.
    A constant default for the absent reserved_space must be 0 (nothing reserved).  (d) Nor after an error raised while
    READING the present value (InterpolationError for a '%', ...) was handled: a handler around the get_config call
    that catches such a class and lets execution go on to StorageServer replaces a malformed value silently."""
    present = present_value_errors()

    def reads_key(c):
        return call_tail(c) == "get_config" and len(c.args) >= 2 and all(isinstance(x, ast.Constant) for x in c.args[:2]) \
            and (c.args[0].value, c.args[1].value) == ("storage", key)
    cfg = fn.cfg()
    fnorm = FlowNorm(fn)
    targets = [n for n in cfg.nodes if any(c is sscall for c in node_calls(n))]
    if len(targets) != 1:
        raise AnchorVanished("%s: the StorageServer(...) call is not one statement" % fn.qual)
    target = targets[0]
    varname = ast.Name(id=var, ctx=ast.Load())

    def classify(val, prev):
        if val is None:
            return "other"
        if isinstance(val, ast.Constant):
            if val.value is None:
                return "none"
            return "default:%r" % (val.value,) if prev.split(":")[0] in ("undef", "none", "empty", "default") else "clobbered"
        tails = {call_tail(c) for c in ast.walk(val) if isinstance(c, ast.Call)}
        if parser in tails:
            return "parsed"
        if tails & set(PARSERS):
            return "other"
        if "get_config" in tails:
            return "raw"
        if any(isinstance(x, ast.Name) and x.id == var for x in ast.walk(val)):
            return prev
        return "other"

    def transfer(n, lab, nxt, st):
        kind, rej = st
        if lab == "exc":
            if n.kind == "stmt" and any(call_tail(c) == parser for c in node_calls(n)):
                rej = rej or True
            if n.kind == "stmt" and nxt.kind == "except" and any(reads_key(c) for c in node_calls(n)):
                hcls = exc_class(idx, fn.module, nxt.ast.type)
                if any(exc_catches(idx, hc, u) for hc in hcls for u in present):
                    rej = "read"
            return (kind, rej)
        if n.kind == "stmt" and var in node_stores(n):
            kind = classify(fnorm._def_value(n, var), kind)
        elif n.kind == "test" and isinstance(lab, tuple) and kind in ("parsed", "raw"):
            f = fnorm.edge_fact(n, lab)
            vn = fnorm.norm(n, varname)
            if f and ((f[0] == "is" and set(f[1:]) == {vn, "None"}) or (f[0] == "false" and f[1] == vn)):
                kind = "empty"
        return (kind, rej)

    visited, parent = explore(cfg, ("undef", False), transfer)
    r.count(len(visited))
    seen = set()
    for (nid, st) in sorted(visited, key=lambda x: (x[0], x[1][0], str(x[1][1]))):
        if nid != target.id:
            continue
        kind, rej = st
        w = witness(cfg, parent, (nid, st))
        if rej == "read" and "rejread" not in seen:
            seen.add("rejread")
            r.violation(fn, fn.loc(sscall), "StorageServer(%s=...) is reached after an error raised while reading the present "
                        "[storage]%s value (configparser.InterpolationError for a '%%' in it, ...) was handled around "
                        "get_config: a malformed value does not stop the node, it is silently replaced" % (kw, key), w)
        if rej is True and "rej" not in seen:
            seen.add("rej")
            r.violation(fn, fn.loc(sscall), "StorageServer(%s=...) is reached after an exception of %s was handled: a "
                        "[storage]%s value the parser rejects does not stop the node, it is silently replaced" % (
                            kw, parser, key), w)
        if kind in seen:
            continue
        seen.add(kind)
        if kind == "raw":
            r.violation(fn, fn.loc(sscall), "on one path StorageServer(%s=...) receives the text of [storage]%s as read from "
                        "tahoe.cfg, not the value of %s" % (kw, key, parser), w)
        elif kind == "clobbered":
            r.violation(fn, fn.loc(sscall), "on one path the value %s produced for [storage]%s is overwritten by a constant "
                        "without having been found None/empty, before it reaches StorageServer(%s=...)" % (parser, key, kw), w)
        elif kind.startswith("default:") and kw == "reserved_space":
            r.require(kind in ("default:0", "default:0.0"), fn, fn.loc(sscall), "an absent [storage]%s reaches "
                      "StorageServer(%s=...) as %s, not as 0 (nothing reserved)" % (key, kw, kind[8:]), w)


# ------------------------------------------------------------------ exception classes of the configuration reader
CONFIG_READERS = ("get", "getboolean", "getint", "getfloat", "items", "options", "__getitem__")


def exc_class(idx, m, e, depth=0):
    """[class] an `except` type expression / base-class expression denotes: standard-library classes (builtins and
    configparser, whose hierarchy Error > NoSectionError, NoOptionError, InterpolationError > ... is taken from the
    library itself) as the real class objects, classes of the package as ClassInfo.  A tuple - also one held in a module
    constant - gives several."""
    import builtins
    import configparser as _cp
    if e is None:
        return [BaseException]
    if depth > 4:
        raise AnalysisError("exception class expression too deep: %s" % ast.unparse(e))
    if isinstance(e, ast.Tuple):
        return [c for x in e.elts for c in exc_class(idx, m, x, depth + 1)]
    if isinstance(e, ast.Attribute) and isinstance(e.value, ast.Name) and m.imports.get(e.value.id) == "configparser":
        c = getattr(_cp, e.attr, None)
        if isinstance(c, type) and issubclass(c, BaseException):
            return [c]
    if isinstance(e, ast.Name):
        imp = m.imports.get(e.id) or ""
        if imp.startswith("configparser."):
            c = getattr(_cp, imp[len("configparser."):], None)
            if isinstance(c, type) and issubclass(c, BaseException):
                return [c]
        if e.id not in m.imports and e.id not in m.classes and e.id not in m.assigns:
            c = getattr(builtins, e.id, None)
            if isinstance(c, type) and issubclass(c, BaseException):
                return [c]
        defs = m.assigns.get(e.id) or []
        if len(defs) == 1 and e.id not in m.classes:
            return exc_class(idx, m, defs[0], depth + 1)
    tgt = idx.resolve_expr(m, e)
    if isinstance(tgt, ClassInfo):
        return [tgt]
    raise AnalysisError("cannot resolve the exception class %s in %s" % (ast.unparse(e), m.name))


def exc_name(c):
    return c.name if isinstance(c, ClassInfo) else c.__name__


def exc_catches(idx, handler_cls, raised):
    """`except handler_cls` catches an exception of class `raised` (both as returned by exc_class)."""
    if isinstance(raised, ClassInfo):
        if isinstance(handler_cls, ClassInfo):
            return any(c.qual == handler_cls.qual for c in raised.mro())
        for c in raised.mro():
            for b in c.base_exprs:
                try:
                    bases = exc_class(idx, c.module, b)
                except AnalysisError:
                    continue
                if any(not isinstance(x, ClassInfo) and issubclass(x, handler_cls) for x in bases):
                    return True
        return False
    if isinstance(handler_cls, ClassInfo):
        return False
    return issubclass(raised, handler_cls)


def present_value_errors():
    """Exception classes ConfigParser raises while reading a PRESENT value (not: section/option absent)."""
    import configparser as _cp
    return [_cp.InterpolationError, _cp.InterpolationSyntaxError, _cp.InterpolationMissingOptionError,
            _cp.InterpolationDepthError, ValueError]


def config_reads(node_list):
    """Calls self.config.<reader>(...) / subscripts self.config[...] among the given statements."""
    out = []
    for st in node_list:
        for x in ast.walk(st):
            if isinstance(x, ast.Call) and isinstance(x.func, ast.Attribute) and x.func.attr in CONFIG_READERS \
                    and attr_path(x.func.value) == "self.config":
                out.append(x)
            elif isinstance(x, ast.Subscript) and isinstance(x.ctx, ast.Load) and attr_path(x.value) == "self.config":
                out.append(x)
    return out


def run(ctx: Context):
    idx = ctx.idx
    folder = get_folder(idx)

    # =================================================================== 1
    dur = {}
    with ctx.rule("C48.1", "R11", "parse_duration: pattern covering the whole value, digit-class number, unit language within the keys of "
                  "time_map, lower-cased key under IGNORECASE, multipliers second/day/31-day month/365-day year, "
                  "result int(number) * time_map[unit]", expected=4) as r:
        fn = idx.func(TF + ":parse_duration")
        param = first_positional_params(fn)[0]
        env = fold_locals(idx, fn)
        use = the_regex_use(idx, fn, env)
        mc, pattern, flags, flagnames, rast = use.call, use.pattern, use.flags, use.flagnames, use.rast
        r.site(fn, mc, "pattern")
        r.sample({"pattern": pattern, "flags": flagnames, "applied": use.describe()})
        whole_value(r, fn, use, "duration", ("12s", "12 days", "3mo", "2 years"),
                    lambda mm: "%s x %r" % (mm.group(1), mm.group(2)) if mm.re.groups >= 2 else repr(mm.group(0)))
        r.require(isinstance(use.subject, ast.Name) and use.subject.id == param, fn, fn.loc(mc),
                  "the pattern is matched against %s, not the argument" % src(fn, use.subject))
        top = strip_top(rast)
        grp = groups_of(rast)
        r.require(len(grp) == 2, fn, fn.loc(mc), "duration pattern %r does not have exactly a number and a unit group" % pattern)
        for it in top:
            if it[0] == "SUBPATTERN":
                continue
            r.require(is_ws_star(it), fn, fn.loc(mc), "duration pattern %r admits something other than optional whitespace "
                      "outside the number/unit groups" % pattern)
        units = None
        if len(grp) == 2:
            r.require(is_digits_plus(grp[0][1]), fn, fn.loc(mc), "the number group of %r is not a plain digit class: signs, "
                      "fractions or other text would be accepted and misread by int()" % pattern)
            units = regex_finite_language(grp[1][1])
            r.require(units is not None and "" not in (units or {""}), fn, fn.loc(mc),
                      "the unit group of %r is not a finite non-empty alternation" % pattern)
        # the table
        tm = None
        sub = None
        fnorm = FlowNorm(fn)
        rets = fn.cfg().find(is_return)
        for n in fn.cfg().nodes:
            for ex in node_exprs(n):
                for x in own_nodes(ex):
                    if isinstance(x, ast.Subscript):
                        d = resolve_dict(fnorm, n, x.value)
                        if d is not None:
                            try:
                                tm, sub, subnode = evaluate(idx, fn, d, env), x, n
                            except NotConstant as e:
                                raise AnalysisError("parse_duration: cannot fold the unit table (%s)" % e)
        if tm is None:
            raise AnchorVanished("parse_duration: no constant unit table subscripted in the result")
        r.site(fn, sub, "time_map")
        r.count(len(tm))
        keys = {str(k) for k in tm}
        tmv = {str(k): v for k, v in tm.items()}
        if units:
            low = {u.lower() for u in units} if (flags & re.IGNORECASE) else set(units)
            miss = sorted(low - keys)
            r.require(not miss, fn, fn.loc(sub), "unit spelling(s) %s are accepted by the pattern but missing from the "
                      "multiplier table: KeyError instead of a value" % miss)
        for k, v in sorted(tmv.items()):
            if k in DURATION_MEANING:
                r.require(v == DURATION_MEANING[k], fn, fn.loc(sub), "unit %r is worth %r seconds, documented meaning is %d"
                          % (k, v, DURATION_MEANING[k]))
            else:
                ctx.note("C48.1: unit %r (=%r s) has no frozen meaning in the rule table" % (k, v))
        # key is the lower-cased unit group
        keyn = fnorm.norm(subnode, sub.slice)
        gi = group_index(keyn)
        r.site(fn, sub.slice, "key " + keyn[-40:])
        r.require(gi == 2, fn, fn.loc(sub), "the multiplier is looked up with %s, not the unit group" % keyn[-60:])
        if flags & re.IGNORECASE:
            r.require(re.search(r"\.(lower|casefold)\(\)$", keyn) is not None, fn, fn.loc(sub),
                      "case-insensitive match but the table key is not lower-cased: 'DAYS' raises KeyError")
        # result
        for n in rets:
            v = fnorm.resolve(n, n.ast.value)
            r.site(fn, n.ast, "result")
            ok = isinstance(v, ast.BinOp) and isinstance(v.op, ast.Mult)
            if ok:
                ops = [fnorm.resolve(n, v.left), fnorm.resolve(n, v.right)]
                nums = [o for o in ops if isinstance(o, ast.Call) and call_name(o) == "int" and len(o.args) == 1
                        and group_index(fnorm.norm(n, o.args[0])) == 1]
                tabs = [o for o in ops if o is sub]
                ok = len(nums) == 1 and len(tabs) == 1
            r.require(ok, fn, fn.loc(n.ast), "result %s is not int(<number group>) * time_map[<unit>]" % src(fn, n.ast.value))
        # the result is computed only after the match was seen to succeed (a failed match is rejected by the branch
        # that raises, not by whatever the group access on None happens to do; a well-formed value is not rejected)
        for (n, w) in ungated_results(fn, fnorm, rets, mc):
            r.violation(fn, fn.loc(n.ast), "parse_duration reaches its result on a path that did not establish that the "
                        "pattern matched: the accept/reject decision of the grammar is inverted or ignored", w)
        dur = {"pattern": pattern, "flags": flags, "table": tmv, "fn": fn, "use": use}

    # =================================================================== 2
    with ctx.rule("C48.2", "R11", "every duration spelling documented in docs/garbage-collection.rst is accepted by "
                  "parse_duration's grammar with the documented value", expected=5) as r:
        if not dur:
            raise AnalysisError("the duration grammar could not be extracted (see C48.1)")
        fn = dur["fn"]
        doc = read_repo_text("docs/garbage-collection.rst")
        spellings = literal_block_after(doc, r"one of the following", "duration examples (garbage-collection.rst)")
        for sp in spellings:
            m0 = re.match(r"^(\d+)\s*([A-Za-z]+)$", sp)
            if not m0:
                continue
            r.site("documented duration %r" % sp)
            m = dur["use"].apply(sp)
            if not m:
                r.violation(fn.qual + "[%s]" % sp, fn.loc(), "documented duration %r is rejected by the grammar %r" % (
                    sp, dur["pattern"]))
                continue
            unit = m.group(2).lower()
            want = DURATION_MEANING.get(m0.group(2).lower())
            got = dur["table"].get(unit)
            r.require(got is not None and m.group(1) == m0.group(1) and (want is None or got == want),
                      fn.qual + "[%s]" % sp, fn.loc(), "documented duration %r parses to %s*%r, documented meaning %s*%r" % (
                          sp, m.group(1), got, m0.group(1), want))

    # =================================================================== 3
    size = {}
    with ctx.rule("C48.3", "R11", "parse_abbreviated_size: pattern covering the whole value, digit-class number, every suffix of the "
                  "grammar reaches an existing multiplier key worth 1000**n / 1024**n", expected=3) as r:
        fn = idx.func(AB + ":parse_abbreviated_size")
        param = first_positional_params(fn)[0]
        env = fold_locals(idx, fn)
        use = the_regex_use(idx, fn, env)
        mc, pattern, flags, flagnames, rast = use.call, use.pattern, use.flags, use.flagnames, use.rast
        r.site(fn, mc, "pattern")
        r.sample({"pattern": pattern, "flags": flagnames, "applied": use.describe()})
        whole_value(r, fn, use, "size", ("12", "12K", "12KIB", "12 MB", "5G"),
                    lambda mm: "%s x %r" % (mm.group(1), mm.group(2)) if mm.re.groups >= 2 else repr(mm.group(0)))
        subj = norm_plain(use.subject)
        if subj == param + ".upper()":
            xform = "upper"
        elif subj == param:
            xform = "id"
        else:
            raise AnalysisError("parse_abbreviated_size matches %s" % subj)
        grp = groups_of(rast)
        top = strip_top(rast)
        r.require(len(grp) == 2, fn, fn.loc(mc), "size pattern %r does not have exactly a number and a suffix group" % pattern)
        for it in top:
            if it[0] != "SUBPATTERN":
                r.require(is_ws_star(it), fn, fn.loc(mc), "size pattern %r admits something other than optional whitespace "
                          "outside its groups" % pattern)
        if len(grp) != 2:
            raise AnalysisError("size pattern has %d groups" % len(grp))
        r.require(is_digits_plus(grp[0][1]), fn, fn.loc(mc), "the number group of %r is not a plain digit class" % pattern)
        lang = regex_finite_language(grp[1][1])
        if lang is None:
            raise AnalysisError("suffix group of %r is not a finite language" % pattern)
        # the multiplier table and its key
        fnorm = FlowNorm(fn)
        cfg = fn.cfg()
        tabs = []
        for n in cfg.nodes:
            for e in node_exprs(n):
                for x in own_nodes(e):
                    if isinstance(x, ast.Subscript) and resolve_dict(fnorm, n, x.value) is not None:
                        tabs.append((n, x))
        if len(tabs) != 1:
            raise AnchorVanished("parse_abbreviated_size: expected one multiplier table lookup, found %d" % len(tabs))
        tnode, tsub = tabs[0]
        table = evaluate(idx, fn, resolve_dict(fnorm, tnode, tsub.value), env)
        r.site(fn, tsub, "multiplier table")
        if not isinstance(tsub.slice, ast.Name):
            raise AnalysisError("multiplier key is not a local name: %s" % src(fn, tsub.slice))
        var = tsub.slice.id
        # where the suffix variable is bound from the match
        starts = []
        for n in cfg.nodes:
            if n.kind == "stmt" and var in node_stores(n):
                v = fnorm._def_value(n, var)
                if v is not None and group_index(fnorm.at(n).norm(v)) == 2:
                    starts.append(n)
        if len(starts) != 1:
            raise AnchorVanished("parse_abbreviated_size: the suffix group is not bound to %r exactly once" % var)
        start = starts[0]
        ce = ConstEval(folder, fn.module)
        states = 0
        reached = {}
        for w in sorted(lang):
            def transfer(n, lab, nxt, st, _start=start):
                if lab == "exc":
                    return None
                if n is _start:
                    return st
                if n.kind == "test" and isinstance(lab, tuple):
                    try:
                        val = bool(ce.expr(n.ast, {var: st}))
                    except NotConstant:
                        return st
                    return st if val == (lab[0] == "T") else None
                if n.kind == "stmt" and var in node_stores(n):
                    v = fnorm._def_value(n, var)
                    if v is None:
                        raise AnalysisError("parse_abbreviated_size rewrites %s in a way the rule cannot interpret: %r" % (var, n))
                    try:
                        return ce.expr(v, {var: st})
                    except NotConstant as e:
                        raise AnalysisError("cannot interpret %r on suffix %r: %s" % (n, st, e))
                return st
            visited, _p = explore(cfg, w, transfer, start=start)
            states += len(visited)
            finals = {st for (nid, st) in visited if nid == tnode.id}
            if not finals:
                r.violation(fn, fn.loc(tsub), "suffix %r accepted by the grammar never reaches the multiplier table" % w)
            reached[w] = finals
        r.count(states)
        r.site(fn, start.ast, "suffix language %d words" % len(lang))
        meaning = {}
        for w in sorted(lang):
            core = w[:-1] if w.endswith("B") else w
            want = None
            if core in ("", "I"):
                want = 1
            elif len(core) in (1, 2) and core[0] in SCALE and core[1:] in ("", "I"):
                want = (1024 if core.endswith("I") else 1000) ** (SCALE.index(core[0]) + 1)
            meaning[w] = want
            for k in sorted(reached[w]):
                if k not in table:
                    r.violation(fn, fn.loc(tsub), "suffix %r is accepted by the grammar but reaches the table as %r, which is "
                                "not a key: KeyError instead of a value" % (w, k))
                elif want is not None:
                    r.require(table[k] == want, fn, fn.loc(tsub), "suffix %r is multiplied by %r, documented meaning %d" % (
                        w, table[k], want))
                else:
                    ctx.note("C48.3: suffix %r has no frozen meaning in the rule table" % w)
        # result
        nones = none_returns(fn, fnorm)
        valued = [n for n in cfg.find(is_return) if not any(n is x for x in nones)]
        if not valued:
            r.violation(fn, fn.loc(), "parse_abbreviated_size never returns int(<number>) * multiplier: every value is "
                        "read as None (no reservation)")
        for (n, w) in ungated_results(fn, fnorm, valued, mc):
            r.violation(fn, fn.loc(n.ast), "parse_abbreviated_size reaches its result on a path that did not establish that "
                        "the pattern matched: the accept/reject decision of the grammar is inverted or ignored", w)
        # None (= no reservation configured) is returned only for the absent / empty value
        empties = empty_value_facts(param)
        for (n, w) in find_path_avoiding(cfg, lambda x: any(x is y for y in nones),
                                         gate_edge=lambda x, lab: fnorm.edge_fact(x, lab) in empties):
            r.violation(fn, fn.loc(n.ast), "parse_abbreviated_size returns None (read by client.py as 'nothing reserved') on "
                        "a path that did not establish that the value is absent or empty: a non-empty value is silently "
                        "read as no reservation instead of being parsed or rejected", w)
        for n in valued:
            v = fnorm.resolve(n, n.ast.value)
            ok = isinstance(v, ast.BinOp) and isinstance(v.op, ast.Mult)
            if ok:
                ops = [fnorm.resolve(n, v.left), fnorm.resolve(n, v.right)]
                nums = [o for o in ops if isinstance(o, ast.Call) and call_name(o) == "int" and len(o.args) == 1
                        and group_index(fnorm.norm(n, o.args[0])) == 1]
                tb = [o for o in ops if o is tsub]
                ok = len(nums) == 1 and len(tb) == 1
            r.require(ok, fn, fn.loc(n.ast), "result %s is not int(<number group>) * multiplier[<suffix>]" % src(fn, n.ast.value))
        size = {"pattern": pattern, "flags": flags, "xform": xform, "fn": fn, "meaning": meaning, "reached": reached,
                "table": table, "how": use.how}

    size_how = size["how"] if size else None

    def size_parse(sp, how=size_how):
        """Model of parse_abbreviated_size on one spelling: value or None when the grammar rejects it."""
        subject = sp.upper() if size["xform"] == "upper" else sp
        m = getattr(re, how)(size["pattern"], subject, size["flags"])
        if not m:
            return None
        w = m.group(2)
        ks = size["reached"].get(w) or size["reached"].get(w.upper()) or set()
        if len(ks) != 1 or list(ks)[0] not in size["table"]:
            return None
        return int(m.group(1)) * size["table"][list(ks)[0]]

    # =================================================================== 4
    with ctx.rule("C48.4", "R11", "every reserved_space spelling documented in docs/configuration.rst is accepted by "
                  "parse_abbreviated_size with the documented value", expected=8) as r:
        if not size:
            raise AnalysisError("the size grammar could not be extracted (see C48.3)")
        fn = size["fn"]
        doc = read_repo_text("docs/configuration.rst")
        m = re.search(r"^``reserved_space = .*?(?=^``[a-z_.]+ ?=)", doc, re.S | re.M)
        if not m:
            raise AnchorVanished("reserved_space section of docs/configuration.rst")
        para = m.group(0)
        sent = re.findall(r"So (.*?) all mean the same thing\. Likewise, (.*?) all\s+mean the same thing", " ".join(para.split()))
        if not sent:
            raise AnchorVanished("the two lists of equivalent reserved_space spellings in docs/configuration.rst")
        groups = [re.findall(r'"([^"]+)"', g) for g in sent[0]]
        default = re.findall(r"reserved_space=(\w+)", para)
        for g in groups:
            vals = {}
            for sp in g:
                r.site("documented size %r" % sp)
                v = size_parse(sp)
                vals[sp] = v
                if v is None:
                    r.violation(fn.qual + "[%s]" % sp, fn.loc(), "documented reserved_space spelling %r is rejected by the "
                                "grammar %r" % (sp, size["pattern"]))
            good = {v for v in vals.values() if v is not None}
            r.require(len(good) <= 1, fn, fn.loc(), "spellings documented as equivalent parse to different values: %r" % vals)
        for sp in default:
            r.site("documented default %r" % sp)
            r.require(size_parse(sp) is not None, fn.qual + "[%s]" % sp, fn.loc(), "documented default reserved_space=%s is "
                      "rejected" % sp)

    # =================================================================== 5
    date = {}
    with ctx.rule("C48.5", "R11", "parse_date = int(iso_utc_time_to_seconds(s + 'T00:00:00')); the regex groups year..second "
                  "feed calendar.timegm in that order; documented dates and every calendar date (month ends, leap days) are "
                  "accepted and read as midnight of that day", expected=6) as r:
        fn = idx.func(TF + ":parse_date")
        p = first_positional_params(fn)[0]
        rets = fn.cfg().find(is_return)
        fnorm = FlowNorm(fn)
        want = norm_src("int(iso_utc_time_to_seconds(%s + 'T00:00:00'))" % p)
        for n in rets:
            r.site(fn, n.ast)
            r.require(fnorm.norm(n, n.ast.value) == want, fn, fn.loc(n.ast), "parse_date returns %s, not midnight UTC of the "
                      "given day (%s)" % (src(fn, n.ast.value), want))
        iso = idx.func(TF + ":iso_utc_time_to_seconds")
        # the regex: a default argument, a local/module constant or a literal, applied with any of match/search/fullmatch
        iuse = the_regex_use(idx, iso)
        mc, pattern, rast, how = iuse.call, iuse.pattern, iuse.rast, iuse.how
        r.site(iso, mc, "regex")
        r.sample({"pattern": pattern, "applied": iuse.describe()})
        r.require(norm_plain(iuse.subject) == first_positional_params(iso)[0], iso, iso.loc(mc),
                  "the date regex is applied to %s, not to the argument" % src(iso, iuse.subject))
        # group shapes
        shape = {}
        for (gid, sub) in groups_of(rast):
            shape[gid] = sub
        rx = re.compile(pattern, iuse.flags)
        names = {v: k for k, v in rx.groupindex.items()}
        widths = {"year": 4, "month": 2, "day": 2, "hour": 2, "minute": 2, "second": 2}
        for gid, sub in shape.items():
            nm = names.get(gid)
            if nm in widths:
                ok = len(sub) == 1 and sub[0][0] == "MAX_REPEAT" and sub[0][1][0] == widths[nm] and sub[0][1][1] == widths[nm]
                r.require(ok, iso, iso.loc(mc), "group %r of the date regex is not exactly %d digits" % (nm, widths[nm]))
        r.require(all(k in rx.groupindex for k in widths), iso, iso.loc(mc), "date regex lacks one of the groups %s" % sorted(widths))
        # timegm tuple order
        tg = [c for c in calls_in_func(iso) if call_tail(c) == "timegm"]
        if len(tg) != 1:
            raise AnchorVanished("iso_utc_time_to_seconds no longer calls calendar.timegm once")
        inorm = FlowNorm(iso)
        tnode = [n for n in iso.cfg().nodes if any(c is tg[0] for c in node_calls(n))][0]
        tup = inorm.resolve(tnode, tg[0].args[0]) if tg[0].args else None
        r.site(iso, tg[0], "timegm")
        order = ["year", "month", "day", "hour", "minute", "second"]
        if not (isinstance(tup, ast.Tuple) and len(tup.elts) >= 6):
            r.violation(iso, iso.loc(tg[0]), "calendar.timegm is not given a literal time tuple")
        else:
            mvar = None
            for i, nm in enumerate(order):
                s = inorm.norm(tnode, tup.elts[i])
                ok = re.match(r"^int\(.*\.group\((?:%r|%d)\)\)$" % (nm, rx.groupindex.get(nm, -1)), s) is not None
                r.require(ok, iso, iso.loc(tg[0]), "field %d of the time tuple is %s, expected int(<match>.group(%r))" % (
                    i, s[-50:], nm))
        # the returned value is that timegm (+ fraction)
        for n in iso.cfg().find(is_return):
            r.require(any(c is tg[0] for c in calls_feeding(iso, n.ast.value)) or contains_call(n.ast.value, "timegm"),
                      iso, iso.loc(n.ast), "iso_utc_time_to_seconds returns %s, not the timegm value" % src(iso, n.ast.value))
        # a failed match raises
        icfg = iso.cfg()
        mvar_nodes = [n for n in icfg.nodes if n.kind == "test"]
        bad = find_path_avoiding(icfg, lambda n: any(c is tg[0] for c in node_calls(n)),
                                 gate_edge=lambda n, lab: match_succeeded(inorm, n, lab, mc))
        for (n, w) in bad:
            r.violation(iso, iso.loc(n.ast), "the time tuple is built on a path that did not check that the regex matched", w)
        # documented dates
        doc = read_repo_text("docs/garbage-collection.rst")
        dates = [ln.split()[0] for ln in literal_block_after(doc, r"date in the following format", "cutoff date examples")]
        if len(dates) < 2:
            raise AnchorVanished("documented cutoff dates")
        for d in dates:
            r.site("documented date %r" % d)
            m = getattr(rx, how)(d + "T00:00:00")
            r.require(m is not None and m.group("year") + "-" + m.group("month") + "-" + m.group("day") == d
                      and m.group("hour") + m.group("minute") + m.group("second") == "000000",
                      iso.qual + "[%s]" % d, iso.loc(mc), "documented cutoff date %r is not read as midnight of that day" % d)
        # a date without a fraction is exactly timegm(year, month, day, 0, 0, 0): the function body interpreted on each
        # documented date (regex answered by the regex engine, timegm kept symbolic) adds nothing to it
        for d in dates:
            text = d + "T00:00:00"
            ev = LocalEval(folder, iso.module, [iuse])
            try:
                out = ev.run(iso, [text])
            except _Raised as ex:
                r.violation(iso.qual + "[%s]" % d, iso.loc(mc), "iso_utc_time_to_seconds(%r) (documented cutoff date %r) "
                            "raises %s" % (text, d, ex.what))
                continue
            except NotConstant as ex:
                raise AnalysisError("cannot interpret iso_utc_time_to_seconds on %r: %s" % (text, ex))
            r.count(ev.steps)
            fields = tuple(int(x) for x in d.split("-")) + (0, 0, 0)
            if not isinstance(out, TimegmValue):
                r.violation(iso, iso.loc(mc), "iso_utc_time_to_seconds(%r) evaluates to %r, not to the calendar.timegm value"
                            % (text, out))
                continue
            r.require(tuple(out.fields[:6]) == fields, iso, iso.loc(tg[0]), "iso_utc_time_to_seconds(%r) calls timegm with "
                      "the fields %r, expected %r" % (text, tuple(out.fields[:6]), fields))
            r.require(out.offset == 0, iso, iso.loc(tg[0]), "iso_utc_time_to_seconds(%r) (no fraction given) returns "
                      "timegm(...) %+g: the documented cutoff date %r is not read as midnight UTC of that day" % (
                          text, out.offset, d))
        # every date of the calendar is a legal cutoff date: parse_date itself (and through it iso_utc_time_to_seconds)
        # interpreted on the first and last day of every
        # month (and 28/29 February) of leap, non-leap and century years; a check the function makes on its fields
        # (against calendar.mdays, calendar.monthrange, datetime.date ...) is evaluated with the library's own tables
        rejected, misread = {}, []
        puses = [u for u in regex_uses(idx, fn) if u.call is not iuse.call] + [iuse]
        for d in calendar_samples():
            ev = LocalEval(folder, fn.module, puses)
            try:
                out = ev.run(fn, [d])
            except _Raised as ex:
                rejected.setdefault(id(ex.node), (ex, []))[1].append(d)
                continue
            except NotConstant as ex:
                raise AnalysisError("cannot interpret parse_date on %r: %s" % (d, ex))
            r.count(ev.steps)
            fields = tuple(int(x) for x in d.split("-")) + (0, 0, 0)
            if not isinstance(out, TimegmValue) or tuple(out.fields[:6]) != fields or out.offset != 0:
                misread.append((d, out))
        r.site("calendar dates (month ends, leap days)")
        for ex, ds in rejected.values():
            owner = fn if ex.node is not None and any(x is ex.node for x in ast.walk(fn.node)) else iso
            at = ex.node if ex.node is not None else mc
            why = ""
            if ex.guard is not None:
                why = " under the condition `%s`" % src(owner, ex.guard)
                tabs = sorted({ast.unparse(x) for x in ast.walk(ex.guard) if isinstance(x, (ast.Attribute, ast.Name))
                               and _is_modelled(owner.module, x)})
                if tabs:
                    why += " (%s knows no leap day / is not the calendar of the given year)" % ", ".join(tabs) \
                        if any(x.endswith("-02-29") for x in ds) else " (uses %s)" % ", ".join(tabs)
            r.violation(owner, owner.loc(at), "%s rejects %d valid calendar date(s), e.g. %s: it raises %s%s; "
                        "parse_date refuses a legal expire.cutoff_date" % (
                            owner.name, len(ds), ", ".join(repr(x) for x in ds[:5]), ex.what, why))
        if misread:
            d, out = misread[0]
            shown = "timegm%r%+g" % (tuple(out.fields[:6]), out.offset) if isinstance(out, TimegmValue) else repr(out)
            r.violation(fn, fn.loc(), "parse_date(%r) evaluates to %s, not to timegm of midnight UTC of that day "
                        "(%d calendar dates are misread)" % (d, shown, len(misread)))
        date = {"pattern": pattern, "rast": rast, "how": how, "iso": iso, "mc": mc, "fn": fn, "use": iuse, "rx": rx, "dates": dates}

    # =================================================================== 6
    with ctx.rule("C48.6", "R11", "the date grammar consumes the whole value: a cutoff date preceded or followed by other "
                  "text is rejected, not read as a different time", expected=1) as r:
        if not date:
            raise AnalysisError("the date grammar could not be extracted (see C48.5)")
        iso, mc, fn, iuse = date["iso"], date["mc"], date["fn"], date["use"]
        r.site(iso, mc, "end of pattern")
        how = date["how"]
        # A guard in parse_date itself pins the whole value when it (a) is applied to the argument, (b) covers it from
        # the first to the last character (anchors x method), (c) admits only a fixed-width digits-and-punctuation
        # shape and (d) gates every return; then the appended 'T00:00:00' is all that follows the day.
        p = first_positional_params(fn)[0]
        fcfg, fnorm = fn.cfg(), FlowNorm(fn)
        rets = [n for n in fcfg.find(is_return)]

        def fixed_shape(items):
            for op, av in items:
                if op == "AT" or op == "LITERAL":
                    continue
                if op == "SUBPATTERN":
                    if not fixed_shape(av[1]):
                        return False
                    continue
                if op == "MAX_REPEAT" and av[0] == av[1] and is_digits_plus([(op, (1, None, av[2]))]):
                    continue
                if op == "IN" and is_digits_plus([("MAX_REPEAT", (1, None, [(op, av)]))]):
                    continue
                return False
            return True

        def gates(u):
            return not find_path_avoiding(fcfg, lambda n: n in rets, gate_edge=lambda n, lab: match_succeeded(fnorm, n, lab, u.call))

        guard = None
        weak = []
        for u in regex_uses(idx, fn):
            lacks = [why for ok, why in (
                (norm_plain(u.subject) == p, "is not applied to the argument"),
                (start_anchored(u), "is not anchored at the start"),
                (end_anchored(u), "is not anchored at the end"),
                (fixed_shape(u.rast), "admits more than a fixed digits-and-punctuation shape"),
                (gates(u), "does not gate every return")) if not ok]
            if not lacks:
                guard = u
            else:
                weak.append("%r applied with %s %s" % (u.pattern, u.describe(), " and ".join(lacks)))
        noguard = ("parse_date does not check the shape of its argument first" if not weak else
                   "the check in parse_date does not pin the value (%s)" % "; ".join(weak))
        if guard is not None:
            r.sample({"guard": guard.pattern, "applied": guard.describe()})
            for d in date["dates"]:
                r.require(guard.apply(d) is not None, fn.qual + "[%s]" % d, fn.loc(guard.call), "documented cutoff date %r is "
                          "rejected by the guard %r of parse_date" % (d, guard.pattern))
                if guard.apply(d):
                    for t in [d + j for j in TRAIL_JUNK + ("T01:02:03",)] + [j + d for j in LEAD_JUNK]:
                        r.require(not guard.apply(t), fn, fn.loc(guard.call), "the guard %r of parse_date accepts the malformed "
                                  "value %r" % (guard.pattern, t))
        else:
            if not start_anchored(iuse):
                r.violation(iso, iso.loc(mc), "the date regex %r is applied with %s and has no start anchor, and %s: text "
                            "before the date is ignored instead of being rejected" % (date["pattern"], iuse.describe(), noguard))
            r.require(end_anchored(iuse), fn, iso.loc(mc), "the date regex %r is applied with %s and has no end anchor, and %s: "
                      "parse_date('2009-03-18T01:02:03') can match its own prefix, the appended 'T00:00:00' is ignored and "
                      "the value is read as 01:02:03 instead of being rejected" % (date["pattern"], iuse.describe(), noguard))

    # =================================================================== 7
    with ctx.rule("C48.7", "R11", "every output template of abbreviate_space lies in the grammar of parse_abbreviated_size",
                  expected=2) as r:
        if not size:
            raise AnalysisError("the size grammar could not be extracted (see C48.3)")
        pr = idx.func(AB + ":abbreviate_space")
        fns = [pr] + list(pr.nested.values())
        consts = set()
        tpls = []
        for f in fns:
            for n in func_own_nodes(f):
                if isinstance(n, ast.Constant) and isinstance(n.value, str) and 0 < len(n.value) <= 2 and "%" not in n.value:
                    consts.add(n.value)
                if isinstance(n, ast.BinOp) and isinstance(n.op, ast.Mod) and isinstance(n.left, ast.Constant) \
                        and isinstance(n.left.value, str):
                    tpls.append((f, n))
        if not tpls:
            raise AnchorVanished("abbreviate_space has no %-format output template")
        for (f, n) in tpls:
            tpl = n.left.value
            r.site(f, n, "template %r" % tpl)
            convs = [c for (k, c) in percent_tokens(tpl) if k == "conv"]
            choices = []
            for c in convs:
                if c in "diu":
                    choices.append([1023])
                elif c in "feEgG":
                    choices.append([1.5])
                elif c == "s":
                    choices.append(sorted(consts) or [""])
                else:
                    choices.append([1])
            samples = []
            for combo in itertools.islice(itertools.product(*choices), 400):
                try:
                    samples.append(tpl % combo)
                except (TypeError, ValueError):
                    pass
            r.count(len(samples))
            if not samples:
                raise AnalysisError("cannot instantiate the output template %r" % tpl)
            accepted = [s for s in samples if size_parse(s) is not None]
            r.require(bool(accepted), pr.qual + "[%s]" % tpl, f.loc(n), "no output of the form %r (e.g. %r) is in the grammar %r of "
                      "parse_abbreviated_size: what the node prints does not parse back" % (tpl, samples[0], size["pattern"]))

    # =================================================================== 9
    with ctx.rule("C48.9", "R11", "abbreviate_space interpreted on sample sizes: every printed text is <number> <unit> whose unit, "
                  "read with parse_abbreviated_size's own multiplier table, gives back the size to the printed precision; "
                  "an integer text that lies in the grammar parses back to exactly the size", expected=2) as r:
        if not size:
            raise AnalysisError("the size grammar could not be extracted (see C48.3)")
        from fractions import Fraction
        pr = idx.func(AB + ":abbreviate_space")
        a = pr.node.args
        pnames = [x.arg for x in list(a.posonlyargs) + list(a.args)]
        if not pnames:
            raise AnchorVanished("abbreviate_space takes no size argument")
        modes = [()]
        if len(pnames) >= 2:
            if len(pnames) > 2:
                raise AnalysisError("abbreviate_space takes arguments the rule does not know: %s" % pnames[2:])
            modes = [(True,), (False,)]
        probes = [0, 1, 999, 1000, 1023, 1024]
        for base in (1000, 1024):
            for k in range(1, 7):
                probes += [base ** k, (5 * base ** k) // 2, 999 * base ** k]
        probes = sorted(set(probes + [3 * 10 ** 21]))
        hit = set()
        own_returns = [n for f in [pr] + list(pr.nested.values()) for n in func_own_nodes(f) if isinstance(n, ast.Return)]

        def unit_meaning(word):
            w = word.upper()
            ks = size["reached"].get(w)
            if not ks or len(ks) != 1 or list(ks)[0] not in size["table"]:
                return None
            return size["table"][list(ks)[0]]

        for mode in modes:
            r.site(pr, pr.node, "mode %s" % (dict(zip(pnames[1:], mode)) or "default"))
            for s in probes:
                ev = LocalEval(folder, pr.module)
                try:
                    out = ev.run(pr, [s] + list(mode))
                except _Raised as ex:
                    r.violation(pr, pr.loc(), "abbreviate_space(%s) raises %s" % (", ".join(map(repr, (s,) + mode)), ex.what))
                    continue
                except NotConstant as ex:
                    raise AnalysisError("cannot interpret abbreviate_space(%s): %s" % (", ".join(map(repr, (s,) + mode)), ex))
                r.count(ev.steps)
                hit.update(id(x) for x in ev.returned)
                lastret = ev.returned[-1] if ev.returned else pr.node
                callrepr = "abbreviate_space(%s)" % ", ".join(map(repr, (s,) + mode))
                mm = re.fullmatch(r"(\d+(?:\.(\d+))?)\s*([A-Za-z]*)", out) if isinstance(out, str) else None
                if not mm:
                    r.violation(pr, pr.loc(lastret), "%s prints %r, which is not <number> <unit>" % (callrepr, out))
                    continue
                mult = unit_meaning(mm.group(3))
                if mult is None:
                    r.violation(pr, pr.loc(lastret), "%s prints %r: the unit %r is not one parse_abbreviated_size knows" % (
                        callrepr, out, mm.group(3)))
                    continue
                digits = len(mm.group(2) or "")
                err = abs(Fraction(mm.group(1)) * mult - s)
                tol = Fraction(mult, 2 * 10 ** digits) * Fraction(1000001, 1000000)
                if digits == 0:
                    tol = 0 if isinstance(s, int) else Fraction(mult)
                r.require(err <= tol, pr, pr.loc(lastret), "%s prints %r, which read with the parser's multiplier for %r (%d) "
                          "means %s bytes, not %d" % (callrepr, out, mm.group(3), mult, Fraction(mm.group(1)) * mult, s))
                if digits == 0:
                    back = size_parse(out)
                    r.require(back is None or back == s, pr, pr.loc(lastret), "%s prints %r, which parse_abbreviated_size "
                              "reads as %r" % (callrepr, out, back))
        missed = [n for n in own_returns if id(n) not in hit and not (
            isinstance(n.value, ast.Constant) and isinstance(n.value.value, str) and not n.value.value[:1].isdigit())]
        if missed:
            raise AnalysisError("abbreviate_space: the sample sizes never reach the output at %s" % ", ".join(
                pr.loc(n) for n in missed))

    # =================================================================== 8
    with ctx.rule("C48.8", "R11/R4", "client.py: reserved_space, expire.override_lease_duration and expire.cutoff_date reach "
                  "StorageServer through parse_abbreviated_size, parse_duration and parse_date respectively", expected=3) as r:
        cg = get_callgraph(idx)
        sites = [cs for cs in cg.calls_named("StorageServer") if cs.fn.module.name == "allmydata.client"
                 and kwarg(cs.call, "reserved_space") is not None]
        if len(sites) != 1:
            raise AnchorVanished("client.py no longer constructs StorageServer(reserved_space=...) exactly once")
        fn = sites[0].fn
        ss = [sites[0].call]
        plan = (("reserved_space", "parse_abbreviated_size", "reserved_space"),
                ("expiration_override_lease_duration", "parse_duration", "expire.override_lease_duration"),
                ("expiration_cutoff_date", "parse_date", "expire.cutoff_date"))
        for kw, parser, key in plan:
            v = kwarg(ss[0], kw)
            if v is None:
                raise AnchorVanished("StorageServer(...) is not given %s" % kw)
            r.site(fn, v, kw)
            feed = calls_feeding(fn, v)
            ps = sorted({call_tail(c) for c in feed if call_tail(c) in PARSERS})
            r.require(ps == [parser], fn, fn.loc(v), "StorageServer(%s=...) is fed by %s, expected %s" % (kw, ps or "no parser", parser))
            cfgkeys = set()
            for c in feed:
                if call_tail(c) == "get_config" and len(c.args) >= 2 and all(isinstance(x, ast.Constant) for x in c.args[:2]):
                    cfgkeys.add((c.args[0].value, c.args[1].value))
            r.require(cfgkeys == {("storage", key)}, fn, fn.loc(v), "StorageServer(%s=...) is read from %s, expected [storage]%s" % (
                kw, sorted(cfgkeys), key))
            for c in feed:
                if call_tail(c) == parser:
                    sub = calls_feeding(fn, c.args[0]) if c.args else []
                    ks = {(x.args[0].value, x.args[1].value) for x in sub if call_tail(x) == "get_config" and len(x.args) >= 2
                          and all(isinstance(y, ast.Constant) for y in x.args[:2])}
                    r.require(("storage", key) in ks, fn, fn.loc(c), "%s is applied to %s, not to [storage]%s" % (
                        parser, sorted(ks), key))
            # path-sensitive: what the local holds on each path into StorageServer(...)
            if isinstance(v, ast.Name):
                plumbing_paths(r, fn, ss[0], v.id, kw, parser, key, idx)

    # =================================================================== 10
    with ctx.rule("C48.10", "R11", "node.py _Config: a configuration accessor gives the caller's default (or any normal result) "
                  "after an exception only for the 'section/option absent' classes; an error raised while reading a "
                  "PRESENT value (configparser.InterpolationError family, ValueError of a typed getter, the accessor's own "
                  "UnescapedHashError) propagates", expected=3) as r:
        import configparser as _cp
        gc = idx.func("node:_Config.get_config")
        ci = gc.cls
        if ci is None:
            raise AnchorVanished("get_config is no longer a method of the configuration class")
        if not config_reads(gc.node.body):
            raise AnchorVanished("_Config.get_config no longer reads self.config.get*/[...]")
        absent = (_cp.NoSectionError, _cp.NoOptionError, KeyError)
        present_errors = present_value_errors()
        for meth in sorted(ci.methods.values(), key=lambda f: f.qual):
            reads = config_reads(meth.node.body)
            if not reads:
                continue
            m = meth.module
            cfg = meth.cfg()
            for c in reads:
                r.site(meth, c, "read")
            protected = []          # (description, located node, [handler classes], except-CFG-node or None, excvar)
            for t in func_own_nodes(meth):
                if isinstance(t, ast.Try) and config_reads(t.body):
                    # errors the body raises itself on a present value
                    own = []
                    for x in t.body:
                        for y in ast.walk(x):
                            if isinstance(y, ast.Raise) and y.exc is not None:
                                ex = y.exc.func if isinstance(y.exc, ast.Call) else y.exc
                                try:
                                    own.extend(exc_class(idx, m, ex))
                                except AnalysisError:
                                    pass
                    pending = list(present_errors) + own
                    for h in t.handlers:
                        hcls = exc_class(idx, m, h.type)
                        got = [u for u in pending if any(exc_catches(idx, hc, u) for hc in hcls)]
                        pending = [u for u in pending if not any(u is g for g in got)]
                        hn = [n for n in cfg.nodes if n.kind == "except" and n.ast is h]
                        if len(hn) != 1:
                            raise AnalysisError("%s: handler at %s not found in the CFG" % (meth.qual, meth.loc(h)))
                        protected.append((h, hcls, got, hn[0]))
                elif isinstance(t, (ast.With, ast.AsyncWith)) and config_reads(t.body):
                    for it in t.items:
                        ce = it.context_expr
                        if isinstance(ce, ast.Call) and call_tail(ce) == "suppress":
                            hcls = [c for a in ce.args for c in exc_class(idx, m, a)]
                            got = [u for u in present_errors if any(exc_catches(idx, hc, u) for hc in hcls)]
                            r.count(1)
                            r.require(not got, meth, meth.loc(ce), "%s suppresses %s around the read of self.config: an error "
                                      "raised while reading a PRESENT value (%s - e.g. '%%' in 'reserved_space = 10%%') is "
                                      "swallowed and the method goes on as if the option were absent" % (
                                          src(meth, ce), "/".join(exc_name(c) for c in hcls),
                                          ", ".join(exc_name(u) for u in got)))
            for (h, hcls, got, hnode) in protected:
                if not got:
                    r.count(1)
                    continue
                # follow the handler body: isinstance(<exc>, T) tests narrow the classes still in hand; reaching the
                # normal exit (return default, fall through) with a present-value error in hand swallows it
                var = h.name

                def transfer(n, lab, nxt, state, _var=var, _m=m, _h=hnode):
                    if lab == "exc":
                        return None
                    st, bound = state
                    if n.kind == "stmt" and _var and n is not _h and _var in node_stores(n):
                        bound = False       # the name no longer holds the caught exception: no more narrowing
                    if n.kind == "test" and isinstance(lab, tuple) and _var and bound:
                        t, pol = n.ast, lab[0] == "T"
                        while isinstance(t, ast.UnaryOp) and isinstance(t.op, ast.Not):
                            t, pol = t.operand, not pol
                        if isinstance(t, ast.Call) and call_name(t) == "isinstance" and len(t.args) == 2 \
                                and isinstance(t.args[0], ast.Name) and t.args[0].id == _var:
                            tcls = exc_class(idx, _m, t.args[1])
                            st = frozenset(i for i in st if any(exc_catches(idx, tc, got[i]) for tc in tcls) == pol)
                            if not st:
                                return None
                    return (st, bound)
                visited, parent = explore(cfg, (frozenset(range(len(got))), True), transfer, start=hnode)
                r.count(len(visited))
                ends = sorted(((nid, st) for (nid, st) in visited if nid == cfg.exit.id),
                              key=lambda x: (-len(x[1][0]), sorted(x[1][0]), x[1][1]))
                if ends:
                    nid, st = ends[0]
                    swallowed = [got[i] for i in sorted(st[0])]
                    r.violation(meth, meth.loc(h), "`except %s` of %s also catches %s, raised while reading a PRESENT value, "
                                "and the handler completes normally (returns the caller's default): a malformed value - e.g. "
                                "'reserved_space = 10%%', whose '%%' makes ConfigParser's interpolation fail - is silently read "
                                "as if the option were absent instead of stopping the node; only %s mean 'absent'" % (
                                    src(meth, h.type) if h.type is not None else "<everything>", short(meth),
                                    ", ".join(exc_name(u) for u in swallowed),
                                    "/".join(exc_name(c) for c in absent[:2])),
                                witness(cfg, parent, (nid, st)))

    if ctx.thorough:
        ctx.note("C48 (informational, undecided): \\d in the duration/size/date patterns also accepts non-ASCII decimal "
                 "digits (e.g. Arabic-Indic), which int() converts; str.upper()/lower() fold a few non-ASCII letters onto "
                 "ASCII unit letters.")
