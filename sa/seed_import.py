"""Confirm a seeded breaking change in a scratch worktree and keep it under /verif/seeded.

    /venv/bin/python -m sa.seed_import /tmp/seed/C35/A C35-A [--keep-anyway]

Steps (all in a fresh scratch git worktree of /repo, removed afterwards):
  1. demo.py must PASS (exit 0) on the unmodified tree
  2. `git apply patch.diff` must succeed
  3. the baseline test command must still give the 151 baseline passes and no new failure
  4. demo.py must FAIL (exit != 0) with the patch
Only then is <dir> copied to /verif/seeded/<id>/ with meta.json completed ("confirmed": what was run).
"""
import json
import os
import re
import shutil
import subprocess
import sys
import tempfile

VERIF = os.path.dirname(os.path.dirname(os.path.abspath(__file__)))
REPO = "/repo"
PY = "/venv/bin/python"


def sh(cmd, cwd=None, env=None, timeout=1200):
    r = subprocess.run(cmd, cwd=cwd, env=env, capture_output=True, text=True, timeout=timeout)
    return r.returncode, (r.stdout + r.stderr)


def run_tests(wt):
    env = dict(os.environ, PYTHONPATH=os.path.join(wt, "src"))
    rc, out = sh([PY, "-m", "pytest", "-q", "-p", "no:cacheprovider", "--timeout=900",
                  "--continue-on-collection-errors"], cwd=wt, env=env)
    m = re.search(r"(\d+) passed", out)
    passed = int(m.group(1)) if m else 0
    failed = int(re.search(r"(\d+) failed", out).group(1)) if re.search(r"(\d+) failed", out) else 0
    return passed, failed, out[-400:]


def main():
    src, sid = sys.argv[1], sys.argv[2]
    meta = json.load(open(os.path.join(src, "meta.json")))
    wt = tempfile.mkdtemp(prefix="seedchk-")
    os.rmdir(wt)
    log = {}
    try:
        subprocess.run(["git", "-C", REPO, "worktree", "add", "--detach", "-q", wt, "HEAD"], check=True)
        head = subprocess.run(["git", "-C", REPO, "rev-parse", "--short", "HEAD"], capture_output=True, text=True).stdout.strip()
        rc0, out0 = sh([PY, os.path.join(src, "demo.py"), wt], cwd=wt, timeout=600)
        log["demo_without_patch_exit"] = rc0
        rc, out = sh(["git", "-C", wt, "apply", os.path.join(src, "patch.diff")])
        log["patch_applies"] = (rc == 0)
        if rc != 0:
            print("REJECT %s: patch does not apply at %s: %s" % (sid, head, out[:300]))
            return 1
        passed, failed, tail = run_tests(wt)
        log["tests_with_patch"] = {"passed": passed, "failed": failed}
        rc1, out1 = sh([PY, os.path.join(src, "demo.py"), wt], cwd=wt, timeout=600)
        log["demo_with_patch_exit"] = rc1
        log["demo_with_patch_tail"] = out1[-300:]
        ok = rc0 == 0 and rc1 != 0 and passed >= 151 and failed == 0
        print("%s %s: demo clean=%d patched=%d, tests %d passed %d failed" % (
            "CONFIRMED" if ok else "REJECT", sid, rc0, rc1, passed, failed))
        if not ok:
            print(out0[-300:] if rc0 != 0 else out1[-300:])
            return 1
        dst = os.path.join(VERIF, "seeded", sid)
        shutil.rmtree(dst, ignore_errors=True)
        os.makedirs(dst)
        for f in ("patch.diff", "demo.py"):
            shutil.copy(os.path.join(src, f), os.path.join(dst, f))
        if os.environ.get("SEED_ROUND"):
            meta["round"] = int(os.environ["SEED_ROUND"])
        meta["confirmed"] = {
            "base_commit": head,
            "ran": ["git worktree add --detach <tmp> HEAD", "demo.py <tmp>  (exit %d, unmodified)" % rc0,
                    "git apply patch.diff", "PYTHONPATH=<tmp>/src /venv/bin/python -m pytest -q -p no:cacheprovider "
                    "--timeout=900 --continue-on-collection-errors  (%d passed, %d failed)" % (passed, failed),
                    "demo.py <tmp>  (exit %d, patched)" % rc1],
            "demo_failure_tail": out1[-300:],
        }
        json.dump(meta, open(os.path.join(dst, "meta.json"), "w"), indent=1)
        return 0
    finally:
        subprocess.run(["git", "-C", REPO, "worktree", "remove", "--force", wt], capture_output=True)
        shutil.rmtree(wt, ignore_errors=True)
        subprocess.run(["git", "-C", REPO, "worktree", "prune"], capture_output=True)


if __name__ == "__main__":
    sys.exit(main())
