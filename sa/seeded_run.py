"""Run the registered checks against the seeded breaking changes in /verif/seeded.

For each /verif/seeded/<id>/ (patch.diff + meta.json naming the property) a
scratch git worktree of /repo is created under $TMPDIR, the patch is applied
there, the property's quick check is run with SA_REPO pointing at it, and the
worktree is removed.  /repo itself is not touched.  Prints one line per seeded
change: CAUGHT (exit 1, VIOLATION) / MISSED (exit 0) / ERROR (exit 2).

    /venv/bin/python -m sa.seeded_run [id ...]
"""
import json
import os
import shutil
import subprocess
import sys
import tempfile

VERIF = os.path.dirname(os.path.dirname(os.path.abspath(__file__)))
REPO = "/repo"


def run_one(sid: str):
    d = os.path.join(VERIF, "seeded", sid)
    meta = json.load(open(os.path.join(d, "meta.json")))
    props = meta["property"] if isinstance(meta["property"], list) else [meta["property"]]
    extra = meta.get("also_check", [])
    wt = tempfile.mkdtemp(prefix="seedwt-")
    os.rmdir(wt)
    try:
        subprocess.run(["git", "-C", REPO, "worktree", "add", "--detach", "-q", wt, "HEAD"], check=True,
                       capture_output=True)
        ap = subprocess.run(["git", "-C", wt, "apply", os.path.join(d, "patch.diff")], capture_output=True, text=True)
        if ap.returncode != 0:
            return sid, props, "PATCH-DOES-NOT-APPLY", ap.stderr.strip()[:200]
        res = []
        for p in props + extra:
            if not os.path.exists(os.path.join(VERIF, "sa", "rules", p + ".py")):
                res.append((p, "NO-CHECK", ""))
                continue
            env = dict(os.environ, SA_REPO=wt)
            r = subprocess.run(["/venv/bin/python", "-m", "sa.check", p, "--no-evidence"], cwd=VERIF, env=env,
                               capture_output=True, text=True)
            first = ""
            for ln in r.stdout.splitlines():
                if ln.startswith("  rule="):
                    first = ln.strip()[:260]
                    break
                if ln.startswith("ANALYSIS-ERROR") and not first:
                    first = ln[:260]
            res.append((p, {0: "MISSED", 1: "CAUGHT", 2: "ERROR"}.get(r.returncode, "rc%d" % r.returncode), first))
        return sid, props, res, ""
    finally:
        subprocess.run(["git", "-C", REPO, "worktree", "remove", "--force", wt], capture_output=True)
        shutil.rmtree(wt, ignore_errors=True)
        subprocess.run(["git", "-C", REPO, "worktree", "prune"], capture_output=True)


def main():
    ids = sys.argv[1:] or sorted(x for x in os.listdir(os.path.join(VERIF, "seeded"))
                                 if os.path.exists(os.path.join(VERIF, "seeded", x, "meta.json")))
    caught = missed = 0
    for sid in ids:
        sid, props, res, err = run_one(sid)
        if isinstance(res, str):
            print("%-28s %s %s" % (sid, res, err))
            continue
        status = "CAUGHT" if any(s == "CAUGHT" for (_p, s, _f) in res if _p in props) else \
            ("CAUGHT-BY-OTHER" if any(s == "CAUGHT" for (_p, s, _f) in res) else "MISSED")
        if status.startswith("CAUGHT"):
            caught += 1
        else:
            missed += 1
        print("%-28s %-16s %s" % (sid, status, "; ".join("%s=%s %s" % x for x in res)))
    print("seeded: %d caught, %d missed" % (caught, missed))


if __name__ == "__main__":
    main()
