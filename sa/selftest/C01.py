from .runner import M

ENC = "src/allmydata/immutable/encode.py"
UPL = "src/allmydata/immutable/upload.py"
LAY = "src/allmydata/immutable/layout.py"
NODE = "src/allmydata/immutable/downloader/node.py"
SHARE = "src/allmydata/immutable/downloader/share.py"
FN = "src/allmydata/immutable/filenode.py"
URI = "src/allmydata/uri.py"
FINDER = "src/allmydata/immutable/downloader/finder.py"

V1_OFFSETS = ("        offsets['plaintext_hash_tree'] = x # UNUSED\n"
              "        x += self._segment_hash_size\n"
              "        offsets['crypttext_hash_tree'] = x\n"
              "        x += self._segment_hash_size\n"
              "        offsets['block_hashes'] = x\n"
              "        x += self._segment_hash_size\n"
              "        offsets['share_hashes'] = x\n"
              "        x += self._share_hashtree_size\n"
              "        offsets['uri_extension'] = x\n\n"
              "        if x >= 2**32:")

MUTANTS = [
    # ---- C01.1 size formulas
    M("numseg-floor-on-writer", ENC,
      "        self.num_segments = mathutil.div_ceil(self.file_size,\n                                              self.segment_size)\n",
      "        self.num_segments = self.file_size // self.segment_size\n", "C01.1"),
    M("reader-drops-zero-tail-fixup", NODE,
      "        if tail_segment_size == 0:\n            tail_segment_size = segment_size\n", "", "C01.1"),
    M("writer-drops-zero-tail-fixup", ENC,
      "        if not tail_size:\n            tail_size = self.segment_size\n", "", "C01.1"),
    M("reader-tail-not-padded", NODE,
      "        padded = mathutil.next_multiple(tail_segment_size, k)\n", "        padded = tail_segment_size\n", "C01.1"),
    M("reader-tail-block-from-unpadded", NODE,
      "        tail_block_size = tail_segment_padded // k\n", "        tail_block_size = tail_segment_size // k\n", "C01.1"),
    M("verifycap-k-n-swapped", ENC,
      "                                      self.required_shares, self.num_shares, self.file_size)",
      "                                      self.num_shares, self.required_shares, self.file_size)", "C01.1"),
    M("tail-codec-sized-with-segment", ENC,
      "        self._tail_codec.set_params(padded_tail_size,\n", "        self._tail_codec.set_params(self.segment_size,\n", "C01.1"),
    M("benign-fixup-as-not", NODE,
      "        if tail_segment_size == 0:\n            tail_segment_size = segment_size\n",
      "        if not tail_segment_size:\n            tail_segment_size = segment_size\n", None),
    M("benign-fixup-as-or", NODE,
      "        tail_segment_size = size % segment_size\n        if tail_segment_size == 0:\n            tail_segment_size = segment_size\n",
      "        tail_segment_size = (size % segment_size) or segment_size\n", None),
    M("benign-block-size-ceil", NODE,
      "        block_size = segment_size // k\n", "        block_size = mathutil.div_ceil(segment_size, k)\n", None),
    M("benign-writer-rename-local", ENC,
      "        tail_size = self.file_size % self.segment_size\n        if not tail_size:\n            tail_size = self.segment_size\n\n"
      "        # the tail codec is responsible for encoding tail_size bytes\n"
      "        padded_tail_size = mathutil.next_multiple(tail_size,\n",
      "        ts = self.file_size % self.segment_size\n        if ts == 0:\n            ts = self.segment_size\n\n"
      "        padded_tail_size = mathutil.next_multiple(ts,\n", None),
    M("benign-reader-inline-temp", NODE,
      "        padded = mathutil.next_multiple(tail_segment_size, k)\n        tail_segment_padded = padded\n",
      "        tail_segment_padded = mathutil.next_multiple(tail_segment_size, k)\n", None),
    # ---- C01.2 segment size rounding
    M("segsize-not-rounded", UPL,
      "            segsize = mathutil.next_multiple(segsize, k)\n", "", "C01.2"),
    M("segsize-rounded-to-n", UPL,
      "            segsize = mathutil.next_multiple(segsize, k)\n", "            segsize = mathutil.next_multiple(segsize, n)\n", "C01.2"),
    M("encoder-takes-n-as-k", ENC,
      "        self.required_shares = k\n        self.min_happiness = happy\n        self.num_shares = n\n",
      "        self.required_shares = n\n        self.min_happiness = happy\n        self.num_shares = k\n", "C01.2"),
    # ---- C01.3 header table
    M("reader-swaps-offset-names", SHARE,
      "                                  'block_hashes',\n                                  'share_hashes',\n",
      "                                  'share_hashes',\n                                  'block_hashes',\n", "C01.3"),
    M("reader-v2-table-start", SHARE,
      "            table_start = 0x14\n            self._fieldsize = 0x8\n",
      "            table_start = 0x10\n            self._fieldsize = 0x8\n", "C01.3"),
    M("writer-v2-format-narrow-sizes", LAY,
      "        offset_data = struct.pack(\">LQQQQQQQQ\",", "        offset_data = struct.pack(\">LLLQQQQQQ\",", "C01.3"),
    M("rbp-v2-fieldstruct", LAY,
      "            fieldsize = 0x8\n            fieldstruct = \">Q\"\n", "            fieldsize = 0x8\n            fieldstruct = \">L\"\n", "C01.3"),
    M("wbp2-length-prefix-width", LAY,
      "    fieldsize = 8\n    fieldstruct = \">Q\"\n", "    fieldsize = 8\n    fieldstruct = \">L\"\n", "C01.3"),
    M("reader-unpacks-five-fields", SHARE,
      "        fields = struct.unpack(\">\"+6*self._fieldstruct, table_s)", "        fields = struct.unpack(\">\"+5*self._fieldstruct, table_s)",
      "C01.3"),
    M("benign-reader-elif-order", SHARE,
      "        if version == 1:\n            table_start = 0x0c\n            self._fieldsize = 0x4\n            self._fieldstruct = \"L\"\n"
      "        elif version == 2:\n            table_start = 0x14\n            self._fieldsize = 0x8\n            self._fieldstruct = \"Q\"\n",
      "        if version == 2:\n            table_start = 20\n            self._fieldsize = 8\n            self._fieldstruct = \"Q\"\n"
      "        elif version == 1:\n            table_start = 12\n            self._fieldsize = 4\n            self._fieldstruct = \"L\"\n", None),
    # ---- C01.4 contiguity / order
    M("v1-unused-region-collapsed", LAY, V1_OFFSETS,
      V1_OFFSETS.replace("        offsets['plaintext_hash_tree'] = x # UNUSED\n        x += self._segment_hash_size\n",
                         "        offsets['plaintext_hash_tree'] = x # UNUSED\n"), "C01.4"),
    M("send-order-swapped", ENC,
      "        d.addCallback(lambda res: self.send_all_block_hash_trees())\n        d.addCallback(lambda res: self.send_all_share_hash_trees())\n",
      "        d.addCallback(lambda res: self.send_all_share_hash_trees())\n        d.addCallback(lambda res: self.send_all_block_hash_trees())\n",
      "C01.4"),
    M("allocated-size-forgets-length-field", LAY,
      "        return (self._offsets['uri_extension'] + self.fieldsize +\n                self._uri_extension_size)",
      "        return (self._offsets['uri_extension'] +\n                self._uri_extension_size)", "C01.4"),
    M("block-address-off-by-one", LAY,
      "        offset = self._offsets['data'] + segmentnum * self._block_size\n        assert offset + len(data)",
      "        offset = self._offsets['data'] + (segmentnum + 1) * self._block_size\n        assert offset + len(data)", "C01.4"),
    M("benign-put-block-hoist", LAY,
      "        offset = self._offsets['data'] + segmentnum * self._block_size\n        assert offset + len(data)",
      "        base = self._offsets['data']\n        offset = segmentnum * self._block_size + base\n        assert offset + len(data)", None),
    # ---- C01.5 UEB keys
    M("ueb-root-hash-key-renamed", ENC,
      "        self.uri_extension_data[\"crypttext_root_hash\"] = t[0]", "        self.uri_extension_data[\"crypttext_roothash\"] = t[0]", "C01.5"),
    M("ueb-segment-size-not-int", URI,
      "    for intkey in ('size', 'segment_size', 'num_segments',", "    for intkey in ('size', 'num_segments',", "C01.5"),
    M("ueb-undeclared-key", ENC,
      "        data['size'] = self.file_size\n", "        data['size'] = self.file_size\n        data['mtime'] = 0\n", "C01.5"),
    # ---- C01.6 pad / trim
    M("pad-any-short-read", ENC,
      "            if allow_short and len(data) < read_size:", "            if len(data) < read_size:", "C01.6",
      edits=[(ENC, "            if not allow_short:\n                precondition(len(data) == read_size, len(data), read_size)\n", "")]),
    M("allow-short-always", ENC,
      "                              crypttext_segment_hasher, allow_short=is_tail)",
      "                              crypttext_segment_hasher, allow_short=True)", "C01.6"),
    M("tail-codec-unused", ENC,
      "        codec = self._tail_codec if is_tail else self._codec\n", "        codec = self._codec\n", "C01.6"),
    M("no-trim", NODE,
      "            if tail:\n                segment = segment[:self.tail_segment_size]\n", "", "C01.6"),
    M("trim-to-padded-size", NODE,
      "                segment = segment[:self.tail_segment_size]\n", "                segment = segment[:self.tail_segment_padded]\n", "C01.6"),
    M("trim-every-segment", NODE,
      "            if tail:\n                segment = segment[:self.tail_segment_size]\n",
      "            segment = segment[:self.tail_segment_size]\n", "C01.6"),
    M("tail-test-off-by-one", NODE,
      "        tail = (segnum == self.num_segments-1)\n        codec = self._codec",
      "        tail = (segnum == self.num_segments)\n        codec = self._codec", "C01.6"),
    M("share-tail-block-length-dropped", SHARE,
      "        if tail:\n            blocklen = self._node.tail_block_size\n\n        block = self._received.pop(blockstart, blocklen)",
      "        block = self._received.pop(blockstart, blocklen)", "C01.6"),
    M("share-block-address", SHARE,
      "        blockstart = datastart + segnum * self._node.block_size\n        blocklen = self._node.block_size\n        if tail:\n            blocklen = self._node.tail_block_size\n\n        block",
      "        blockstart = datastart + segnum * self._node.tail_block_size\n        blocklen = self._node.block_size\n        if tail:\n            blocklen = self._node.tail_block_size\n\n        block",
      "C01.6"),
    M("tail-encoded-in-loop-only", ENC,
      "        for i in range(self.num_segments-1):", "        for i in range(self.num_segments):", "C01.6"),
    M("benign-pad-without-flag-but-checked", ENC,
      "            if allow_short and len(data) < read_size:", "            if len(data) < read_size:", None),
    M("benign-tail-flag-flipped-form", NODE,
      "        tail = (segnum == self.num_segments-1)\n        codec = self._codec",
      "        tail = (self.num_segments - 1 == segnum)\n        codec = self._codec", None),
    # ---- C01.7 CTR
    M("ctr-mod-15", FN, "        offset_small = offset % 16\n", "        offset_small = offset % 15\n", "C01.7"),
    M("ctr-div-32", FN, "        offset_big = offset // 16\n", "        offset_big = offset // 32\n", "C01.7"),
    M("ctr-residue-not-consumed", FN,
      "        aes.decrypt_data(self._decryptor, b\"\\x00\" * offset_small)\n", "", "C01.7"),
    M("ctr-offset-not-passed", FN,
      "        decryptor = DecryptingConsumer(consumer, self._readkey, offset)", "        decryptor = DecryptingConsumer(consumer, self._readkey, 0)",
      "C01.7"),
    M("ctr-iv-short", FN, "        iv = binascii.unhexlify(\"%032x\" % offset_big)", "        iv = binascii.unhexlify(\"%016x\" % offset_big)", "C01.7"),
    M("encryptor-recreated", UPL,
      "        if self._encryptor:\n            return defer.succeed(self._encryptor)\n\n", "", "C01.7"),
    M("hash-only-skips-counter", UPL,
      "            ciphertext = aes.encrypt_data(self._encryptor, chunk)\n            if hash_only:\n                self.log(\"  skipping encryption\", level=log.NOISY)\n            else:\n                cryptdata.append(ciphertext)\n            del ciphertext\n",
      "            if hash_only:\n                self.log(\"  skipping encryption\", level=log.NOISY)\n            else:\n                ciphertext = aes.encrypt_data(self._encryptor, chunk)\n                cryptdata.append(ciphertext)\n                del ciphertext\n",
      "C01.7"),
    M("benign-ctr-named-constant", FN,
      "        offset_big = offset // 16\n        offset_small = offset % 16\n",
      "        blk = 16\n        offset_small = offset % blk\n        offset_big = offset // blk\n", None),
    # ---- C01.8 every CommonShare is authoritative once the UEB is known (DYHB answers vs UEB, any order)
    M("late-commonshare-not-marked", FINDER,
      "            numsegs, authoritative = self.node.get_num_segments()\n            cs = CommonShare(numsegs, self._si_prefix, shnum,\n"
      "                             self._node_logparent)\n            if authoritative:\n                cs.set_authoritative_num_segments(numsegs)\n",
      "            numsegs, _ = self.node.get_num_segments()\n            cs = CommonShare(numsegs, self._si_prefix, shnum,\n"
      "                             self._node_logparent)\n", "C01.8", note="seeded C01-A"),
    M("late-commonshare-mark-inverted", FINDER,
      "            if authoritative:\n                cs.set_authoritative_num_segments(numsegs)\n",
      "            if not authoritative:\n                cs.set_authoritative_num_segments(numsegs)\n", "C01.8"),
    M("late-commonshare-marked-on-unrelated-condition", FINDER,
      "            if authoritative:\n                cs.set_authoritative_num_segments(numsegs)\n",
      "            if authoritative and self._hungry:\n                cs.set_authoritative_num_segments(numsegs)\n", "C01.8"),
    M("commonshare-registered-only-when-known", FINDER,
      "            if authoritative:\n                cs.set_authoritative_num_segments(numsegs)\n",
      "            if authoritative:\n                cs.set_authoritative_num_segments(numsegs)\n                self._commonshares[shnum] = cs\n",
      "C01.8", edits=[(FINDER, "            #     Yuck.\n            self._commonshares[shnum] = cs\n", "            #     Yuck.\n")]),
    M("late-commonshare-marked-with-guess", FINDER,
      "            if authoritative:\n                cs.set_authoritative_num_segments(numsegs)\n",
      "            if authoritative:\n                cs.set_authoritative_num_segments(self.node.guessed_num_segments)\n", "C01.8"),
    M("ueb-event-does-not-update-finder", NODE,
      "        self._sharefinder.update_num_segments()\n", "", "C01.8"),
    M("ueb-event-updates-before-parse", NODE,
      "        self._parse_and_store_UEB(UEB_s) # sets self._stuff\n",
      "        self._sharefinder.update_num_segments()\n        self._parse_and_store_UEB(UEB_s) # sets self._stuff\n", "C01.8",
      edits=[(NODE, "        # instances, and will populate new ones with the correct value.\n        self._sharefinder.update_num_segments()\n",
              "        # instances, and will populate new ones with the correct value.\n")]),
    M("update-marks-only-rootless", FINDER,
      "        for cs in self._commonshares.values():\n            cs.set_authoritative_num_segments(numsegs)\n",
      "        for cs in self._commonshares.values():\n            if cs.need_block_hash_root():\n"
      "                cs.set_authoritative_num_segments(numsegs)\n", "C01.8"),
    M("update-marks-with-guess", FINDER,
      "        for cs in self._commonshares.values():\n            cs.set_authoritative_num_segments(numsegs)\n",
      "        for cs in self._commonshares.values():\n            cs.set_authoritative_num_segments(self.node.guessed_num_segments)\n",
      "C01.8"),
    M("flag-set-only-when-tree-rebuilt", SHARE,
      "            self._block_hash_tree_leaves = numsegs\n        self._block_hash_tree_is_authoritative = True\n",
      "            self._block_hash_tree_leaves = numsegs\n            self._block_hash_tree_is_authoritative = True\n", "C01.8"),
    M("tree-only-grows", SHARE,
      "        if self._block_hash_tree_leaves != numsegs:\n", "        if self._block_hash_tree_leaves < numsegs:\n", "C01.8"),
    M("tree-rebuilt-leaves-stale", SHARE,
      "            self._block_hash_tree = IncompleteHashTree(numsegs)\n            self._block_hash_tree_leaves = numsegs\n",
      "            self._block_hash_tree = IncompleteHashTree(numsegs)\n", "C01.8"),
    M("benign-authoritative-renamed", FINDER,
      "            numsegs, authoritative = self.node.get_num_segments()\n            cs = CommonShare(numsegs, self._si_prefix, shnum,\n"
      "                             self._node_logparent)\n            if authoritative:\n                cs.set_authoritative_num_segments(numsegs)\n",
      "            n, known = self.node.get_num_segments()\n            cs = CommonShare(n, self._si_prefix, shnum,\n"
      "                             self._node_logparent)\n            if not known:\n                pass\n            else:\n"
      "                cs.set_authoritative_num_segments(n)\n", None),
    M("benign-authoritative-by-index", FINDER,
      "            numsegs, authoritative = self.node.get_num_segments()\n            cs = CommonShare(numsegs, self._si_prefix, shnum,\n"
      "                             self._node_logparent)\n            if authoritative:\n                cs.set_authoritative_num_segments(numsegs)\n",
      "            best = self.node.get_num_segments()\n            cs = CommonShare(best[0], self._si_prefix, shnum,\n"
      "                             self._node_logparent)\n            self._commonshares[shnum] = cs\n            if best[1]:\n"
      "                cs.set_authoritative_num_segments(best[0])\n", None),
    M("benign-authoritative-by-have-ueb", FINDER,
      "            if authoritative:\n                cs.set_authoritative_num_segments(numsegs)\n",
      "            if self.node.have_UEB:\n                cs.set_authoritative_num_segments(self.node.num_segments)\n", None),
    M("benign-register-then-update-all", FINDER,
      "            if authoritative:\n                cs.set_authoritative_num_segments(numsegs)\n",
      "            self._commonshares[shnum] = cs\n            if authoritative:\n                self.update_num_segments()\n", None),
    M("benign-update-loop-items", FINDER,
      "        for cs in self._commonshares.values():\n            cs.set_authoritative_num_segments(numsegs)\n",
      "        for shnum, common in self._commonshares.items():\n            common.set_authoritative_num_segments(numsegs)\n", None),
    M("benign-flag-set-first", SHARE,
      "        if self._block_hash_tree_leaves != numsegs:\n            self._block_hash_tree = IncompleteHashTree(numsegs)\n"
      "            self._block_hash_tree_leaves = numsegs\n        self._block_hash_tree_is_authoritative = True\n",
      "        self._block_hash_tree_is_authoritative = True\n        if numsegs == self._block_hash_tree_leaves:\n            return\n"
      "        self._block_hash_tree_leaves = numsegs\n        self._block_hash_tree = IncompleteHashTree(numsegs)\n", None),
    M("benign-update-after-have-ueb-swapped", NODE,
      "        self.have_UEB = True\n\n", "", None,
      edits=[(NODE, "        # instances, and will populate new ones with the correct value.\n        self._sharefinder.update_num_segments()\n",
              "        # instances, and will populate new ones with the correct value.\n        self._sharefinder.update_num_segments()\n"
              "        self.have_UEB = True\n")]),
    # ---- C01.9 nothing is submitted until every fetched piece has arrived (read answers in any order)
    M("partial-block-hash-chain-submitted", SHARE,
      "                block_hashes[hashnum] = hashdata\n            else:\n                return False # missing some hashes\n",
      "                block_hashes[hashnum] = hashdata\n        if not block_hashes:\n            return False # the hashes have not arrived yet\n",
      "C01.9", note="seeded C01-B"),
    M("missing-block-hash-skipped", SHARE,
      "                block_hashes[hashnum] = hashdata\n            else:\n                return False # missing some hashes\n",
      "                block_hashes[hashnum] = hashdata\n            else:\n                continue # not here yet\n", "C01.9"),
    M("partial-ciphertext-hash-chain-submitted", SHARE,
      "            if hashdata:\n                hashes[hashnum] = hashdata\n            else:\n                return False # missing some hashes\n",
      "            if hashdata is None:\n                continue\n            hashes[hashnum] = hashdata\n", "C01.9"),
    M("block-hashes-submitted-one-by-one", SHARE,
      "                block_hashes[hashnum] = hashdata\n            else:\n",
      "                block_hashes[hashnum] = hashdata\n                self._commonshare.process_block_hashes({hashnum: hashdata})\n            else:\n",
      "C01.9"),
    M("ueb-body-not-awaited", SHARE,
      "        if not UEB_s:\n            return False\n", "", "C01.9"),
    M("offset-table-not-awaited", SHARE,
      "        if table_s is None:\n            return False\n", "", "C01.9"),
    M("missing-share-hashes-reported-satisfied", SHARE,
      "        if not hashdata:\n            return False\n        share_hashes = {}\n",
      "        if not hashdata:\n            return True\n        share_hashes = {}\n", "C01.9"),
    M("missing-block-falls-through", SHARE,
      "                    level=log.NOISY, parent=self._lp, umid=\"aK0RFw\")\n            return False\n",
      "                    level=log.NOISY, parent=self._lp, umid=\"aK0RFw\")\n", "C01.9"),
    M("benign-missing-flag", SHARE,
      "        block_hashes = {}\n        for hashnum in needed_hashes:\n"
      "            hashdata = self._received.get(o_bh+hashnum*HASH_SIZE, HASH_SIZE)\n            if hashdata:\n"
      "                block_hashes[hashnum] = hashdata\n            else:\n                return False # missing some hashes\n",
      "        block_hashes = {}\n        incomplete = False\n        for hashnum in needed_hashes:\n"
      "            hd = self._received.get(o_bh+hashnum*HASH_SIZE, HASH_SIZE)\n            if hd is not None:\n"
      "                block_hashes[hashnum] = hd\n            else:\n                incomplete = True\n"
      "        if incomplete:\n            return False\n", None),
    M("benign-missing-test-flipped", SHARE,
      "            if hashdata:\n                hashes[hashnum] = hashdata\n            else:\n                return False # missing some hashes\n",
      "            if not hashdata:\n                return False\n            hashes.update({hashnum: hashdata})\n", None),
    M("benign-ueb-length-none-test", SHARE,
      "        if not UEB_length_s:\n            return False\n", "        if UEB_length_s is None:\n            return False\n", None),
    M("benign-block-missing-return-none", SHARE,
      "                    level=log.NOISY, parent=self._lp, umid=\"aK0RFw\")\n            return False\n",
      "                    level=log.NOISY, parent=self._lp, umid=\"aK0RFw\")\n            got = False\n            return got\n", None),
    # ---- vanished anchor
    M("vanish-calculate-sizes", NODE, "    def _calculate_sizes(self, segment_size):", "    def _calculate_sizesX(self, segment_size):",
      "ANALYSIS-ERROR"),
    M("vanish-update-num-segments", FINDER, "    def update_num_segments(self):", "    def refresh_num_segments(self):", "ANALYSIS-ERROR",
      edits=[(NODE, "        self._sharefinder.update_num_segments()\n", "        self._sharefinder.refresh_num_segments()\n")]),
]
