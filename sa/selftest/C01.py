from .runner import M

ENC = "src/allmydata/immutable/encode.py"
UPL = "src/allmydata/immutable/upload.py"
LAY = "src/allmydata/immutable/layout.py"
NODE = "src/allmydata/immutable/downloader/node.py"
SHARE = "src/allmydata/immutable/downloader/share.py"
FN = "src/allmydata/immutable/filenode.py"
URI = "src/allmydata/uri.py"
FINDER = "src/allmydata/immutable/downloader/finder.py"

V1_OFFSETS = ("        offsets['plaintext_hash_tree'] = x # UNUSED\n"
              "        x += self._segment_hash_size\n"
              "        offsets['crypttext_hash_tree'] = x\n"
              "        x += self._segment_hash_size\n"
              "        offsets['block_hashes'] = x\n"
              "        x += self._segment_hash_size\n"
              "        offsets['share_hashes'] = x\n"
              "        x += self._share_hashtree_size\n"
              "        offsets['uri_extension'] = x\n\n"
              "        if x >= 2**32:")

CODEC = "src/allmydata/codec.py"
EAU_SIZE_MEMO = "        if self._file_size is not None:\n            return defer.succeed(self._file_size)\n"
FH_SEEK_END = "        self._filehandle.seek(0, os.SEEK_END)\n"
FH_SIZE_MEMO = "        if self._size is not None:\n            return defer.succeed(self._size)\n" + FH_SEEK_END
CODEC_DECODE_TAIL = ("        return await defer_to_thread(\n            self.decoder.decode,\n            some_shares,\n"
                     "            [int(s) for s in their_shareids]\n        )\n")

LOOP_HEAD = "    # internal methods\n    def loop(self):\n"
LOOP_HELPERS_HEAD = ("    # internal methods\n"
                     "    def _next_server(self):\n"
                     "        if self._servers is None:\n            return None\n"
                     "        server = next(self._servers, None)\n"
                     "        if server is None:\n            self._servers = None\n"
                     "        return server\n\n"
                     "    def _may_send_more(self):\n"
                     "        non_overdue = self.pending_requests - self.overdue_requests\n"
                     "        return len(non_overdue) < self.max_outstanding_requests\n\n"
                     "    def loop(self):\n")
LOOP_LIMIT = ("        non_overdue = self.pending_requests - self.overdue_requests\n"
              "        if len(non_overdue) >= self.max_outstanding_requests:\n"
              "            # cannot send more requests, must wait for some to retire\n"
              "            return\n\n")
LOOP_TAKE = ("        server = None\n"
             "        try:\n"
             "            if self._servers:\n"
             "                server = next(self._servers)\n"
             "        except StopIteration:\n"
             "            self._servers = None\n\n"
             "        if server:\n")

MUTANTS = [
    # ---- C01.1 size formulas
    M("numseg-floor-on-writer", ENC,
      "        self.num_segments = mathutil.div_ceil(self.file_size,\n                                              self.segment_size)\n",
      "        self.num_segments = self.file_size // self.segment_size\n", "C01.1"),
    M("reader-drops-zero-tail-fixup", NODE,
      "        if tail_segment_size == 0:\n            tail_segment_size = segment_size\n", "", "C01.1"),
    M("writer-drops-zero-tail-fixup", ENC,
      "        if not tail_size:\n            tail_size = self.segment_size\n", "", "C01.1"),
    M("reader-tail-not-padded", NODE,
      "        padded = mathutil.next_multiple(tail_segment_size, k)\n", "        padded = tail_segment_size\n", "C01.1"),
    M("reader-tail-block-from-unpadded", NODE,
      "        tail_block_size = tail_segment_padded // k\n", "        tail_block_size = tail_segment_size // k\n", "C01.1"),
    M("verifycap-k-n-swapped", ENC,
      "                                      self.required_shares, self.num_shares, self.file_size)",
      "                                      self.num_shares, self.required_shares, self.file_size)", "C01.1"),
    M("tail-codec-sized-with-segment", ENC,
      "        self._tail_codec.set_params(padded_tail_size,\n", "        self._tail_codec.set_params(self.segment_size,\n", "C01.1"),
    M("benign-fixup-as-not", NODE,
      "        if tail_segment_size == 0:\n            tail_segment_size = segment_size\n",
      "        if not tail_segment_size:\n            tail_segment_size = segment_size\n", None),
    M("benign-fixup-with-pass", NODE,
      "        if tail_segment_size == 0:\n            tail_segment_size = segment_size\n",
      "        if tail_segment_size == 0:\n            pass\n            tail_segment_size = segment_size\n", None),
    M("benign-fixup-as-or", NODE,
      "        tail_segment_size = size % segment_size\n        if tail_segment_size == 0:\n            tail_segment_size = segment_size\n",
      "        tail_segment_size = (size % segment_size) or segment_size\n", None),
    M("benign-block-size-ceil", NODE,
      "        block_size = segment_size // k\n", "        block_size = mathutil.div_ceil(segment_size, k)\n", None),
    M("benign-writer-rename-local", ENC,
      "        tail_size = self.file_size % self.segment_size\n        if not tail_size:\n            tail_size = self.segment_size\n\n"
      "        # the tail codec is responsible for encoding tail_size bytes\n"
      "        padded_tail_size = mathutil.next_multiple(tail_size,\n",
      "        ts = self.file_size % self.segment_size\n        if ts == 0:\n            ts = self.segment_size\n\n"
      "        padded_tail_size = mathutil.next_multiple(ts,\n", None),
    M("benign-reader-inline-temp", NODE,
      "        padded = mathutil.next_multiple(tail_segment_size, k)\n        tail_segment_padded = padded\n",
      "        tail_segment_padded = mathutil.next_multiple(tail_segment_size, k)\n", None),
    # ---- C01.2 segment size rounding
    M("segsize-not-rounded", UPL,
      "            segsize = mathutil.next_multiple(segsize, k)\n", "", "C01.2"),
    M("segsize-rounded-to-n", UPL,
      "            segsize = mathutil.next_multiple(segsize, k)\n", "            segsize = mathutil.next_multiple(segsize, n)\n", "C01.2"),
    M("encoder-takes-n-as-k", ENC,
      "        self.required_shares = k\n        self.min_happiness = happy\n        self.num_shares = n\n",
      "        self.required_shares = n\n        self.min_happiness = happy\n        self.num_shares = k\n", "C01.2"),
    # ---- C01.3 header table
    M("reader-swaps-offset-names", SHARE,
      "                                  'block_hashes',\n                                  'share_hashes',\n",
      "                                  'share_hashes',\n                                  'block_hashes',\n", "C01.3"),
    M("reader-v2-table-start", SHARE,
      "            table_start = 0x14\n            self._fieldsize = 0x8\n",
      "            table_start = 0x10\n            self._fieldsize = 0x8\n", "C01.3"),
    M("writer-v2-format-narrow-sizes", LAY,
      "        offset_data = struct.pack(\">LQQQQQQQQ\",", "        offset_data = struct.pack(\">LLLQQQQQQ\",", "C01.3"),
    M("rbp-v2-fieldstruct", LAY,
      "            fieldsize = 0x8\n            fieldstruct = \">Q\"\n", "            fieldsize = 0x8\n            fieldstruct = \">L\"\n", "C01.3"),
    M("wbp2-length-prefix-width", LAY,
      "    fieldsize = 8\n    fieldstruct = \">Q\"\n", "    fieldsize = 8\n    fieldstruct = \">L\"\n", "C01.3"),
    M("reader-unpacks-five-fields", SHARE,
      "        fields = struct.unpack(\">\"+6*self._fieldstruct, table_s)", "        fields = struct.unpack(\">\"+5*self._fieldstruct, table_s)",
      "C01.3"),
    M("benign-reader-table-start-renamed", SHARE,
      "            table_start = 0x0c\n            self._fieldsize = 0x4\n", "            tstart = 0x0c\n            self._fieldsize = 0x4\n", None,
      edits=[(SHARE, "            table_start = 0x14\n            self._fieldsize = 0x8\n", "            tstart = 0x14\n            self._fieldsize = 0x8\n"),
             (SHARE, "        table_s = self._received.pop(table_start, offset_table_size)\n",
              "        table_s = self._received.pop(tstart, offset_table_size)\n")]),
    M("benign-reader-elif-order", SHARE,
      "        if version == 1:\n            table_start = 0x0c\n            self._fieldsize = 0x4\n            self._fieldstruct = \"L\"\n"
      "        elif version == 2:\n            table_start = 0x14\n            self._fieldsize = 0x8\n            self._fieldstruct = \"Q\"\n",
      "        if version == 2:\n            table_start = 20\n            self._fieldsize = 8\n            self._fieldstruct = \"Q\"\n"
      "        elif version == 1:\n            table_start = 12\n            self._fieldsize = 4\n            self._fieldstruct = \"L\"\n", None),
    M("benign-rbp-locals-renamed", LAY,
      "            x = 0x0c\n            fieldsize = 0x4\n            fieldstruct = \">L\"\n        else:\n            precondition(len(data) >= 0x44)\n"
      "            x = 0x14\n            fieldsize = 0x8\n            fieldstruct = \">Q\"\n\n        self._version = version\n"
      "        self._fieldsize = fieldsize\n        self._fieldstruct = fieldstruct\n",
      "            pos = 0x0c\n            width = 0x4\n            fmt = \">L\"\n        else:\n            precondition(len(data) >= 0x44)\n"
      "            pos = 0x14\n            width = 0x8\n            fmt = \">Q\"\n\n        self._version = version\n"
      "        self._fieldsize = width\n        self._fieldstruct = fmt\n", None,
      edits=[(LAY, "            offset = struct.unpack(fieldstruct, data[x:x+fieldsize])[0]\n            x += fieldsize\n",
              "            offset = struct.unpack(fmt, data[pos:pos+width])[0]\n            pos += width\n")]),
    M("benign-process-return-hoisted", NODE,
      "            return (segment, decodetime)\n", "            result = (segment, decodetime)\n            return result\n", None),
    M("benign-chunks-return-hoisted", ENC,
      "            return encrypted_pieces\n", "            pieces = encrypted_pieces\n            return pieces\n", None),
    # ---- C01.4 contiguity / order
    M("v1-unused-region-collapsed", LAY, V1_OFFSETS,
      V1_OFFSETS.replace("        offsets['plaintext_hash_tree'] = x # UNUSED\n        x += self._segment_hash_size\n",
                         "        offsets['plaintext_hash_tree'] = x # UNUSED\n"), "C01.4"),
    M("send-order-swapped", ENC,
      "        d.addCallback(lambda res: self.send_all_block_hash_trees())\n        d.addCallback(lambda res: self.send_all_share_hash_trees())\n",
      "        d.addCallback(lambda res: self.send_all_share_hash_trees())\n        d.addCallback(lambda res: self.send_all_block_hash_trees())\n",
      "C01.4"),
    M("allocated-size-forgets-length-field", LAY,
      "        return (self._offsets['uri_extension'] + self.fieldsize +\n                self._uri_extension_size)",
      "        return (self._offsets['uri_extension'] +\n                self._uri_extension_size)", "C01.4"),
    M("block-address-off-by-one", LAY,
      "        offset = self._offsets['data'] + segmentnum * self._block_size\n        assert offset + len(data)",
      "        offset = self._offsets['data'] + (segmentnum + 1) * self._block_size\n        assert offset + len(data)", "C01.4"),
    M("benign-put-block-hoist", LAY,
      "        offset = self._offsets['data'] + segmentnum * self._block_size\n        assert offset + len(data)",
      "        base = self._offsets['data']\n        offset = segmentnum * self._block_size + base\n        assert offset + len(data)", None),
    # ---- C01.5 UEB keys
    M("ueb-root-hash-key-renamed", ENC,
      "        self.uri_extension_data[\"crypttext_root_hash\"] = t[0]", "        self.uri_extension_data[\"crypttext_roothash\"] = t[0]", "C01.5"),
    M("ueb-segment-size-not-int", URI,
      "    for intkey in ('size', 'segment_size', 'num_segments',", "    for intkey in ('size', 'num_segments',", "C01.5"),
    M("ueb-undeclared-key", ENC,
      "        data['size'] = self.file_size\n", "        data['size'] = self.file_size\n        data['mtime'] = 0\n", "C01.5"),
    # ---- C01.6 pad / trim
    M("pad-any-short-read", ENC,
      "            if allow_short and len(data) < read_size:", "            if len(data) < read_size:", "C01.6",
      edits=[(ENC, "            if not allow_short:\n                precondition(len(data) == read_size, len(data), read_size)\n", "")]),
    M("allow-short-always", ENC,
      "                              crypttext_segment_hasher, allow_short=is_tail)",
      "                              crypttext_segment_hasher, allow_short=True)", "C01.6"),
    M("tail-codec-unused", ENC,
      "        codec = self._tail_codec if is_tail else self._codec\n", "        codec = self._codec\n", "C01.6"),
    M("no-trim", NODE,
      "            if tail:\n                segment = segment[:self.tail_segment_size]\n", "", "C01.6"),
    M("trim-to-padded-size", NODE,
      "                segment = segment[:self.tail_segment_size]\n", "                segment = segment[:self.tail_segment_padded]\n", "C01.6"),
    M("trim-every-segment", NODE,
      "            if tail:\n                segment = segment[:self.tail_segment_size]\n",
      "            segment = segment[:self.tail_segment_size]\n", "C01.6"),
    M("tail-test-off-by-one", NODE,
      "        tail = (segnum == self.num_segments-1)\n        codec = self._codec",
      "        tail = (segnum == self.num_segments)\n        codec = self._codec", "C01.6"),
    M("share-tail-block-length-dropped", SHARE,
      "        if tail:\n            blocklen = self._node.tail_block_size\n\n        block = self._received.pop(blockstart, blocklen)",
      "        block = self._received.pop(blockstart, blocklen)", "C01.6"),
    M("share-block-address", SHARE,
      "        blockstart = datastart + segnum * self._node.block_size\n        blocklen = self._node.block_size\n        if tail:\n            blocklen = self._node.tail_block_size\n\n        block",
      "        blockstart = datastart + segnum * self._node.tail_block_size\n        blocklen = self._node.block_size\n        if tail:\n            blocklen = self._node.tail_block_size\n\n        block",
      "C01.6"),
    M("tail-encoded-in-loop-only", ENC,
      "        for i in range(self.num_segments-1):", "        for i in range(self.num_segments):", "C01.6"),
    M("exact-length-demanded-of-the-tail", ENC,
      "            if not allow_short:\n                precondition(len(data) == read_size, len(data), read_size)\n",
      "            if allow_short:\n                precondition(len(data) == read_size, len(data), read_size)\n", "C01.6", note="sweep survivor"),
    M("exact-length-demanded-of-every-segment", ENC,
      "            if not allow_short:\n                precondition(len(data) == read_size, len(data), read_size)\n",
      "            precondition(len(data) == read_size, len(data), read_size)\n", "C01.6"),
    M("benign-exact-length-else-branch", ENC,
      "            if not allow_short:\n                precondition(len(data) == read_size, len(data), read_size)\n",
      "            if allow_short:\n                pass\n            else:\n                precondition(read_size == len(data), len(data), read_size)\n", None),
    M("short-tail-not-padded", ENC,
      "            if allow_short and len(data) < read_size:", "            if allow_short and len(data) >= read_size:", "C01.6", note="sweep survivor"),
    M("benign-pad-test-flipped-form", ENC,
      "            if allow_short and len(data) < read_size:", "            if allow_short and not (read_size <= len(data)):", None),
    M("benign-pad-unconditionally-for-tail", ENC,
      "            if allow_short and len(data) < read_size:", "            if allow_short:", None),
    M("benign-pad-also-when-exact", ENC,
      "            if allow_short and len(data) < read_size:", "            if allow_short and len(data) <= read_size:", None, note="sweep survivor, pads 0 bytes"),
    M("benign-pad-without-flag-but-checked", ENC,
      "            if allow_short and len(data) < read_size:", "            if len(data) < read_size:", None),
    M("benign-tail-flag-flipped-form", NODE,
      "        tail = (segnum == self.num_segments-1)\n        codec = self._codec",
      "        tail = (self.num_segments - 1 == segnum)\n        codec = self._codec", None),
    # ---- C01.7 CTR
    M("ctr-mod-15", FN, "        offset_small = offset % 16\n", "        offset_small = offset % 15\n", "C01.7"),
    M("ctr-div-32", FN, "        offset_big = offset // 16\n", "        offset_big = offset // 32\n", "C01.7"),
    M("ctr-residue-not-consumed", FN,
      "        aes.decrypt_data(self._decryptor, b\"\\x00\" * offset_small)\n", "", "C01.7"),
    M("ctr-offset-not-passed", FN,
      "        decryptor = DecryptingConsumer(consumer, self._readkey, offset)", "        decryptor = DecryptingConsumer(consumer, self._readkey, 0)",
      "C01.7"),
    M("ctr-iv-short", FN, "        iv = binascii.unhexlify(\"%032x\" % offset_big)", "        iv = binascii.unhexlify(\"%016x\" % offset_big)", "C01.7"),
    M("encryptor-recreated", UPL,
      "        if self._encryptor:\n            return defer.succeed(self._encryptor)\n\n", "", "C01.7"),
    M("hash-only-skips-counter", UPL,
      "            ciphertext = aes.encrypt_data(self._encryptor, chunk)\n            if hash_only:\n                self.log(\"  skipping encryption\", level=log.NOISY)\n            else:\n                cryptdata.append(ciphertext)\n            del ciphertext\n",
      "            if hash_only:\n                self.log(\"  skipping encryption\", level=log.NOISY)\n            else:\n                ciphertext = aes.encrypt_data(self._encryptor, chunk)\n                cryptdata.append(ciphertext)\n                del ciphertext\n",
      "C01.7"),
    M("benign-ctr-named-constant", FN,
      "        offset_big = offset // 16\n        offset_small = offset % 16\n",
      "        blk = 16\n        offset_small = offset % blk\n        offset_big = offset // blk\n", None),
    # ---- C01.8 every CommonShare is authoritative once the UEB is known (DYHB answers vs UEB, any order)
    M("late-commonshare-not-marked", FINDER,
      "            numsegs, authoritative = self.node.get_num_segments()\n            cs = CommonShare(numsegs, self._si_prefix, shnum,\n"
      "                             self._node_logparent)\n            if authoritative:\n                cs.set_authoritative_num_segments(numsegs)\n",
      "            numsegs, _ = self.node.get_num_segments()\n            cs = CommonShare(numsegs, self._si_prefix, shnum,\n"
      "                             self._node_logparent)\n", "C01.8", note="seeded C01-A"),
    M("late-commonshare-mark-inverted", FINDER,
      "            if authoritative:\n                cs.set_authoritative_num_segments(numsegs)\n",
      "            if not authoritative:\n                cs.set_authoritative_num_segments(numsegs)\n", "C01.8"),
    M("late-commonshare-marked-on-unrelated-condition", FINDER,
      "            if authoritative:\n                cs.set_authoritative_num_segments(numsegs)\n",
      "            if authoritative and self._hungry:\n                cs.set_authoritative_num_segments(numsegs)\n", "C01.8"),
    M("commonshare-registered-only-when-known", FINDER,
      "            if authoritative:\n                cs.set_authoritative_num_segments(numsegs)\n",
      "            if authoritative:\n                cs.set_authoritative_num_segments(numsegs)\n                self._commonshares[shnum] = cs\n",
      "C01.8", edits=[(FINDER, "            #     Yuck.\n            self._commonshares[shnum] = cs\n", "            #     Yuck.\n")]),
    M("late-commonshare-marked-with-guess", FINDER,
      "            if authoritative:\n                cs.set_authoritative_num_segments(numsegs)\n",
      "            if authoritative:\n                cs.set_authoritative_num_segments(self.node.guessed_num_segments)\n", "C01.8"),
    M("ueb-event-does-not-update-finder", NODE,
      "        self._sharefinder.update_num_segments()\n", "", "C01.8"),
    M("ueb-event-updates-before-parse", NODE,
      "        self._parse_and_store_UEB(UEB_s) # sets self._stuff\n",
      "        self._sharefinder.update_num_segments()\n        self._parse_and_store_UEB(UEB_s) # sets self._stuff\n", "C01.8",
      edits=[(NODE, "        # instances, and will populate new ones with the correct value.\n        self._sharefinder.update_num_segments()\n",
              "        # instances, and will populate new ones with the correct value.\n")]),
    M("update-marks-only-rootless", FINDER,
      "        for cs in self._commonshares.values():\n            cs.set_authoritative_num_segments(numsegs)\n",
      "        for cs in self._commonshares.values():\n            if cs.need_block_hash_root():\n"
      "                cs.set_authoritative_num_segments(numsegs)\n", "C01.8"),
    M("update-marks-with-guess", FINDER,
      "        for cs in self._commonshares.values():\n            cs.set_authoritative_num_segments(numsegs)\n",
      "        for cs in self._commonshares.values():\n            cs.set_authoritative_num_segments(self.node.guessed_num_segments)\n",
      "C01.8"),
    M("flag-set-only-when-tree-rebuilt", SHARE,
      "            self._block_hash_tree_leaves = numsegs\n        self._block_hash_tree_is_authoritative = True\n",
      "            self._block_hash_tree_leaves = numsegs\n            self._block_hash_tree_is_authoritative = True\n", "C01.8"),
    M("tree-only-grows", SHARE,
      "        if self._block_hash_tree_leaves != numsegs:\n", "        if self._block_hash_tree_leaves < numsegs:\n", "C01.8"),
    M("tree-rebuilt-leaves-stale", SHARE,
      "            self._block_hash_tree = IncompleteHashTree(numsegs)\n            self._block_hash_tree_leaves = numsegs\n",
      "            self._block_hash_tree = IncompleteHashTree(numsegs)\n", "C01.8"),
    M("benign-authoritative-renamed", FINDER,
      "            numsegs, authoritative = self.node.get_num_segments()\n            cs = CommonShare(numsegs, self._si_prefix, shnum,\n"
      "                             self._node_logparent)\n            if authoritative:\n                cs.set_authoritative_num_segments(numsegs)\n",
      "            n, known = self.node.get_num_segments()\n            cs = CommonShare(n, self._si_prefix, shnum,\n"
      "                             self._node_logparent)\n            if not known:\n                pass\n            else:\n"
      "                cs.set_authoritative_num_segments(n)\n", None),
    M("benign-authoritative-by-index", FINDER,
      "            numsegs, authoritative = self.node.get_num_segments()\n            cs = CommonShare(numsegs, self._si_prefix, shnum,\n"
      "                             self._node_logparent)\n            if authoritative:\n                cs.set_authoritative_num_segments(numsegs)\n",
      "            best = self.node.get_num_segments()\n            cs = CommonShare(best[0], self._si_prefix, shnum,\n"
      "                             self._node_logparent)\n            self._commonshares[shnum] = cs\n            if best[1]:\n"
      "                cs.set_authoritative_num_segments(best[0])\n", None),
    M("benign-authoritative-by-have-ueb", FINDER,
      "            if authoritative:\n                cs.set_authoritative_num_segments(numsegs)\n",
      "            if self.node.have_UEB:\n                cs.set_authoritative_num_segments(self.node.num_segments)\n", None),
    M("benign-register-then-update-all", FINDER,
      "            if authoritative:\n                cs.set_authoritative_num_segments(numsegs)\n",
      "            self._commonshares[shnum] = cs\n            if authoritative:\n                self.update_num_segments()\n", None),
    M("benign-update-loop-items", FINDER,
      "        for cs in self._commonshares.values():\n            cs.set_authoritative_num_segments(numsegs)\n",
      "        for shnum, common in self._commonshares.items():\n            common.set_authoritative_num_segments(numsegs)\n", None),
    M("benign-flag-set-first", SHARE,
      "        if self._block_hash_tree_leaves != numsegs:\n            self._block_hash_tree = IncompleteHashTree(numsegs)\n"
      "            self._block_hash_tree_leaves = numsegs\n        self._block_hash_tree_is_authoritative = True\n",
      "        self._block_hash_tree_is_authoritative = True\n        if numsegs == self._block_hash_tree_leaves:\n            return\n"
      "        self._block_hash_tree_leaves = numsegs\n        self._block_hash_tree = IncompleteHashTree(numsegs)\n", None),
    M("benign-update-after-have-ueb-swapped", NODE,
      "        self.have_UEB = True\n\n", "", None,
      edits=[(NODE, "        # instances, and will populate new ones with the correct value.\n        self._sharefinder.update_num_segments()\n",
              "        # instances, and will populate new ones with the correct value.\n        self._sharefinder.update_num_segments()\n"
              "        self.have_UEB = True\n")]),
    # ---- C01.9 nothing is submitted until every fetched piece has arrived (read answers in any order)
    M("partial-block-hash-chain-submitted", SHARE,
      "                block_hashes[hashnum] = hashdata\n            else:\n                return False # missing some hashes\n",
      "                block_hashes[hashnum] = hashdata\n        if not block_hashes:\n            return False # the hashes have not arrived yet\n",
      "C01.9", note="seeded C01-B"),
    M("missing-block-hash-skipped", SHARE,
      "                block_hashes[hashnum] = hashdata\n            else:\n                return False # missing some hashes\n",
      "                block_hashes[hashnum] = hashdata\n            else:\n                continue # not here yet\n", "C01.9"),
    M("partial-ciphertext-hash-chain-submitted", SHARE,
      "            if hashdata:\n                hashes[hashnum] = hashdata\n            else:\n                return False # missing some hashes\n",
      "            if hashdata is None:\n                continue\n            hashes[hashnum] = hashdata\n", "C01.9"),
    M("block-hashes-submitted-one-by-one", SHARE,
      "                block_hashes[hashnum] = hashdata\n            else:\n",
      "                block_hashes[hashnum] = hashdata\n                self._commonshare.process_block_hashes({hashnum: hashdata})\n            else:\n",
      "C01.9"),
    M("ueb-body-not-awaited", SHARE,
      "        if not UEB_s:\n            return False\n", "", "C01.9"),
    M("offset-table-not-awaited", SHARE,
      "        if table_s is None:\n            return False\n", "", "C01.9"),
    M("missing-share-hashes-reported-satisfied", SHARE,
      "        if not hashdata:\n            return False\n        share_hashes = {}\n",
      "        if not hashdata:\n            return True\n        share_hashes = {}\n", "C01.9"),
    M("missing-block-falls-through", SHARE,
      "                    level=log.NOISY, parent=self._lp, umid=\"aK0RFw\")\n            return False\n",
      "                    level=log.NOISY, parent=self._lp, umid=\"aK0RFw\")\n", "C01.9"),
    M("benign-missing-flag", SHARE,
      "        block_hashes = {}\n        for hashnum in needed_hashes:\n"
      "            hashdata = self._received.get(o_bh+hashnum*HASH_SIZE, HASH_SIZE)\n            if hashdata:\n"
      "                block_hashes[hashnum] = hashdata\n            else:\n                return False # missing some hashes\n",
      "        block_hashes = {}\n        incomplete = False\n        for hashnum in needed_hashes:\n"
      "            hd = self._received.get(o_bh+hashnum*HASH_SIZE, HASH_SIZE)\n            if hd is not None:\n"
      "                block_hashes[hashnum] = hd\n            else:\n                incomplete = True\n"
      "        if incomplete:\n            return False\n", None),
    M("benign-missing-test-flipped", SHARE,
      "            if hashdata:\n                hashes[hashnum] = hashdata\n            else:\n                return False # missing some hashes\n",
      "            if not hashdata:\n                return False\n            hashes.update({hashnum: hashdata})\n", None),
    M("benign-ueb-length-none-test", SHARE,
      "        if not UEB_length_s:\n            return False\n", "        if UEB_length_s is None:\n            return False\n", None),
    M("benign-block-missing-return-none", SHARE,
      "                    level=log.NOISY, parent=self._lp, umid=\"aK0RFw\")\n            return False\n",
      "                    level=log.NOISY, parent=self._lp, umid=\"aK0RFw\")\n            got = False\n            return got\n", None),
    # ---- C01.10 satisfaction rounds: unsatisfied stage ends the round, progress only after retiring, no false 'unsatisfied'
    M("ciphertext-stage-result-negated", SHARE,
      "            if not self._satisfy_ciphertext_hash_tree(needed_hashes):\n",
      "            if not (not self._satisfy_ciphertext_hash_tree(needed_hashes)):\n", "C01.10", note="sweep survivor"),
    M("block-hash-stage-result-ignored", SHARE,
      "            if not self._satisfy_block_hash_tree(needed_hashes):\n                # can't check block without block_hash_tree\n                return False\n",
      "            self._satisfy_block_hash_tree(needed_hashes)\n", "C01.10"),
    M("ueb-stage-unsatisfied-reports-progress", SHARE,
      "            if not self._satisfy_UEB():\n                # can't check any hashes without the UEB\n                return False\n",
      "            if not self._satisfy_UEB():\n                # can't check any hashes without the UEB\n                return True\n", "C01.10"),
    M("badsegnum-request-not-retired", SHARE,
      "                o.notify(state=BADSEGNUM)\n            self._requested_blocks.pop(0)\n            return True\n",
      "                o.notify(state=BADSEGNUM)\n            return True\n", "C01.10", note="sweep survivor"),
    M("delivered-block-not-retired", SHARE,
      "        # in either case, we've retired this block\n        self._requested_blocks.pop(0)\n",
      "        # in either case, we've retired this block\n", "C01.10"),
    M("delivered-block-retires-wrong-request", SHARE,
      "        # in either case, we've retired this block\n        self._requested_blocks.pop(0)\n",
      "        # in either case, we've retired this block\n        self._requested_blocks.pop(1)\n", "C01.10", note="sweep survivor"),
    M("ciphertext-stage-success-reported-unsatisfied", SHARE,
      "            self._received.remove(start+hashnum*HASH_SIZE, HASH_SIZE)\n        return True\n",
      "            self._received.remove(start+hashnum*HASH_SIZE, HASH_SIZE)\n        return None\n", "C01.10", note="sweep survivor"),
    M("offsets-stage-falls-off-end", SHARE,
      "        # some wiggle room: a place to stash data for later extensions.\n\n        return True\n",
      "        # some wiggle room: a place to stash data for later extensions.\n", "C01.10"),
    M("benign-stage-result-in-local", SHARE,
      "            if not self._satisfy_offsets():\n                # can't even look at anything without the offset table\n                return False\n",
      "            have_table = self._satisfy_offsets()\n            if not have_table:\n                return None\n", None),
    M("benign-badsegnum-round-returns-none", SHARE,
      "                o.notify(state=BADSEGNUM)\n            self._requested_blocks.pop(0)\n            return True\n",
      "                o.notify(state=BADSEGNUM)\n            self._requested_blocks.pop(0)\n            return None\n", None,
      note="sweep survivor: the round ends, the fetcher notices the bad segnum itself"),
    M("benign-head-of-queue-hoisted", SHARE,
      "            return self._requested_blocks[0]\n", "            head = self._requested_blocks[0]\n            return head\n", None),
    M("benign-retire-with-del", SHARE,
      "                o.notify(state=BADSEGNUM)\n            self._requested_blocks.pop(0)\n            return True\n",
      "                o.notify(state=BADSEGNUM)\n            del self._requested_blocks[0]\n            return 1\n", None),
    M("benign-stage-if-else", SHARE,
      "            if not self._satisfy_share_hash_tree():\n                # can't check block_hash_tree without a root\n                return False\n",
      "            if self._satisfy_share_hash_tree():\n                pass\n            else:\n                log.msg(\"no share hashes yet\")\n                return False\n", None),
    M("benign-retire-block-before-check", SHARE,
      "        assert self._requested_blocks[0][0] == segnum\n        try:\n",
      "        assert self._requested_blocks[0][0] == segnum\n        self._requested_blocks.pop(0)\n        try:\n", None,
      edits=[(SHARE, "        # in either case, we've retired this block\n        self._requested_blocks.pop(0)\n",
              "        # in either case, we've retired this block\n")]),
    # ---- C01.11 guessed / unset sizes are replaced by the authoritative ones when the UEB is parsed
    M("ciphertext-tree-leaves-stay-guessed", NODE,
      "        self.ciphertext_hash_tree_leaves = self.num_segments\n", "", "C01.11", note="sweep survivor"),
    M("ciphertext-tree-leaves-from-guess", NODE,
      "        self.ciphertext_hash_tree_leaves = self.num_segments\n",
      "        self.ciphertext_hash_tree_leaves = self.guessed_num_segments\n", "C01.11"),
    M("ciphertext-tree-rebuilt-only-when-guess-wrong", NODE,
      "        self.ciphertext_hash_tree = IncompleteHashTree(self.num_segments)\n        self.ciphertext_hash_tree_leaves = self.num_segments\n",
      "        if self.num_segments > self.guessed_num_segments:\n            self.ciphertext_hash_tree = IncompleteHashTree(self.num_segments)\n"
      "            self.ciphertext_hash_tree_leaves = self.num_segments\n", "C01.11"),
    M("block-size-not-stored", NODE, "        self.block_size = r[\"block_size\"]\n", "", "C01.11", note="sweep survivor"),
    M("tail-block-size-stored-when-guess-wrong", NODE,
      "        self.tail_block_size = r[\"tail_block_size\"]\n        log.msg(\"actual sizes: %s\" % (r,),\n                level=log.NOISY, parent=self._lp, umid=\"PY6P5Q\")\n"
      "        if (self.segment_size == self.guessed_segment_size\n            and self.num_segments == self.guessed_num_segments):\n"
      "            log.msg(\"my guess was right!\",\n                    level=log.NOISY, parent=self._lp, umid=\"x340Ow\")\n        else:\n",
      "        log.msg(\"actual sizes: %s\" % (r,),\n                level=log.NOISY, parent=self._lp, umid=\"PY6P5Q\")\n"
      "        if (self.segment_size == self.guessed_segment_size\n            and self.num_segments == self.guessed_num_segments):\n"
      "            log.msg(\"my guess was right!\",\n                    level=log.NOISY, parent=self._lp, umid=\"x340Ow\")\n        else:\n"
      "            self.tail_block_size = r[\"tail_block_size\"]\n", "C01.11"),
    M("benign-tables-rebuilt-via-local", NODE,
      "        self.ciphertext_hash_tree = IncompleteHashTree(self.num_segments)\n        self.ciphertext_hash_tree_leaves = self.num_segments\n",
      "        leaves = self.num_segments\n        self.ciphertext_hash_tree_leaves = leaves\n        self.ciphertext_hash_tree = IncompleteHashTree(leaves)\n", None),
    M("benign-sizes-stored-in-other-order", NODE,
      "        self.tail_segment_size = r[\"tail_segment_size\"]\n        self.tail_segment_padded = r[\"tail_segment_padded\"]\n        self.num_segments = r[\"num_segments\"]\n        self.block_size = r[\"block_size\"]\n        self.tail_block_size = r[\"tail_block_size\"]\n",
      "        sizes = r\n        self.block_size = sizes[\"block_size\"]\n        self.tail_block_size = sizes[\"tail_block_size\"]\n        self.num_segments = sizes[\"num_segments\"]\n        self.tail_segment_padded = sizes[\"tail_segment_padded\"]\n        self.tail_segment_size = sizes[\"tail_segment_size\"]\n", None),
    # ---- C01.12 (= C05.8) the hashes the cap commits to cover every block of all N shares, whoever receives them
    M("unplaced-shares-neither-sent-nor-hashed", ENC,
      "            d = self.send_block(shareid, segnum, block, lognum)\n            dl.append(d)\n",
      "            if shareid not in self.landlords:\n                # nobody is holding this share, don't spend time on it\n                continue\n"
      "            d = self.send_block(shareid, segnum, block, lognum)\n            dl.append(d)\n", "C01.12", note="seeded C01-D"),
    M("block-hashed-only-when-a-server-holds-the-share", ENC,
      "            block_hash = hashutil.block_hash(block)\n",
      "            if shareid not in self.servermap:\n                dl.append(defer.succeed(None))\n                continue\n"
      "            block_hash = hashutil.block_hash(block)\n", "C01.12"),
    M("hashing-stops-with-the-last-placed-share", ENC,
      "        for i in range(len(shares)):\n            block = shares[i]\n",
      "        for i in range(max(self.landlords) + 1):\n            block = shares[i]\n", "C01.12"),
    M("root-hash-only-for-placed-shares", ENC,
      "            dl.append(self.send_one_block_hash_tree(shareid, hashes))\n",
      "            if shareid in self.landlords:\n                dl.append(self.send_one_block_hash_tree(shareid, hashes))\n", "C01.12"),
    M("benign-send-only-placed-shares-hash-all", ENC,
      "            d = self.send_block(shareid, segnum, block, lognum)\n            dl.append(d)\n",
      "            if shareid in self.landlords:\n                d = self.send_block(shareid, segnum, block, lognum)\n                dl.append(d)\n", None),
    M("benign-share-loop-enumerate", ENC,
      "        for i in range(len(shares)):\n            block = shares[i]\n            shareid = shareids[i]\n",
      "        for i, block in enumerate(shares):\n            shareid = shareids[i]\n", None),
    # ---- C01.13 what is sent is what is hashed, to every share with a writer, under the right segment number
    M("blocks-sent-under-one-based-segment-number", ENC,
      "            d = self.send_block(shareid, segnum, block, lognum)\n", "            d = self.send_block(shareid, segnum+1, block, lognum)\n",
      "C01.13"),
    M("send-skipped-for-secondary-shares-after-first-segment", ENC,
      "            d = self.send_block(shareid, segnum, block, lognum)\n            dl.append(d)\n",
      "            if segnum == 0 or i < self.required_shares:\n                d = self.send_block(shareid, segnum, block, lognum)\n"
      "                dl.append(d)\n", "C01.13"),
    M("sent-block-is-not-the-hashed-block", ENC,
      "            d = self.send_block(shareid, segnum, block, lognum)\n", "            d = self.send_block(shareid, segnum, shares[i-1], lognum)\n",
      "C01.13"),
    M("hash-and-send-disagree-on-share-number", ENC,
      "            self.block_hashes[shareid].append(block_hash)\n", "            self.block_hashes[i].append(block_hash)\n", "C01.13"),
    M("send-block-gives-up-on-unrelated-condition", ENC,
      "        if shareid not in self.landlords:\n            return defer.succeed(None)\n        sh = self.landlords[shareid]\n        lognum2",
      "        if shareid not in self.landlords or not self._status:\n            return defer.succeed(None)\n        sh = self.landlords[shareid]\n        lognum2",
      "C01.13"),
    M("put-block-to-the-wrong-writer", ENC,
      "        sh = self.landlords[shareid]\n        lognum2", "        sh = self.landlords[segment_num]\n        lognum2", "C01.13"),
    M("put-block-with-log-number-as-segment", ENC,
      "        d = sh.put_block(segment_num, block)\n", "        d = sh.put_block(lognum, block)\n", "C01.13"),
    M("benign-share-loop-zip", ENC,
      "        for i in range(len(shares)):\n            block = shares[i]\n            shareid = shareids[i]\n",
      "        for (block, shareid) in zip(shares, shareids):\n", None),
    M("benign-send-block-looks-writer-up-once", ENC,
      "        if shareid not in self.landlords:\n            return defer.succeed(None)\n        sh = self.landlords[shareid]\n        lognum2",
      "        sh = self.landlords.get(shareid)\n        if sh is None:\n            return defer.succeed(None)\n        lognum2", None),
    M("benign-hash-before-send-by-helper", ENC,
      "            self.block_hashes[shareid].append(block_hash)\n", "            self._record_block_hash(shareid, block)\n", None,
      edits=[(ENC, "    def send_block(self, shareid, segment_num, block, lognum):\n",
              "    def _record_block_hash(self, shnum, data):\n        hashes = self.block_hashes[shnum]\n        hashes.append(hashutil.block_hash(data))\n\n"
              "    def send_block(self, shareid, segment_num, block, lognum):\n")]),
    M("benign-hash-inline-before-send", ENC,
      "            d = self.send_block(shareid, segnum, block, lognum)\n            dl.append(d)\n\n            block_hash = hashutil.block_hash(block)\n",
      "            self.block_hashes[shareid].append(hashutil.block_hash(block))\n            d = self.send_block(shareid, segnum, block, lognum)\n            dl.append(d)\n\n            block_hash = None\n",
      None, edits=[(ENC, "            self.block_hashes[shareid].append(block_hash)\n", "            del block_hash\n")]),
    M("benign-share-loop-over-num-shares", ENC,
      "        for i in range(len(shares)):\n            block = shares[i]\n", "        for i in range(self.num_shares):\n            block = shares[i]\n", None),
    M("benign-send-block-keyword-call", ENC,
      "            d = self.send_block(shareid, segnum, block, lognum)\n",
      "            d = self.send_block(shareid, block=block, segment_num=segnum, lognum=lognum)\n", None),
    M("benign-unpack-by-index", ENC,
      "        (shares, shareids) = shares_and_shareids\n", "        shares = shares_and_shareids[0]\n        shareids = shares_and_shareids[1]\n", None),
    M("benign-put-block-keywords", ENC,
      "        d = sh.put_block(segment_num, block)\n", "        d = sh.put_block(data=block, segmentnum=segment_num)\n", None),
    # ---- C01.14 the data reads of one upload are sequential (nothing per segment repositions the file handle)
    M("size-measured-again-for-every-segment", UPL, EAU_SIZE_MEMO, "", "C01.14", note="seeded C01-E",
      edits=[(UPL, FH_SIZE_MEMO, FH_SEEK_END)]),
    M("size-memo-tested-but-never-kept", UPL,
      "        def _got_size(size):\n            self._file_size = size\n            if self._status:\n",
      "        def _got_size(size):\n            if self._status:\n", "C01.14",
      edits=[(UPL, "        size = self._filehandle.tell()\n        self._size = size\n", "        size = self._filehandle.tell()\n")]),
    M("size-memo-consulted-after-measuring", UPL,
      "            return defer.succeed(self._size)\n        self._filehandle.seek(0, os.SEEK_END)\n        size = self._filehandle.tell()\n"
      "        self._size = size\n        self._filehandle.seek(0)\n        return defer.succeed(size)\n",
      "            return defer.succeed(self._size)\n        return defer.succeed(self._measure())\n\n    def _measure(self):\n"
      "        self._filehandle.seek(0, os.SEEK_END)\n        size = self._filehandle.tell()\n        self._filehandle.seek(0)\n"
      "        self._size = size\n        return size\n", "C01.14",
      edits=[(UPL, "        d.addCallback(lambda ignored: self.get_size())\n        d.addCallback(lambda ignored: self._get_encryptor())\n",
              "        d.addCallback(lambda ignored: self.original._measure())\n        d.addCallback(lambda ignored: self._get_encryptor())\n")]),
    M("convergent-key-hashed-again-for-every-segment", UPL,
      "        if self._encryptor:\n            return defer.succeed(self._encryptor)\n\n", "", "C01.14",
      edits=[(UPL, "        if self._key is not None:\n            return defer.succeed(self._key)\n\n        d = self.get_size()\n",
              "        d = self.get_size()\n")]),
    M("size-memo-cleared-by-every-read", UPL,
      "    def read(self, length):\n        return defer.succeed([self._filehandle.read(length)])\n\n    def close(self):\n        # the originator",
      "    def read(self, length):\n        self._size = None\n        return defer.succeed([self._filehandle.read(length)])\n\n    def close(self):\n        # the originator",
      "C01.14", edits=[(UPL, EAU_SIZE_MEMO, "")]),
    M("benign-only-the-wrapper-forgets-the-size", UPL, EAU_SIZE_MEMO, "", None),
    M("benign-only-the-filehandle-forgets-the-size", UPL, FH_SIZE_MEMO, FH_SEEK_END, None),
    M("benign-size-memo-tested-the-other-way-round", UPL,
      FH_SIZE_MEMO + "        size = self._filehandle.tell()\n        self._size = size\n"
      "        self._filehandle.seek(0)\n        return defer.succeed(size)\n",
      "        if self._size is None:\n            fh = self._filehandle\n            fh.seek(0, os.SEEK_END)\n            self._size = fh.tell()\n"
      "            fh.seek(0)\n        return defer.succeed(self._size)\n", None,
      edits=[(UPL, EAU_SIZE_MEMO, "")]),
    M("benign-size-asked-by-a-helper-behind-the-memo", UPL,
      EAU_SIZE_MEMO + "        d = self.original.get_size()\n        def _got_size(size):\n",
      "        if self._file_size is None:\n            return self._ask_size()\n        return defer.succeed(self._file_size)\n\n"
      "    def _ask_size(self):\n        d = self.original.get_size()\n        def _got_size(size):\n", None,
      edits=[(UPL, FH_SIZE_MEMO, FH_SEEK_END)]),
    # ---- C01.12.7 (= C05.7) the data reads start at offset 0 and deliver the file front to back
    M("convergent-hashing-leaves-the-handle-at-the-end", UPL,
      "            f.seek(0)\n            self._key = enckey_hasher.digest()\n", "            self._key = enckey_hasher.digest()\n", "C01.12.7"),
    M("size-measured-without-rewinding", UPL, "        self._size = size\n        self._filehandle.seek(0)\n", "        self._size = size\n",
      "C01.12.7"),
    M("data-read-one-byte-short", UPL, "        return defer.succeed([self._filehandle.read(length)])",
      "        return defer.succeed([self._filehandle.read(length - 1)])", "C01.12.7"),
    M("benign-size-measured-through-an-alias", UPL,
      FH_SEEK_END + "        size = self._filehandle.tell()\n        self._size = size\n        self._filehandle.seek(0)\n",
      "        fh = self._filehandle\n        fh.seek(0, os.SEEK_END)\n        size = fh.tell()\n        fh.seek(0, os.SEEK_SET)\n        self._size = size\n",
      None),
    # ---- C01.15 (= C36.3) CRSDecoder.decode returns what zfec made of (blocks, share numbers), paired in the caller's order
    M("primary-blocks-returned-in-arrival-order", CODEC, CODEC_DECODE_TAIL,
      "        shareids = [int(s) for s in their_shareids]\n        if max(shareids) < self.required_shares:\n"
      "            return list(some_shares)\n        return await defer_to_thread(self.decoder.decode, some_shares, shareids)\n",
      "C01.15", note="seeded C01-F"),
    M("share-numbers-sorted-blocks-not", CODEC, "            [int(s) for s in their_shareids]\n", "            sorted(int(s) for s in their_shareids)\n",
      "C01.15"),
    M("primary-blocks-picked-by-position", CODEC, CODEC_DECODE_TAIL,
      "        if set(their_shareids) == set(range(self.required_shares)):\n"
      "            return [some_shares[i] for i in range(self.required_shares)]\n" + CODEC_DECODE_TAIL, "C01.15"),
    M("benign-decode-ids-in-a-temporary", CODEC, CODEC_DECODE_TAIL,
      "        ids = [int(s) for s in their_shareids]\n        result = await defer_to_thread(self.decoder.decode, some_shares, ids)\n"
      "        return result\n", None),
    # ---- C01.16 the segment is the codec's result joined in the codec's order
    M("segment-joined-from-primary-blocks-as-they-arrived", NODE,
      "        shares = []\n        shareids = []\n        for (shareid, share) in blocks.items():\n",
      "        if not tail and max(blocks) < self._verifycap.needed_shares:\n"
      "            # all primary shares: the blocks are the segment\n"
      "            return defer.succeed((b\"\".join(blocks.values()), now() - start))\n"
      "        shares = []\n        shareids = []\n        for (shareid, share) in blocks.items():\n", "C01.16"),
    M("decoded-pieces-joined-in-sorted-order", NODE, "            segment = b\"\".join(buffers)\n",
      "            segment = b\"\".join(sorted(buffers))\n", "C01.16"),
    M("decoded-pieces-joined-back-to-front", NODE, "            segment = b\"\".join(buffers)\n",
      "            segment = b\"\".join(buffers[::-1])\n", "C01.16"),
    M("segment-returned-is-not-the-join", NODE, "            return (segment, decodetime)\n",
      "            return (buffers[0], decodetime)\n", "C01.16"),
    M("benign-pieces-listed-before-the-join", NODE,
      "        def _process(buffers):\n            decodetime = now() - start\n            segment = b\"\".join(buffers)\n",
      "        def _process(pieces):\n            decodetime = now() - start\n            buffers = list(pieces)\n            del pieces\n"
      "            joined = b\"\".join(buffers)\n            segment = joined\n", None),
    M("benign-decode-deferred-returned-as-a-chain", NODE,
      "        d.addCallback(_process)\n        return d\n\n    def _check_ciphertext_hash(",
      "        return d.addCallback(_process)\n\n    def _check_ciphertext_hash(", None),
    # ---- C01.17 no way from read() to the consumer around Segmentation
    M("whole-read-of-a-small-file-hands-over-segment-0", FN,
      "        decryptor = DecryptingConsumer(consumer, self._readkey, offset)\n        d = self._cnode.read(decryptor, offset, size)\n",
      "        filesize = self.get_size()\n"
      "        if (offset == 0 and (size is None or size >= filesize)\n"
      "            and 0 < filesize <= 1024*1024):\n"
      "            # small file, whole-file read: one segment, nothing to trim\n"
      "            return self._read_single_segment(consumer)\n"
      "        decryptor = DecryptingConsumer(consumer, self._readkey, offset)\n        d = self._cnode.read(decryptor, offset, size)\n",
      "C01.17",
      edits=[(FN, "    def raise_error(self):\n        pass\n\n    def get_write_uri(self):\n",
              "    def _read_single_segment(self, consumer):\n"
              "        decryptor = DecryptingConsumer(consumer, self._readkey, 0)\n"
              "        (d, c) = self._cnode.get_segment(0)\n"
              "        def _got_segment(res):\n"
              "            (segment_start, ciphertext, decodetime) = res\n"
              "            decryptor.write(ciphertext)\n"
              "            return consumer\n"
              "        d.addCallback(_got_segment)\n"
              "        return d\n\n"
              "    def raise_error(self):\n        pass\n\n    def get_write_uri(self):\n")]),
    M("read-within-the-guessed-first-segment-skips-segmentation", NODE,
      "        s = Segmentation(self, offset, size, consumer, read_ev, lp)\n",
      "        if offset == 0 and size <= self.guessed_segment_size:\n"
      "            # the range lies in the first segment: fetch it and cut\n"
      "            (d0, c0) = self.get_segment(0, lp)\n"
      "            d0.addCallback(lambda res: consumer.write(res[1][:size]))\n"
      "            d0.addCallback(lambda ign: consumer)\n"
      "            return d0\n"
      "        s = Segmentation(self, offset, size, consumer, read_ev, lp)\n", "C01.17"),
    M("ciphertext-node-answers-whole-file-reads-from-a-first-segment-cache", FN,
      "        self._maybe_create_download_node()\n        return self._node.read(consumer, offset, size)\n",
      "        self._maybe_create_download_node()\n"
      "        cached = getattr(self._node, \"_segment0\", None)\n"
      "        if cached is not None and offset == 0 and size is None:\n"
      "            consumer.write(cached)\n"
      "            return defer.succeed(consumer)\n"
      "        return self._node.read(consumer, offset, size)\n", "C01.17"),
    M("empty-read-shortcut-tests-falseness-of-size", FN,
      "        decryptor = DecryptingConsumer(consumer, self._readkey, offset)\n        d = self._cnode.read(decryptor, offset, size)\n",
      "        if not size:\n            # nothing to do (but size=None means 'to the end')\n            return defer.succeed(consumer)\n"
      "        decryptor = DecryptingConsumer(consumer, self._readkey, offset)\n        d = self._cnode.read(decryptor, offset, size)\n",
      "C01.17"),
    M("benign-empty-read-answered-by-the-filenode", FN,
      "        decryptor = DecryptingConsumer(consumer, self._readkey, offset)\n        d = self._cnode.read(decryptor, offset, size)\n",
      "        if size == 0:\n            return defer.succeed(consumer)\n"
      "        decryptor = DecryptingConsumer(consumer, self._readkey, offset)\n        d = self._cnode.read(decryptor, offset, size)\n",
      None),
    M("benign-ciphertext-node-in-a-local", FN,
      "        d = self._cnode.read(decryptor, offset, size)\n",
      "        cnode = self._cnode\n        d = cnode.read(decryptor, offset, size)\n", None),
    M("benign-segmentation-started-where-it-is-built", NODE,
      "        s = Segmentation(self, offset, size, consumer, read_ev, lp)\n", "", None,
      edits=[(NODE, "        d = s.start()\n        def _done(res):\n            read_ev.finished(now())\n",
              "        d = Segmentation(self, offset, size, consumer, read_ev, lp).start()\n"
              "        def _done(res):\n            read_ev.finished(now())\n")]),
    # ---- C01.7 (also C02.12 / C04.5) provenance of the AES-CTR context
    M("decryptor-of-the-previous-read-handed-to-the-next-consumer", FN,
      "    def __init__(self, consumer, readkey, offset):\n        self._consumer = consumer\n        self._read_ev = None\n        self._download_status = None\n",
      "    def __init__(self, consumer, readkey, offset, decryptor=None):\n        self._consumer = consumer\n        self._read_ev = None\n        self._download_status = None\n"
      "        if decryptor is not None:\n            self._decryptor = decryptor\n            return\n", "C01.7",
      edits=[(FN, "        decryptor = DecryptingConsumer(consumer, self._readkey, offset)\n        d = self._cnode.read(decryptor, offset, size)\n",
              "        resume = None\n"
              "        ks = getattr(self, \"_keystream\", None)\n"
              "        if ks is not None and ks[0] == offset:\n            resume = ks[1]\n"
              "        self._keystream = None\n"
              "        decryptor = DecryptingConsumer(consumer, self._readkey, offset, resume)\n"
              "        d = self._cnode.read(decryptor, offset, size)\n"
              "        def _finished(res):\n"
              "            if size is not None:\n                self._keystream = (offset + size, decryptor._decryptor)\n"
              "            return res\n"
              "        d.addBoth(_finished)\n")]),
    M("decryptor-kept-on-the-consumer-between-reads", FN,
      "        self._decryptor = aes.create_decryptor(readkey, iv)\n",
      "        self._decryptor = consumer.__dict__.setdefault(\"_ctr\", aes.create_decryptor(readkey, iv))\n", "C01.7"),
    M("filenode-swaps-in-the-decryptor-it-kept", FN,
      "        decryptor = DecryptingConsumer(consumer, self._readkey, offset)\n        d = self._cnode.read(decryptor, offset, size)\n",
      "        decryptor = DecryptingConsumer(consumer, self._readkey, offset)\n"
      "        kept = getattr(self, \"_kept\", None)\n"
      "        if kept is not None and kept[0] == offset:\n            decryptor._decryptor = kept[1]\n"
      "        d = self._cnode.read(decryptor, offset, size)\n", "C01.7"),
    M("residue-consumed-only-when-more-than-one-byte", FN,
      "        aes.decrypt_data(self._decryptor, b\"\\x00\" * offset_small)\n",
      "        if offset_small > 1:\n            aes.decrypt_data(self._decryptor, b\"\\x00\" * offset_small)\n", "C01.7"),
    M("benign-residue-skipped-when-zero", FN,
      "        aes.decrypt_data(self._decryptor, b\"\\x00\" * offset_small)\n",
      "        if offset_small:\n            aes.decrypt_data(self._decryptor, b\"\\x00\" * offset_small)\n", None),
    M("benign-decrypting-consumer-takes-a-log-parent", FN,
      "    def __init__(self, consumer, readkey, offset):\n        self._consumer = consumer\n        self._read_ev = None\n",
      "    def __init__(self, consumer, readkey, offset, logparent=None):\n        self._consumer = consumer\n        self._lp = logparent\n        self._read_ev = None\n",
      None),
    # ---- C01.18: every server taken off the finder's iterator is asked
    M("server-taken-before-the-request-limit-is-checked-helpers", FINDER, LOOP_HEAD, LOOP_HELPERS_HEAD, "C01.18",
      edits=[(FINDER, LOOP_TAKE, "        server = self._next_server()\n        if server is not None and self._may_send_more():\n")]),
    M("request-limit-checked-after-the-take-in-place", FINDER, LOOP_LIMIT, "", "C01.18",
      edits=[(FINDER, "        if server:\n            self.send_request(server)\n",
              LOOP_LIMIT + "        if server:\n            self.send_request(server)\n")]),
    M("for-over-the-servers-breaks-on-the-limit", FINDER, LOOP_LIMIT + LOOP_TAKE,
      "        if self._servers is not None:\n"
      "            for server in self._servers:\n"
      "                if len(self.pending_requests - self.overdue_requests) >= self.max_outstanding_requests:\n"
      "                    return\n"
      "                self.send_request(server)\n"
      "            self._servers = None\n"
      "        if False:\n", "C01.18"),
    M("every-other-server-skipped-while-a-request-is-pending", FINDER, "                server = next(self._servers)\n",
      "                server = next(self._servers)\n"
      "                if self.pending_requests:\n                    server = next(self._servers)\n", "C01.18"),
    M("query-helper-asks-only-servers-with-a-long-name", FINDER, "            self.send_request(server)\n",
      "            self._ask(server)\n", "C01.18",
      edits=[(FINDER, "    def send_request(self, server):\n",
              "    def _ask(self, server):\n        if len(server.get_name()) > 4:\n            self.send_request(server)\n\n"
              "    def send_request(self, server):\n")]),
    M("benign-helpers-limit-checked-before-the-take", FINDER, LOOP_HEAD, LOOP_HELPERS_HEAD, None,
      edits=[(FINDER, LOOP_LIMIT + LOOP_TAKE,
              "        if not self._may_send_more():\n            # cannot send more requests, must wait for some to retire\n"
              "            return\n\n"
              "        server = self._next_server()\n        if server is not None:\n")]),
    M("benign-next-with-default-in-place", FINDER, LOOP_TAKE,
      "        server = None\n"
      "        if self._servers is not None:\n"
      "            server = next(self._servers, None)\n"
      "            if server is None:\n                self._servers = None\n\n"
      "        if server is not None:\n", None),
    M("benign-take-and-ask-in-one-helper", FINDER, LOOP_TAKE + "            self.send_request(server)\n",
      "        if self._ask_next_server():\n", None,
      edits=[(FINDER, LOOP_HEAD,
              "    # internal methods\n"
              "    def _ask_next_server(self):\n"
              "        if self._servers is None:\n            return False\n"
              "        for server in self._servers:\n"
              "            self.send_request(server)\n            return True\n"
              "        self._servers = None\n        return False\n\n"
              "    def loop(self):\n")]),
    M("benign-query-sent-on-the-next-turn", FINDER, "            self.send_request(server)\n",
      "            eventually(self.send_request, server)\n", None),
    M("benign-server-put-back-when-the-limit-is-reached", FINDER, LOOP_LIMIT, "", None,
      edits=[(FINDER, "        if server:\n            self.send_request(server)\n",
              "        if server and len(self.pending_requests - self.overdue_requests) >= self.max_outstanding_requests:\n"
              "            self._servers = itertools.chain([server], self._servers)\n            return\n"
              "        if server:\n            self.send_request(server)\n"),
             (FINDER, "import time\n", "import time\nimport itertools\n")]),
    M("servers-sliced-off-the-iterator-cannot-be-followed", FINDER, "                server = next(self._servers)\n",
      "                server = list(itertools.islice(self._servers, 1))[0]\n", "ANALYSIS-ERROR",
      edits=[(FINDER, "import time\n", "import time\nimport itertools\n")]),
    M("iterator-given-up-when-a-query-cannot-be-sent", FINDER, "                server = next(self._servers)\n        except StopIteration:\n",
      "                server = next(self._servers)\n                self.send_request(server)\n                eventually(self.loop)\n"
      "                return\n        except Exception:\n", "C01.18"),
    M("iterator-given-up-when-a-falsy-limit-is-hit", FINDER, LOOP_TAKE,
      "        server = None\n"
      "        if self._servers is not None:\n"
      "            server = next(self._servers, None)\n"
      "        if server is None or not self.pending_requests:\n            self._servers = None\n\n"
      "        if server is not None:\n", "C01.18"),
    M("benign-iterator-given-up-at-the-end-of-a-for", FINDER, LOOP_TAKE,
      "        if self._servers is not None:\n"
      "            for server in self._servers:\n"
      "                self.send_request(server)\n                eventually(self.loop)\n                return\n"
      "            self._servers = None\n"
      "        server = None\n        if server:\n", None),
    M("vanish-server-list-not-from-the-broker", FINDER, "            servers = self._storage_broker.get_servers_for_psi(si)\n",
      "            servers = self._storage_broker.get_servers_for_download(si)\n", "ANALYSIS-ERROR"),
    # ---- vanished anchor
    M("vanish-read-encrypted", UPL, "    def read_encrypted(self, length, hash_only):", "    def read_ciphertext(self, length, hash_only):",
      "ANALYSIS-ERROR"),
    M("vanish-calculate-sizes", NODE, "    def _calculate_sizes(self, segment_size):", "    def _calculate_sizesX(self, segment_size):",
      "ANALYSIS-ERROR"),
    M("vanish-send-block", ENC, "    def send_block(self, shareid, segment_num, block, lognum):",
      "    def push_block(self, shareid, segment_num, block, lognum):", "ANALYSIS-ERROR",
      edits=[(ENC, "            d = self.send_block(shareid, segnum, block, lognum)\n", "            d = self.push_block(shareid, segnum, block, lognum)\n")]),
    M("vanish-update-num-segments", FINDER, "    def update_num_segments(self):", "    def refresh_num_segments(self):", "ANALYSIS-ERROR",
      edits=[(NODE, "        self._sharefinder.update_num_segments()\n", "        self._sharefinder.refresh_num_segments()\n")]),
]

# ---- the eight per-shareholder send functions of the Encoder go through _call_shareholder / _call_all_shareholders, which
# are handed the bucket-writer method by name (faithful version of the seeded refactor C06-I: the DeferredList of
# _gather_responses is still built before the errbacks are attached)
C06I_FAITHFUL = [('    pass\n\n',
  '    pass\n'
  '\n'
  'def _consume_unhappiness(f):\n'
  '    # All exceptions that occur while talking to a peer are handled in\n'
  '    # Encoder._remove_shareholder. That might raise UploadUnhappinessError,\n'
  '    # which will cause the DeferredList built by Encoder._gather_responses\n'
  '    # to errback but which should otherwise be consumed. Allow\n'
  '    # non-UploadUnhappinessError exceptions to pass through as an unhandled\n'
  '    # errback. We use this in lieu of consumeErrors=True to allow coding\n'
  '    # errors to be logged.\n'
  '    f.trap(UploadUnhappinessError)\n'
  '    return None\n'
  '\n'),
 ('        self.set_status("Starting shareholders")\n'
  '        dl = []\n'
  '        for shareid in list(self.landlords):\n'
  '            d = self.landlords[shareid].put_header()\n'
  '            d.addErrback(self._remove_shareholder, shareid, "start")\n'
  '            dl.append(d)\n'
  '        return self._gather_responses(dl)\n'
  '\n',
  '        self.set_status("Starting shareholders")\n        return self._call_all_shareholders("start", "put_header")\n\n'),
 ('            return defer.succeed(None)\n'
  '        sh = self.landlords[shareid]\n'
  '        lognum2 = self.log("put_block to %s" % self.landlords[shareid],\n'
  '                           parent=lognum, level=log.NOISY)\n'
  '        d = sh.put_block(segment_num, block)\n'
  '        def _done(res):\n'
  '            self.log("put_block done", parent=lognum2, level=log.NOISY)\n'
  '            return res\n'
  '        d.addCallback(_done)\n'
  '        d.addErrback(self._remove_shareholder, shareid,\n'
  '                     "segnum=%d" % segment_num)\n'
  '        return d\n'
  '\n',
  '            return defer.succeed(None)\n'
  '        lognum2 = self.log("put_block to %s" % self.landlords[shareid],\n'
  '                           parent=lognum, level=log.NOISY)\n'
  '        def _done(res):\n'
  '            self.log("put_block done", parent=lognum2, level=log.NOISY)\n'
  '            return res\n'
  '        return self._call_shareholder(shareid, "segnum=%d" % segment_num,\n'
  '                                      "put_block", segment_num, block,\n'
  '                                      on_success=_done)\n'
  '\n'
  '    def _call_shareholder(self, shareid, where, methname, *args, **kwargs):\n'
  '        """\n'
  '        Invoke one method of the bucket writer that holds ``shareid``. If the\n'
  '        call fails, that shareholder is dropped (see ``_remove_shareholder``).\n'
  '        Shares that have no shareholder (any more) are silently skipped.\n'
  '\n'
  '        :param where: describes the step, for the log and the error message\n'
  '        :param on_success: optional callback run on the result of the call\n'
  '        """\n'
  '        on_success = kwargs.pop("on_success", None)\n'
  '        assert not kwargs, kwargs\n'
  '        if shareid not in self.landlords:\n'
  '            return defer.succeed(None)\n'
  '        d = getattr(self.landlords[shareid], methname)(*args)\n'
  '        if on_success is not None:\n'
  '            d.addCallback(on_success)\n'
  '        d.addErrback(self._remove_shareholder, shareid, where)\n'
  '        return d\n'
  '\n'
  '    def _call_all_shareholders(self, where, methname, *args):\n'
  '        """\n'
  '        Invoke the same bucket writer method, with the same arguments, on\n'
  '        every current shareholder and wait for all of them.\n'
  '        """\n'
  '        dl = [self._call_shareholder(shareid, where, methname, *args)\n'
  '              for shareid in list(self.landlords)]\n'
  '        return self._gather_responses(dl)\n'
  '\n'),
 ('        d = defer.DeferredList(dl, fireOnOneErrback=True)\n'
  '        def _eatUploadUnhappinessError(f):\n'
  '            # all exceptions that occur while talking to a peer are handled\n'
  '            # in _remove_shareholder. That might raise UploadUnhappinessError,\n'
  '            # which will cause the DeferredList to errback but which should\n'
  '            # otherwise be consumed. Allow non-UploadUnhappinessError exceptions\n'
  '            # to pass through as an unhandled errback. We use this in lieu of\n'
  '            # consumeErrors=True to allow coding errors to be logged.\n'
  '            f.trap(UploadUnhappinessError)\n'
  '            return None\n'
  '        for d0 in dl:\n'
  '            d0.addErrback(_eatUploadUnhappinessError)\n'
  '        return d\n',
  '        d = defer.DeferredList(dl, fireOnOneErrback=True)\n'
  '        for d0 in dl:\n'
  '            d0.addErrback(_consume_unhappiness)\n'
  '        return d\n'),
 ('        self.uri_extension_data["crypttext_root_hash"] = t[0]\n'
  '        dl = []\n'
  '        for shareid in list(self.landlords):\n'
  '            dl.append(self.send_crypttext_hash_tree(shareid, all_hashes))\n'
  '        return self._gather_responses(dl)\n'
  '\n'
  '    def send_crypttext_hash_tree(self, shareid, all_hashes):\n'
  '        if shareid not in self.landlords:\n'
  '            return defer.succeed(None)\n'
  '        sh = self.landlords[shareid]\n'
  '        d = sh.put_crypttext_hashes(all_hashes)\n'
  '        d.addErrback(self._remove_shareholder, shareid, "put_crypttext_hashes")\n'
  '        return d\n'
  '\n',
  '        self.uri_extension_data["crypttext_root_hash"] = t[0]\n'
  '        return self._call_all_shareholders("put_crypttext_hashes",\n'
  '                                           "put_crypttext_hashes", all_hashes)\n'
  '\n'
  '    def send_crypttext_hash_tree(self, shareid, all_hashes):\n'
  '        return self._call_shareholder(shareid, "put_crypttext_hashes",\n'
  '                                      "put_crypttext_hashes", all_hashes)\n'
  '\n'),
 ('        self.share_root_hashes[shareid] = t[0]\n'
  '        if shareid not in self.landlords:\n'
  '            return defer.succeed(None)\n'
  '        sh = self.landlords[shareid]\n'
  '        d = sh.put_block_hashes(all_hashes)\n'
  '        d.addErrback(self._remove_shareholder, shareid, "put_block_hashes")\n'
  '        return d\n'
  '\n',
  '        self.share_root_hashes[shareid] = t[0]\n'
  '        return self._call_shareholder(shareid, "put_block_hashes",\n'
  '                                      "put_block_hashes", all_hashes)\n'
  '\n'),
 ('    def send_one_share_hash_tree(self, shareid, needed_hashes):\n'
  '        if shareid not in self.landlords:\n'
  '            return defer.succeed(None)\n'
  '        sh = self.landlords[shareid]\n'
  '        d = sh.put_share_hashes(needed_hashes)\n'
  '        d.addErrback(self._remove_shareholder, shareid, "put_share_hashes")\n'
  '        return d\n'
  '\n',
  '    def send_one_share_hash_tree(self, shareid, needed_hashes):\n'
  '        return self._call_shareholder(shareid, "put_share_hashes",\n'
  '                                      "put_share_hashes", needed_hashes)\n'
  '\n'),
 ('        self.uri_extension_hash = hashutil.uri_extension_hash(uri_extension)\n'
  '        dl = []\n'
  '        for shareid in list(self.landlords):\n'
  '            dl.append(self.send_uri_extension(shareid, uri_extension))\n'
  '        return self._gather_responses(dl)\n'
  '\n'
  '    def send_uri_extension(self, shareid, uri_extension):\n'
  '        sh = self.landlords[shareid]\n'
  '        d = sh.put_uri_extension(uri_extension)\n'
  '        d.addErrback(self._remove_shareholder, shareid, "put_uri_extension")\n'
  '        return d\n'
  '\n',
  '        self.uri_extension_hash = hashutil.uri_extension_hash(uri_extension)\n'
  '        return self._call_all_shareholders("put_uri_extension",\n'
  '                                           "put_uri_extension", uri_extension)\n'
  '\n'
  '    def send_uri_extension(self, shareid, uri_extension):\n'
  '        return self._call_shareholder(shareid, "put_uri_extension",\n'
  '                                      "put_uri_extension", uri_extension)\n'
  '\n'),
 ('        self.set_encode_and_push_progress(extra=0.9)\n'
  '        dl = []\n'
  '        for shareid in list(self.landlords):\n'
  '            d = self.landlords[shareid].close()\n'
  '            d.addErrback(self._remove_shareholder, shareid, "close")\n'
  '            dl.append(d)\n'
  '        return self._gather_responses(dl)\n'
  '\n',
  '        self.set_encode_and_push_progress(extra=0.9)\n        return self._call_all_shareholders("close", "close")\n\n')]


def _multi(mid, path, pairs, expected, extra=()):
    (o, n) = pairs[0]
    return M(mid, path, o, n, expected, edits=[(path, o2, n2) for (o2, n2) in pairs[1:]] + list(extra))


SEND_BLOCK_VIA_HELPER = ('                                      "put_block", segment_num, block,\n')
CRYPTTEXT_VIA_HELPER = ('        return self._call_all_shareholders("put_crypttext_hashes",\n'
                        '                                           "put_crypttext_hashes", all_hashes)\n')
HELPER_GETATTR = "        d = getattr(self.landlords[shareid], methname)(*args)\n"

MUTANTS += [
    _multi("benign-c06i-faithful-refactor-shareholder-call-helpers", ENC, C06I_FAITHFUL, None),
    _multi("benign-c06i-shape-method-name-concatenated", ENC, C06I_FAITHFUL, None,
           extra=[(ENC, SEND_BLOCK_VIA_HELPER, '                                      "put_" + "block", segment_num, block,\n')]),
    _multi("benign-c06i-shape-bound-method-handed-to-helper", ENC, C06I_FAITHFUL, None,
           extra=[(ENC, HELPER_GETATTR, "        d = (methname if callable(methname) else getattr(self.landlords[shareid], methname))(*args)\n")]),
    _multi("c06i-shape-crypttext-hash-tree-step-sends-nothing", ENC, C06I_FAITHFUL, "C01.4",
           extra=[(ENC, CRYPTTEXT_VIA_HELPER, "        return defer.succeed(None)\n")]),
    _multi("c06i-shape-uri-extension-step-closes-instead", ENC, C06I_FAITHFUL, "C01.4",
           extra=[(ENC, '        return self._call_all_shareholders("put_uri_extension",\n'
                        '                                           "put_uri_extension", uri_extension)\n',
                   '        return self._call_all_shareholders("put_uri_extension", "close")\n')]),
    _multi("c06i-shape-helper-handed-block-and-segnum-swapped", ENC, C06I_FAITHFUL, "C01.13",
           extra=[(ENC, SEND_BLOCK_VIA_HELPER, '                                      "put_block", block, segment_num,\n')]),
    _multi("c06i-shape-helper-calls-the-writer-of-share-zero", ENC, C06I_FAITHFUL, "C01.13",
           extra=[(ENC, HELPER_GETATTR, "        d = getattr(self.landlords[min(self.landlords)], methname)(*args)\n")]),
    _multi("c06i-shape-helper-skips-when-a-callback-is-given", ENC, C06I_FAITHFUL, "C01.13",
           extra=[(ENC, "        if shareid not in self.landlords:\n            return defer.succeed(None)\n        d = getattr(",
                   "        if shareid not in self.landlords or on_success is not None:\n            return defer.succeed(None)\n        d = getattr(")]),
    _multi("c06i-shape-method-name-from-an-attribute", ENC, C06I_FAITHFUL, "ANALYSIS-ERROR",
           extra=[(ENC, SEND_BLOCK_VIA_HELPER, '                                      self._put_method, segment_num, block,\n')]),
]

# ---- codec.py with a shared _CRSParams base class; CRSDecoder.decode sorts the (share number, block) pairs together and
# skips zfec for exactly the k primary blocks (faithful version of the seeded refactor C36-I: the shortcut returns the
# SORTED blocks)
C36I_FAITHFUL = [('"""\n\n', '"""\n\nfrom operator import itemgetter\n\n'),
 ('\n@implementer(ICodecEncoder)\nclass CRSEncoder:\n    ENCODER_TYPE = b"crs"\n\n',
  '\n'
  'class _CRSParams:\n'
  '    """\n'
  '    The (data_size, k, N) bookkeeping is the same on the encoding and on the\n'
  '    decoding side: a segment of data_size bytes is cut into k primary blocks\n'
  '    of share_size bytes each, numbered 0..k-1, and zfec derives the secondary\n'
  '    blocks k..N-1 from them.\n'
  '    """\n'
  '\n'),
 ('        self.share_size = mathutil.div_ceil(data_size, required_shares)\n'
  '        self.last_share_padding = mathutil.pad_size(self.share_size, required_shares)\n',
  '        self.share_size = mathutil.div_ceil(data_size, required_shares)\n'
  '        self.primary_share_ids = list(range(required_shares))\n'
  '\n'
  '\n'
  '@implementer(ICodecEncoder)\n'
  'class CRSEncoder(_CRSParams):\n'
  '    ENCODER_TYPE = b"crs"\n'
  '\n'
  '    def set_params(self, data_size, required_shares, max_shares):\n'
  '        _CRSParams.set_params(self, data_size, required_shares, max_shares)\n'
  '        self.last_share_padding = mathutil.pad_size(self.share_size, required_shares)\n'),
 ('@implementer(ICodecDecoder)\n'
  'class CRSDecoder:\n'
  '\n'
  '    def set_params(self, data_size, required_shares, max_shares):\n'
  '        self.data_size = data_size\n'
  '        self.required_shares = required_shares\n'
  '        self.max_shares = max_shares\n'
  '\n'
  '        self.chunk_size = self.required_shares\n'
  '        self.num_chunks = mathutil.div_ceil(self.data_size, self.chunk_size)\n'
  '        self.share_size = self.num_chunks\n'
  '        self.decoder = zfec.Decoder(self.required_shares, self.max_shares)\n',
  '@implementer(ICodecDecoder)\n'
  'class CRSDecoder(_CRSParams):\n'
  '\n'
  '    def set_params(self, data_size, required_shares, max_shares):\n'
  '        _CRSParams.set_params(self, data_size, required_shares, max_shares)\n'
  '        self.chunk_size = self.required_shares\n'
  '        self.num_chunks = self.share_size\n'
  '        self.decoder = zfec.Decoder(self.required_shares, self.max_shares)\n'),
 ('                     len(some_shares), self.required_shares)\n'
  '        return await defer_to_thread(\n'
  '            self.decoder.decode,\n'
  '            some_shares,\n'
  '            [int(s) for s in their_shareids]\n'
  '        )\n'
  '\n',
  '                     len(some_shares), self.required_shares)\n'
  '        # Keep every block paired with its share number while we put them\n'
  '        # into share-number order, so the two lists cannot get out of step.\n'
  '        blocks = sorted(zip([int(s) for s in their_shareids], some_shares),\n'
  '                        key=itemgetter(0))\n'
  '        shareids = [shareid for (shareid, _) in blocks]\n'
  '        if shareids == self.primary_share_ids:\n'
  '            # We were given exactly the k primary blocks, which zfec hands\n'
  "            # back untouched: there is nothing to compute, so don't bother\n"
  '            # the CPU thread pool with it.\n'
  '            return [block for (_, block) in blocks]\n'
  '        shares = [block for (_, block) in blocks]\n'
  '        return await defer_to_thread(self.decoder.decode, shares, shareids)\n'
  '\n')]

SORTED_SHORTCUT = "            return [block for (_, block) in blocks]\n"
SORTED_PAIRS = ("        blocks = sorted(zip([int(s) for s in their_shareids], some_shares),\n"
                "                        key=itemgetter(0))\n")

MUTANTS += [
    _multi("benign-c36i-faithful-refactor-pairs-sorted-together", CODEC, C36I_FAITHFUL, None),
    _multi("benign-c36i-shape-pairs-indexed", CODEC, C36I_FAITHFUL, None,
           extra=[(CODEC, SORTED_SHORTCUT, "            return [pair[1] for pair in blocks]\n")]),
    _multi("c36i-shape-shortcut-returns-the-unsorted-blocks", CODEC, C36I_FAITHFUL, "C01.15",
           extra=[(CODEC, SORTED_SHORTCUT, "            return list(some_shares)\n")], ),
    _multi("c36i-shape-only-the-share-numbers-are-sorted", CODEC, C36I_FAITHFUL, "C01.15",
           extra=[(CODEC, "        shares = [block for (_, block) in blocks]\n", "        shares = list(some_shares)\n")]),
    _multi("c36i-shape-shortcut-returns-the-share-numbers", CODEC, C36I_FAITHFUL, "C01.15",
           extra=[(CODEC, SORTED_SHORTCUT, "            return [block for (block, _) in blocks]\n")]),
    _multi("c36i-shape-shortcut-taken-for-any-k-ids-of-the-right-length", CODEC, C36I_FAITHFUL, "C01.15",
           extra=[(CODEC, "        if shareids == self.primary_share_ids:\n", "        if len(shareids) == len(self.primary_share_ids):\n")]),
    _multi("c36i-shape-primary-ids-count-from-one", CODEC, C36I_FAITHFUL, "C01.15",
           extra=[(CODEC, "        self.primary_share_ids = list(range(required_shares))\n",
                   "        self.primary_share_ids = list(range(1, required_shares + 1))\n")]),
    _multi("c36i-shape-pairs-zipped-with-the-reversed-blocks", CODEC, C36I_FAITHFUL, "C01.15",
           extra=[(CODEC, SORTED_PAIRS, "        blocks = sorted(zip([int(s) for s in their_shareids], reversed(some_shares)),\n"
                                        "                        key=itemgetter(0))\n")]),
    _multi("c36i-shape-base-share-size-divides-by-the-total-number-of-shares", CODEC, C36I_FAITHFUL, "C01.1",
           extra=[(CODEC, "        self.share_size = mathutil.div_ceil(data_size, required_shares)\n        self.primary_share_ids",
                   "        self.share_size = mathutil.div_ceil(data_size, max_shares)\n        self.primary_share_ids")]),
    _multi("vanish-c36i-shape-base-set-params-not-called", CODEC, C36I_FAITHFUL, "ANALYSIS-ERROR",
           extra=[(CODEC, "        _CRSParams.set_params(self, data_size, required_shares, max_shares)\n        self.last_share_padding",
                   "        self.data_size, self.required_shares, self.max_shares = data_size, required_shares, max_shares\n"
                   "        self.last_share_padding")]),
]
