from .runner import M
from . import C35 as _T35

NODE = "src/allmydata/immutable/downloader/node.py"
SHARE = "src/allmydata/immutable/downloader/share.py"
FETCH = "src/allmydata/immutable/downloader/fetcher.py"
SEG = "src/allmydata/immutable/downloader/segmentation.py"
FN = "src/allmydata/immutable/filenode.py"

MUTANTS = [
    M("ueb-compare-deleted", NODE,
      "        if h != self._verifycap.uri_extension_hash:\n            raise BadHashError\n", "", "C02.1"),
    M("ueb-compare-flipped", NODE,
      "        if h != self._verifycap.uri_extension_hash:", "        if h == self._verifycap.uri_extension_hash:", "C02.1"),
    M("ueb-compare-wrong-field", NODE,
      "        if h != self._verifycap.uri_extension_hash:", "        if h != self._verifycap.storage_index:", "C02.1"),
    M("ueb-parse-before-compare", NODE,
      "        h = hashutil.uri_extension_hash(UEB_s)\n", "        self._parse_and_store_UEB(UEB_s)\n        h = hashutil.uri_extension_hash(UEB_s)\n", "C02.1"),
    M("ueb-benign-eq-form", NODE,
      "        if h != self._verifycap.uri_extension_hash:\n            raise BadHashError\n",
      "        if not (self._verifycap.uri_extension_hash == h):\n            raise BadHashError\n", None),
    M("ueb-benign-inline", NODE,
      "        h = hashutil.uri_extension_hash(UEB_s)\n        if h != self._verifycap.uri_extension_hash:",
      "        expected = self._verifycap.uri_extension_hash\n        if hashutil.uri_extension_hash(UEB_s) != expected:", None),
    M("root-from-share-data", SHARE,
      "        self._block_hash_tree.set_hashes(block_hashes)\n",
      "        self._block_hash_tree.set_hashes({0: block_hashes.get(0)})\n        self._block_hash_tree.set_hashes(block_hashes)\n", "C02.2"),
    M("blockroot-from-wrong-leaf", SHARE,
      "block_hash_root = self._node.share_hash_tree.get_leaf(self._shnum)",
      "block_hash_root = self._node.share_hash_tree.get_leaf(0)", "C02.2"),
    M("skip-ctext-stage", SHARE,
      "            if not self._satisfy_ciphertext_hash_tree(needed_hashes):\n                # can't check decoded blocks without ciphertext_hash_tree\n                return False\n",
      "            self._satisfy_ciphertext_hash_tree(needed_hashes)\n", "C02.3"),
    M("skip-blockhash-stage", SHARE,
      "        needed_hashes = self._commonshare.get_needed_block_hashes(segnum)\n        if needed_hashes:\n            if not self._satisfy_block_hash_tree(needed_hashes):\n                # can't check block without block_hash_tree\n                return False\n",
      "", "C02.3"),
    M("notify-before-check", SHARE,
      "            self._commonshare.check_block(segnum, block)\n            # hurrah, we have a valid block. Deliver it.\n            for o in observers:\n                # goes to SegmentFetcher._block_request_activity\n                o.notify(state=COMPLETE, block=block)\n",
      "            for o in observers:\n                o.notify(state=COMPLETE, block=block)\n            self._commonshare.check_block(segnum, block)\n", "C02.4"),
    M("handler-notifies-complete", SHARE,
      "            for o in observers:\n                o.notify(state=CORRUPT)\n",
      "            for o in observers:\n                o.notify(state=COMPLETE, block=block)\n", "C02.4"),
    M("check-block-wrong-hash", SHARE,
      "        h = hashutil.block_hash(block)\n        # this may raise", "        h = hashutil.block_hash(b'')\n        # this may raise", "C02.5"),
    M("drop-ctext-check", NODE,
      "        d.addCallback(self._check_ciphertext_hash, segnum)\n", "", "C02.6"),
    M("ctext-check-after-deliver", NODE,
      "        d.addBoth(_deliver)\n", "        d.addBoth(_deliver)\n        d.addCallback(self._check_ciphertext_hash, segnum)\n",
      "C02.6", edits=[(NODE, "        d.addCallback(self._check_ciphertext_hash, segnum)\n        def _deliver(result):", "        def _deliver(result):")]),
    M("ctext-hash-swallowed", NODE,
      "        except (BadHashError, NotEnoughHashesError):\n            format = (\"hash failure in ciphertext_hash_tree:\"",
      "        except (BadHashError, NotEnoughHashesError):\n            return (offset, segment, decodetime)\n            format = (\"hash failure in ciphertext_hash_tree:\"", "C02.6"),
    M("store-block-any-state", FETCH,
      "        if state is COMPLETE:\n            # 'block' is fully validated and complete\n            self._blocks[shnum] = block\n",
      "        if block is not None:\n            self._blocks[shnum] = block\n", "C02.7"),
    M("decode-with-k-minus-1", FETCH,
      "        if len(set(self._blocks.keys())) >= k:", "        if len(set(self._blocks.keys())) >= k - 1:", "C02.7"),
    M("offset-sanity-dropped", SHARE,
      "        if share_hashes_size < 0 or share_hashes_size % (2+HASH_SIZE) != 0:",
      "        if share_hashes_size % (2+HASH_SIZE) != 0:", "C02.9"),
    M("write-whole-segment", SEG,
      "        self._consumer.write(desired_data)", "        self._consumer.write(segment)", "C02.10"),
    # ---- added after seeded changes C02-A / C02-B
    M("hashtree-level-one-skipped", "src/allmydata/hashtree.py", "            for level in reversed(range(len(hashes_to_check))):",
      "            for level in range(num_levels, 1, -1):", "C02.8"),
    M("slice-from-overlap-start", SEG, "        if not o or o[0] != self._offset:", "        if not o:", "C02.10",
      edits=[(SEG, "        offset_in_segment = self._offset - segment_start\n", "        offset_in_segment = o[0] - segment_start\n")]),
    M("benign-slice-from-overlap-start-guarded", SEG, "        offset_in_segment = self._offset - segment_start\n", "        offset_in_segment = o[0] - segment_start\n", None),
    # ---- added after the mutation sweep
    M("share-root-not-seeded", NODE, "        self.share_hash_tree.set_hashes({0: d['share_root_hash']})\n", "        pass\n", "C02.2"),
    M("ctext-root-seeded-at-wrong-index", NODE, "        self.ciphertext_hash_tree.set_hashes({0: d['crypttext_root_hash']})",
      "        self.ciphertext_hash_tree.set_hashes({1: d['crypttext_root_hash']})", "C02.2"),
    M("segment-offset-label-off", NODE, "        offset = segnum * self.segment_size\n", "        offset = (segnum + 1) * self.segment_size\n", "C02.6"),
    M("benign-ge-form", FETCH,
      "        if len(set(self._blocks.keys())) >= k:", "        if not (len(set(self._blocks.keys())) < k):", None),
    # ---- added after the gap review of the mutation sweep
    M("seg-guard-raise-dropped", SEG, "            raise WrongSegmentError(\"I was given the wrong data.\")\n", "", "C02.11"),
    M("seg-guard-flipped", SEG, "        if not o or o[0] != self._offset:", "        if not o or o[0] == self._offset:", "C02.11"),
    M("seg-guard-and", SEG, "        if not o or o[0] != self._offset:", "        if not o and o[0] != self._offset:", "C02.11"),
    M("seg-guard-negated", SEG, "        if not o or o[0] != self._offset:", "        if not (not o or o[0] != self._offset):", "C02.11"),
    M("seg-guard-wrong-index", SEG, "        if not o or o[0] != self._offset:", "        if not o or o[1] != self._offset:", "C02.11"),
    M("seg-guard-only-nonempty", SEG, "        if not o or o[0] != self._offset:", "        if not o:", "C02.11"),
    M("seg-offset-not-advanced", SEG, "        self._offset += len(desired_data)\n", "", "C02.11"),
    M("seg-size-not-reduced", SEG, "        self._size -= len(desired_data)\n", "", "C02.11"),
    M("seg-offset-advanced-by-segment", SEG, "        self._offset += len(desired_data)\n", "        self._offset += len(segment)\n", "C02.11"),
    M("seg-size-grows", SEG, "        self._size -= len(desired_data)\n", "        self._size += len(desired_data)\n", "C02.11"),
    M("seg-offset-advanced-on-one-branch", SEG, "        self._offset += len(desired_data)\n",
      "        if self._hungry:\n            self._offset += len(desired_data)\n", "C02.11"),
    M("benign-seg-guard-start-form", SEG, "        if not o or o[0] != self._offset:", "        if not o or segment_start > self._offset:", None),
    M("benign-seg-guard-eq-form", SEG, "        if not o or o[0] != self._offset:", "        if not (o and self._offset == o[0]):", None),
    M("benign-seg-advance-temp", SEG, "        self._offset += len(desired_data)\n        self._size -= len(desired_data)\n",
      "        nbytes = len(desired_data)\n        self._size = self._size - nbytes\n        self._offset = self._offset + nbytes\n", None),
    M("benign-seg-advance-by-overlap-length", SEG, "        self._offset += len(desired_data)\n        self._size -= len(desired_data)\n",
      "        self._offset += o[1]\n        self._size -= o[1]\n", None),
    M("benign-seg-write-then-advance", SEG,
      "        self._offset += len(desired_data)\n        self._size -= len(desired_data)\n        self._consumer.write(desired_data)\n",
      "        self._consumer.write(desired_data)\n        self._offset += len(desired_data)\n        self._size -= len(desired_data)\n", None),
    M("block-root-not-seeded", SHARE, "        self._block_hash_tree.set_hashes({0: roothash})\n", "", "C02.2"),
    M("block-root-wrong-index", SHARE, "        self._block_hash_tree.set_hashes({0: roothash})", "        self._block_hash_tree.set_hashes({1: roothash})", "C02.2"),
    M("block-root-seeded-conditionally", SHARE, "        self._block_hash_tree.set_hashes({0: roothash})",
      "        if self._block_hash_tree[0]:\n            self._block_hash_tree.set_hashes({0: roothash})", "C02.2"),
    M("need-block-root-never-true", SHARE, "        return bool(not self._block_hash_tree[0])", "        return bool(not self._block_hash_tree)", "C02.2"),
    M("need-block-root-inverted", SHARE, "        return bool(not self._block_hash_tree[0])", "        return bool(self._block_hash_tree[0])", "C02.2"),
    M("benign-need-block-root-is-none", SHARE, "        return bool(not self._block_hash_tree[0])", "        return self._block_hash_tree[0] is None", None),
    M("benign-need-block-root-temp", SHARE, "        return bool(not self._block_hash_tree[0])",
      "        root = self._block_hash_tree[0]\n        return not root", None),
    M("benign-block-root-keyword", SHARE, "        self._block_hash_tree.set_hashes({0: roothash})", "        self._block_hash_tree.set_hashes(hashes={0: roothash})", None),
    M("benign-offsets-local-renamed", SHARE, "        offsets = {}\n", "        table = {}\n", None,
      edits=[(SHARE, "offsets[field] = fields[i]", "table[field] = fields[i]"),
             (SHARE, "self.actual_offsets = offsets\n", "self.actual_offsets = table\n"),
             (SHARE, "share_hashes_size = offsets[\"uri_extension\"] - offsets[\"share_hashes\"]",
              "share_hashes_size = table[\"uri_extension\"] - table[\"share_hashes\"]"),
             (SHARE, "block_hashes_size = offsets[\"share_hashes\"] - offsets[\"block_hashes\"]",
              "block_hashes_size = table[\"share_hashes\"] - table[\"block_hashes\"]")]),
    # ---- C02.12 provenance of the AES-CTR context that decrypts the validated ciphertext
    M("decryptor-of-the-previous-read-handed-to-the-next-consumer", FN,
      "    def __init__(self, consumer, readkey, offset):\n        self._consumer = consumer\n        self._read_ev = None\n        self._download_status = None\n",
      "    def __init__(self, consumer, readkey, offset, decryptor=None):\n        self._consumer = consumer\n        self._read_ev = None\n        self._download_status = None\n"
      "        if decryptor is not None:\n            self._decryptor = decryptor\n            return\n", "C02.12",
      edits=[(FN, "        decryptor = DecryptingConsumer(consumer, self._readkey, offset)\n        d = self._cnode.read(decryptor, offset, size)\n",
              "        resume = None\n"
              "        ks = getattr(self, \"_keystream\", None)\n"
              "        if ks is not None and ks[0] == offset:\n            resume = ks[1]\n"
              "        self._keystream = None\n"
              "        decryptor = DecryptingConsumer(consumer, self._readkey, offset, resume)\n"
              "        d = self._cnode.read(decryptor, offset, size)\n"
              "        def _finished(res):\n"
              "            if size is not None:\n                self._keystream = (offset + size, decryptor._decryptor)\n"
              "            return res\n"
              "        d.addBoth(_finished)\n")]),
    M("decryptors-cached-per-key-and-block", FN,
      "        self._decryptor = aes.create_decryptor(readkey, iv)\n",
      "        self._decryptor = DecryptingConsumer.__dict__.setdefault(\"_ctrs\", {}).setdefault(\n"
      "            (readkey, offset_big), aes.create_decryptor(readkey, iv))\n", "C02.12"),
    M("filenode-swaps-in-the-decryptor-it-kept", FN,
      "        decryptor = DecryptingConsumer(consumer, self._readkey, offset)\n        d = self._cnode.read(decryptor, offset, size)\n",
      "        decryptor = DecryptingConsumer(consumer, self._readkey, offset)\n"
      "        kept = getattr(self, \"_kept\", None)\n"
      "        if kept is not None and kept[0] == offset:\n            decryptor._decryptor = kept[1]\n"
      "        d = self._cnode.read(decryptor, offset, size)\n", "C02.12"),
    M("decrypting-consumer-reused-for-the-next-read", FN,
      "        decryptor = DecryptingConsumer(consumer, self._readkey, offset)\n        d = self._cnode.read(decryptor, offset, size)\n",
      "        decryptor = getattr(self, \"_last_dc\", None)\n"
      "        if decryptor is None or decryptor._consumer is not consumer:\n"
      "            decryptor = DecryptingConsumer(consumer, self._readkey, offset)\n"
      "        self._last_dc = decryptor\n"
      "        d = self._cnode.read(decryptor, offset, size)\n", "C02.12"),
    M("benign-decrypting-consumer-takes-a-log-parent", FN,
      "    def __init__(self, consumer, readkey, offset):\n        self._consumer = consumer\n        self._read_ev = None\n",
      "    def __init__(self, consumer, readkey, offset, logparent=None):\n        self._consumer = consumer\n        self._lp = logparent\n        self._read_ev = None\n",
      None),
    M("benign-decryptor-bound-to-a-local-first", FN,
      "        self._decryptor = aes.create_decryptor(readkey, iv)\n",
      "        ctr = aes.create_decryptor(readkey, iv)\n        self._decryptor = ctr\n", None),
    # ---- C02.13 one byte source per read
    M("read-retried-from-the-original-offset-when-shares-run-out", NODE,
      "        d = s.start()\n        def _done(res):\n            read_ev.finished(now())\n",
      "        d = s.start()\n"
      "        def _retry(f):\n"
      "            from allmydata.interfaces import NotEnoughSharesError, NoSharesError\n"
      "            f.trap(NotEnoughSharesError, NoSharesError)\n"
      "            if not self.running or self._active_segment is not None:\n                return f\n"
      "            s2 = Segmentation(self, offset, size, consumer, read_ev, lp)\n"
      "            return s2.start()\n"
      "        d.addErrback(_retry)\n"
      "        def _done(res):\n            read_ev.finished(now())\n", "C02.13"),
    M("filenode-reads-again-when-the-read-failed", FN,
      "        d = self._cnode.read(decryptor, offset, size)\n",
      "        d = self._cnode.read(decryptor, offset, size)\n"
      "        d.addErrback(lambda f: self._cnode.read(DecryptingConsumer(consumer, self._readkey, offset), offset, size))\n",
      "C02.13"),
    M("second-segmentation-when-the-first-gave-up-at-once", NODE,
      "        d = s.start()\n        def _done(res):\n            read_ev.finished(now())\n",
      "        d = s.start()\n"
      "        if d.called and not s._alive:\n"
      "            # gave up at once: look again\n"
      "            s = Segmentation(self, offset, size, consumer, read_ev, lp)\n"
      "            d = s.start()\n"
      "        def _done(res):\n            read_ev.finished(now())\n", "C02.13"),
    M("segmentation-rewinds-to-the-segment-start-on-retry", SEG,
      "        assert self._node.segment_size is not None\n        return self._maybe_fetch_next()\n",
      "        assert self._node.segment_size is not None\n"
      "        self._offset -= self._offset % self._node.segment_size\n"
      "        return self._maybe_fetch_next()\n", "C02.13"),
    M("failure-notice-written-to-the-consumer", NODE,
      "        def _done(res):\n            read_ev.finished(now())\n            return res\n",
      "        def _done(res):\n            read_ev.finished(now())\n"
      "            if not isinstance(res, type(consumer)) and res is not consumer:\n"
      "                consumer.write(b\"\\n[download failed]\\n\")\n"
      "            return res\n", "C02.13"),
    M("benign-segmentation-local-renamed", NODE,
      "        s = Segmentation(self, offset, size, consumer, read_ev, lp)\n",
      "        seg = Segmentation(self, offset, size, consumer, read_ev, lp)\n", None,
      edits=[(NODE, "        d = s.start()\n        def _done(res):\n            read_ev.finished(now())\n",
              "        d = seg.start()\n        def _done(res):\n            read_ev.finished(now())\n")]),
    M("benign-read-result-replaced-by-a-fired-deferred", FN,
      "        d.addCallback(lambda dc: consumer)\n        return d\n",
      "        d.addCallback(lambda dc: defer.succeed(consumer))\n        return d\n", None),
    M("benign-read-event-closed-by-a-lambda", NODE,
      "        def _done(res):\n            read_ev.finished(now())\n            return res\n        d.addBoth(_done)\n",
      "        d.addBoth(lambda res: (read_ev.finished(now()), res)[1])\n", None),
    M("vanish-satisfy-data-block", SHARE,
      "    def _satisfy_data_block(self, segnum, observers):", "    def _satisfy_data_blockX(self, segnum, observers):",
      "ANALYSIS-ERROR"),
    # ---- added after seeded change C02-I (and C35-I): set_hashes refactored into overlay-and-commit / into helper methods.
    # The faithful refactors must be silent, the slips are decided by the adopted C35 rules on the journal view.
    M("benign-set-hashes-overlay-and-commit", _T35.F, _T35.SET_HASHES_REGION, _T35.OV_OK, None),
    M("benign-set-hashes-helpers", _T35.F, _T35.SET_HASHES_TRY, _T35.HP_OK, None),
    M("overlay-conflicting-root-committed", _T35.F, _T35.SET_HASHES_REGION, _T35.OV_SLIP, "C02.8.3"),
    M("overlay-root-conflict-passed-over", _T35.F, _T35.SET_HASHES_REGION, _T35.OV_ROOT_EXEMPT, "C02.8.3"),
    M("overlay-committed-before-last-rejection", _T35.F, _T35.SET_HASHES_REGION, _T35.OV_COMMIT_EARLY, "C02.8.1"),
    M("helper-journal-entries-returned-at-the-end", _T35.F, _T35.SET_HASHES_TRY, _T35.HP_SLIP, "C02.8.1"),
]
