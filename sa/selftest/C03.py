from .runner import M

NODE = "src/allmydata/immutable/downloader/node.py"
FETCH = "src/allmydata/immutable/downloader/fetcher.py"
FINDER = "src/allmydata/immutable/downloader/finder.py"
SHARE = "src/allmydata/immutable/downloader/share.py"

KCOUNT = ("                if len(set(self._blocks.keys())\n"
          "                       | set(self._active_share_map.keys())\n"
          "                       | set(self._overdue_share_map.keys())\n"
          "                       ) < k:\n")

MUTANTS = [
    # ---- C03.1 wake-up discipline
    M("activity-no-loop-on-overdue", FETCH,
      "            # _do_loop\n            pass\n\n        eventually(self.loop)\n",
      "            # _do_loop\n            pass\n\n        if state is not OVERDUE:\n            eventually(self.loop)\n", "C03.1"),
    M("no-more-shares-no-loop", FETCH,
      "        self._no_more_shares = True\n        eventually(self.loop)\n",
      "        self._no_more_shares = True\n", "C03.1"),
    M("ask-more-shares-inverted", FETCH,
      "        if not self._no_more_shares:\n            self._node.want_more_shares()\n",
      "        if self._no_more_shares:\n            self._node.want_more_shares()\n", "C03.1"),
    M("finder-overdue-no-loop", FINDER,
      "        self.overdue_requests.add(req)\n        eventually(self.loop)\n",
      "        self.overdue_requests.add(req)\n", "C03.1"),
    M("finder-wake-only-on-success", FINDER,
      "        d.addErrback(log.err, format=\"error in send_request\",\n"
      "                     level=log.WEIRD, parent=lp, umid=\"rpdV0w\")\n"
      "        d.addCallback(incidentally, eventually, self.loop)\n",
      "        d.addCallback(incidentally, eventually, self.loop)\n"
      "        d.addErrback(log.err, format=\"error in send_request\",\n"
      "                     level=log.WEIRD, parent=lp, umid=\"rpdV0w\")\n", "C03.1"),
    M("finder-hungry-flag-only", FINDER,
      "        self._hungry = True\n        eventually(self.loop)\n",
      "        self._hungry = True\n", "C03.1"),
    M("node-no-more-shares-not-forwarded", NODE,
      "        self._no_more_shares = True\n        if self._active_segment:\n            self._active_segment.no_more_shares()\n",
      "        self._no_more_shares = True\n", "C03.1"),
    M("share-trigger-loop-dropped", SHARE,
      "            d.addCallback(self._trigger_loop)\n", "", "C03.1"),
    M("share-get-block-no-loop", SHARE,
      "            self._requested_blocks.append( (segnum, set([o])) )\n        self.schedule_loop()\n",
      "            self._requested_blocks.append( (segnum, set([o])) )\n            self.schedule_loop()\n", "C03.1"),
    M("share-loop-flag-never-cleared", SHARE,
      "        self._loop_scheduled = False\n        if not self._alive:\n            return\n",
      "        if not self._alive:\n            self._loop_scheduled = False\n            return\n", "C03.1"),
    # ---- C03.2 per-state bookkeeping
    M("forget-overdue-discard", FETCH,
      "            self._overdue_share_map.discard(shnum, share)\n", "", "C03.2"),
    M("dead-not-terminal", FETCH,
      "        if state in (COMPLETE, CORRUPT, DEAD, BADSEGNUM):", "        if state in (COMPLETE, CORRUPT, BADSEGNUM):", "C03.2"),
    M("overdue-not-tracked", FETCH,
      "            del self._active_share_map[shnum]\n            self._overdue_share_map.add(shnum, share)\n",
      "            del self._active_share_map[shnum]\n", "C03.2"),
    M("overdue-stays-active", FETCH,
      "            del self._active_share_map[shnum]\n            self._overdue_share_map.add(shnum, share)\n",
      "            self._overdue_share_map.add(shnum, share)\n", "C03.2"),
    M("active-removal-wrong-key", FETCH,
      "                del self._active_share_map[shnum]\n            self._overdue_share_map.discard(shnum, share)\n",
      "                del self._active_share_map[share]\n            self._overdue_share_map.discard(shnum, share)\n", "C03.2"),
    # ---- C03.3 abandonment
    M("fail-keeps-alive", SHARE,
      "        self._alive = False\n        for (segnum, observers) in self._requested_blocks:\n",
      "        for (segnum, observers) in self._requested_blocks:\n", "C03.3"),
    M("fail-only-first-block", SHARE,
      "        for (segnum, observers) in self._requested_blocks:\n            for o in observers:\n                o.notify(state=DEAD, f=f)\n",
      "        for (segnum, observers) in self._requested_blocks[:1]:\n            for o in observers:\n                o.notify(state=DEAD, f=f)\n",
      "C03.3"),
    M("loop-handler-no-fail", SHARE,
      "                    level=log.UNUSUAL, parent=self._lp, umid=\"F7yJnQ\")\n            self._fail(Failure(e), log.UNUSUAL)\n",
      "                    level=log.UNUSUAL, parent=self._lp, umid=\"F7yJnQ\")\n", "C03.3"),
    M("loop-catch-all-dropped", SHARE,
      "        except BaseException:\n            self._fail(Failure())\n            raise\n", "", "C03.3"),
    M("got-error-no-fail", SHARE,
      "        self._fail(f, log.UNUSUAL)\n\n    def _trigger_loop",
      "        self._unavailable.add(start, length)\n\n    def _trigger_loop", "C03.3"),
    M("corrupt-not-notified", SHARE,
      "            for o in observers:\n                o.notify(state=CORRUPT)\n", "", "C03.3"),
    M("badsegnum-not-notified", SHARE,
      "            for o in observers:\n                o.notify(state=BADSEGNUM)\n", "", "C03.3"),
    # ---- C03.4 the verdict
    M("overdue-not-counted", FETCH, KCOUNT,
      "                if len(set(self._blocks.keys())\n                       | set(self._active_share_map.keys())\n"
      "                       ) < k:\n", "C03.4"),
    M("fail-before-finder-done", FETCH,
      "            if self._no_more_shares:\n                # But there are no more shares to be had.",
      "            if self._no_more_shares or not self._shares:\n                # But there are no more shares to be had.", "C03.4"),
    M("finder-announce-with-overdue-pending", FINDER,
      "        if self.pending_requests:\n            # no server, but there are still requests in flight",
      "        if non_overdue:\n            # no server, but there are still requests in flight", "C03.4"),
    M("node-declares-no-more-shares", NODE,
      "        self._shares.update(shares)\n        if self._active_segment:\n            self._active_segment.add_shares(shares)\n",
      "        self._shares.update(shares)\n        if self._active_segment:\n            self._active_segment.add_shares(shares)\n"
      "            if len(self._shares) >= self._verifycap.total_shares:\n                self._active_segment.no_more_shares()\n",
      "C03.4"),
    # ---- C03.5 diversity escalation
    M("diversity-return", FETCH,
      "                self._ask_for_more_shares()\n                continue\n",
      "                self._ask_for_more_shares()\n                return\n", "C03.5"),
    M("diversity-no-increment", FETCH,
      "                self._max_shares_per_server += 1\n", "", "C03.5"),
    M("limit-skip-not-flagged", FETCH,
      "                want_more_diversity = True\n                continue\n", "                continue\n", "C03.5"),
    # ---- behaviour-preserving
    M("benign-terminal-as-not-overdue", FETCH,
      "        if state in (COMPLETE, CORRUPT, DEAD, BADSEGNUM):", "        if state is not OVERDUE:", None),
    M("benign-active-pop", FETCH,
      "            if self._active_share_map.get(shnum) is share:\n                del self._active_share_map[shnum]\n",
      "            if self._active_share_map.get(shnum) is share:\n                self._active_share_map.pop(shnum)\n", None),
    M("benign-k-count-hoisted", FETCH, KCOUNT,
      "                candidates = (set(self._blocks.keys())\n                       | set(self._active_share_map.keys())\n"
      "                       | set(self._overdue_share_map.keys()))\n                if not len(candidates) >= k:\n", None),
    M("benign-share-loop-flag-after-alive-check", SHARE,
      "        self._loop_scheduled = False\n        if not self._alive:\n            return\n",
      "        if not self._alive:\n            return\n        self._loop_scheduled = False\n", None),
    M("benign-escalate-by-assignment", FETCH,
      "                self._max_shares_per_server += 1\n",
      "                self._max_shares_per_server = self._max_shares_per_server + 1\n", None),
    # ---- vanished anchor
    M("vanish-block-request-activity", FETCH,
      "    def _block_request_activity(self, share, shnum, state, block=None, f=None):",
      "    def _block_request_activityX(self, share, shnum, state, block=None, f=None):", "ANALYSIS-ERROR"),
    # ---- C03.6 (added after seeded change C03-A)
    M("dead-shares-handed-to-new-fetcher", "src/allmydata/immutable/downloader/node.py",
      "            active_shares = [s for s in self._shares if s.is_alive()]\n            fetcher.add_shares(active_shares) # this triggers the loop\n",
      "            fetcher.add_shares(list(self._shares)) # this triggers the loop\n", "C03.6"),
    M("benign-alive-filter-inline", "src/allmydata/immutable/downloader/node.py",
      "            active_shares = [s for s in self._shares if s.is_alive()]\n            fetcher.add_shares(active_shares) # this triggers the loop\n",
      "            fetcher.add_shares([sh for sh in self._shares if sh.is_alive()])\n", None),
    # ---- C03.7 hand-over on the success path (survivors of the mutation sweep)
    M("add-shares-dropped", FETCH,
      "        self._shares.extend(shares)\n        self._shares.sort(", "        self._shares.sort(", "C03.7"),
    M("got-response-delivers-nothing", FINDER,
      "            s = self._create_share(shnum, bucket, server, dyhb_rtt)\n            shares.append(s)\n",
      "            self._create_share(shnum, bucket, server, dyhb_rtt)\n", "C03.7"),
    M("get-block-not-registered", SHARE,
      "        else:\n            self._requested_blocks.append( (segnum, set([o])) )\n",
      "        else:\n            pass\n", "C03.7"),
    M("get-block-second-observer-dropped", SHARE,
      "                observers.add(o)\n                break\n", "                break\n", "C03.7"),
    M("get-block-no-canceler", SHARE,
      "        o.set_canceler(self, \"_cancel_block_request\")\n", "", "C03.7"),
    M("complete-not-notified", SHARE,
      "            for o in observers:\n                # goes to SegmentFetcher._block_request_activity\n"
      "                o.notify(state=COMPLETE, block=block)\n", "", "C03.7"),
    M("complete-without-block", SHARE,
      "                o.notify(state=COMPLETE, block=block)\n", "                o.notify(state=COMPLETE)\n", "C03.7"),
    M("data-block-not-retired", SHARE,
      "        # in either case, we've retired this block\n        self._requested_blocks.pop(0)\n",
      "        # in either case, we've retired this block\n", "C03.7"),
    M("data-block-retired-only-when-corrupt", SHARE,
      "            self.had_corruption = True\n        # in either case, we've retired this block\n        self._requested_blocks.pop(0)\n",
      "            self.had_corruption = True\n            self._requested_blocks.pop(0)\n", "C03.7"),
    M("badsegnum-not-retired", SHARE,
      "                o.notify(state=BADSEGNUM)\n            self._requested_blocks.pop(0)\n",
      "                o.notify(state=BADSEGNUM)\n", "C03.7"),
    M("use-share-not-started", FETCH,
      "            self._start_share(sh, shnum)\n            sent_something = True\n",
      "            sent_something = True\n", "C03.7"),
    M("use-share-not-active", FETCH,
      "            self._active_share_map[shnum] = sh\n            self._shares_from_server.add(server, sh)\n",
      "            self._shares_from_server.add(server, sh)\n", "C03.7"),
    M("use-share-stays-unused", FETCH,
      "            self._shares.remove(sh)\n            self._active_share_map[shnum] = sh\n",
      "            self._active_share_map[shnum] = sh\n", "C03.7"),
    M("use-share-not-reported", FETCH,
      "            self._start_share(sh, shnum)\n            sent_something = True\n",
      "            self._start_share(sh, shnum)\n", "C03.7"),
    M("do-loop-waits-without-asking", FETCH,
      "            # progress\n            self._ask_for_more_shares()\n", "            # progress\n", "C03.7"),
    M("share-loop-alive-inverted", SHARE,
      "        self._loop_scheduled = False\n        if not self._alive:\n            return\n",
      "        self._loop_scheduled = False\n        if self._alive:\n            return\n", "C03.7"),
    M("fetcher-running-inverted", FETCH,
      "        k = self._k\n        if not self._running:\n            return\n",
      "        k = self._k\n        if self._running:\n            return\n", "C03.7"),
    M("finder-hungry-inverted", FINDER,
      "        if not self._hungry:\n            return\n", "        if self._hungry:\n            return\n", "C03.7"),
    # ---- C03.8 request accounting of the finder
    M("request-not-pending", FINDER,
      "        req = RequestToken(server)\n        self.pending_requests.add(req)\n",
      "        req = RequestToken(server)\n", "C03.8"),
    M("request-retired-only-on-success", FINDER,
      "        d.addBoth(incidentally, self._request_retired, req)\n",
      "        d.addCallback(incidentally, self._request_retired, req)\n", "C03.8"),
    M("request-never-retired", FINDER,
      "        d.addBoth(incidentally, self._request_retired, req)\n", "", "C03.8"),
    M("retired-request-stays-pending", FINDER,
      "        self.pending_requests.discard(req)\n        self.overdue_requests.discard(req)\n",
      "        self.overdue_requests.discard(req)\n", "C03.8"),
    M("overdue-not-marked", FINDER,
      "        assert req in self.pending_requests # paranoia, should never be false\n        self.overdue_requests.add(req)\n",
      "        assert req in self.pending_requests # paranoia, should never be false\n", "C03.8"),
    M("finder-server-unbound", FINDER,
      "        server = None\n        try:\n            if self._servers:\n                server = next(self._servers)\n",
      "        try:\n            if self._servers:\n                server = next(self._servers)\n", "C03.8"),
    # ---- behaviour-preserving refactors of the same code
    M("benign-add-shares-concat", FETCH,
      "        self._shares.extend(shares)\n", "        self._shares = self._shares + list(shares)\n", None),
    M("benign-add-shares-one-by-one", FETCH,
      "        self._shares.extend(shares)\n", "        for s in shares:\n            self._shares.append(s)\n", None),
    M("benign-got-response-comprehension", FINDER,
      "        shares = []\n        for shnum, bucket in buckets.items():\n"
      "            s = self._create_share(shnum, bucket, server, dyhb_rtt)\n            shares.append(s)\n",
      "        shares = [self._create_share(shnum, bucket, server, dyhb_rtt)\n"
      "                  for shnum, bucket in buckets.items()]\n", None),
    M("benign-get-block-found-flag", SHARE,
      "            if segnum0 == segnum:\n                observers.add(o)\n                break\n"
      "        else:\n            self._requested_blocks.append( (segnum, set([o])) )\n",
      "            if segnum0 == segnum:\n                observers.add(o)\n                found = True\n                break\n"
      "        if not found:\n            self._requested_blocks.append( (segnum, set([o])) )\n", None,
      edits=[(SHARE, "        o.set_canceler(self, \"_cancel_block_request\")\n",
              "        o.set_canceler(self, \"_cancel_block_request\")\n        found = False\n")]),
    M("benign-data-block-retired-by-del", SHARE,
      "        # in either case, we've retired this block\n        self._requested_blocks.pop(0)\n",
      "        # in either case, we've retired this block\n        del self._requested_blocks[0]\n", None),
    M("benign-use-share-reordered", FETCH,
      "            self._shares.remove(sh)\n            self._active_share_map[shnum] = sh\n"
      "            self._shares_from_server.add(server, sh)\n            self._start_share(sh, shnum)\n"
      "            sent_something = True\n",
      "            sent_something = True\n            self._active_share_map[shnum] = sh\n"
      "            self._shares_from_server.add(server, sh)\n            self._start_share(sh, shnum)\n"
      "            self._shares.remove(sh)\n", None),
    M("benign-do-loop-asks-after-verdict", FETCH,
      "            # progress\n            self._ask_for_more_shares()\n", "            # progress\n", None,
      edits=[(FETCH, "                # our outstanding or overdue requests may yet work.\n",
              "                # our outstanding or overdue requests may yet work.\n            self._ask_for_more_shares()\n")]),
    M("benign-request-pending-after-query", FINDER,
      "        req = RequestToken(server)\n        self.pending_requests.add(req)\n", "        req = RequestToken(server)\n", None,
      edits=[(FINDER, "        d = server.get_storage_server().get_buckets(self._storage_index)\n",
              "        d = server.get_storage_server().get_buckets(self._storage_index)\n        self.pending_requests.add(req)\n")]),
    M("benign-retired-request-guarded-remove", FINDER,
      "        self.pending_requests.discard(req)\n        self.overdue_requests.discard(req)\n",
      "        if req in self.pending_requests:\n            self.pending_requests.remove(req)\n"
      "        self.overdue_requests.discard(req)\n", None),
    M("benign-is-alive-hoisted", SHARE,
      "        # state=CORRUPT so they'll find a different share.\n        return self._alive\n",
      "        # state=CORRUPT so they'll find a different share.\n        rv = self._alive\n        return rv\n", None),
    M("is-alive-always-true", SHARE,
      "        # state=CORRUPT so they'll find a different share.\n        return self._alive\n",
      "        # state=CORRUPT so they'll find a different share.\n        return True\n", "C03.6"),
    M("benign-do-loop-while-true-form", FETCH,
      "        while len(set(self._blocks.keys())\n                  | set(self._active_share_map.keys())\n"
      "                  ) < k:\n",
      "        while True:\n            if not (len(set(self._blocks.keys()) | set(self._active_share_map.keys())) < k):\n"
      "                break\n", None),
    M("benign-get-block-return-hoisted", SHARE,
      "        self.schedule_loop()\n        return o\n", "        self.schedule_loop()\n        rv = o\n        return rv\n", None),
    M("benign-find-and-use-return-hoisted", FETCH,
      "        return (sent_something, want_more_diversity)\n",
      "        rv = (sent_something, want_more_diversity)\n        return rv\n", None),
]

HT = "src/allmydata/hashtree.py"
GOT_SHARES = ("        self._shares.update(shares)\n        if self._active_segment:\n"
              "            self._active_segment.add_shares(shares)\n")
HANDOVER_FIRST = ("        if self._active_segment:\n            self._active_segment.add_shares(shares)\n"
                  "        self._shares.update(shares)\n")
ROLLBACK = ("        except (BadHashError, NotEnoughHashesError, IndexError):\n            for i in remove_upon_failure:\n"
            "                self[i] = None\n            raise\n")
CATCH = "        except (BadHashError, NotEnoughHashesError, IndexError):\n"
DEAD_BRANCH = "        if state is DEAD:\n            self._last_failure = f\n"
DO_LOOP_GUARD ="        k = self._k\n        if not self._running:\n            return\n"

MUTANTS += [
    # ---- C03.9 a rejected hash chain leaves the node's shared trees unchanged (C03.9.1 / C03.9.2 adopted from C35)
    M("hashtree-parent-not-journaled", HT,            # seeded C03-E
      "                        remove_upon_failure.add(parentnum)\n", "", "C03.9"),
    M("hashtree-handler-misses-not-enough-hashes", HT,
      CATCH + "            for i in remove_upon_failure:", "        except BadHashError:\n            for i in remove_upon_failure:", "C03.9"),
    M("hashtree-rollback-leaves-only", HT, ROLLBACK,
      CATCH + "            for i in remove_upon_failure:\n                if i >= self.first_leaf_num:\n"
      "                    self[i] = None\n            raise\n", "C03.9"),
    M("hashtree-no-rollback", HT, ROLLBACK, CATCH + "            raise\n", "C03.9"),
    M("hashtree-rollback-skipped-for-single-hash", HT, ROLLBACK,
      CATCH + "            if len(remove_upon_failure) > 1:\n                for i in remove_upon_failure:\n"
      "                    self[i] = None\n            raise\n", "C03.9"),
    M("hashtree-journal-forgets-checked-node", HT,
      "                    # our sibling is now as valid as this node\n                    this_level.discard(siblingnum)\n",
      "                    # our sibling is now as valid as this node\n                    this_level.discard(siblingnum)\n"
      "                    remove_upon_failure.discard(i)\n", "C03.9"),
    M("benign-hashtree-handler-classes-reordered", HT,
      CATCH + "            for i in remove_upon_failure:",
      "        except (IndexError, NotEnoughHashesError, BadHashError):\n            for i in remove_upon_failure:", None),
    M("benign-hashtree-rollback-loop-variable", HT, ROLLBACK,
      CATCH + "            for added in remove_upon_failure:\n                self[added] = None\n            raise\n", None),
    M("benign-hashtree-journal-cleared-when-accepted", HT,
      "            # we're done!\n\n        except", "            # we're done!\n            remove_upon_failure.clear()\n\n        except", None),
    M("benign-hashtree-parent-via-temporary", HT,
      "                    parentnum = self.parent(i)\n", "                    p_ = self.parent(i)\n                    parentnum = p_\n", None),
    # ---- C03.10 got_shares records the shares whatever happens to the hand-over to a (possibly stopped) fetcher
    M("got-shares-handover-before-record", NODE, GOT_SHARES, HANDOVER_FIRST, "C03.10"),     # seeded C03-F
    M("got-shares-handover-alias-before-record", NODE, GOT_SHARES,
      "        fetcher = self._active_segment\n        if fetcher:\n            fetcher.add_shares(shares)\n"
      "        self._shares.update(shares)\n", "C03.10"),
    M("got-shares-handover-error-ends-call", NODE, GOT_SHARES,
      "        try:\n            if self._active_segment:\n                self._active_segment.add_shares(shares)\n"
      "        except AttributeError:\n            return\n        self._shares.update(shares)\n", "C03.10"),
    M("got-shares-handover-wrong-handler", NODE, GOT_SHARES,
      "        try:\n            if self._active_segment:\n                self._active_segment.add_shares(shares)\n"
      "        except KeyError:\n            pass\n        self._shares.update(shares)\n", "C03.10"),
    M("got-shares-handover-first-stop-clears-to-none", NODE, GOT_SHARES, HANDOVER_FIRST, "C03.10",
      edits=[(FETCH, "            del self._shares, self._shares_from_server, self._active_share_map\n",
              "            self._shares = None\n            del self._shares_from_server, self._active_share_map\n")]),
    M("benign-got-shares-record-in-finally", NODE, GOT_SHARES,
      "        try:\n            if self._active_segment:\n                self._active_segment.add_shares(shares)\n"
      "        finally:\n            self._shares.update(shares)\n", None),
    M("benign-got-shares-alias-record-first", NODE, GOT_SHARES,
      "        fetcher = self._active_segment\n        self._shares.update(shares)\n        if fetcher is not None:\n"
      "            fetcher.add_shares(shares)\n", None),
    M("benign-got-shares-handover-first-stopped-fetcher-ignores", NODE, GOT_SHARES, HANDOVER_FIRST, None,
      edits=[(FETCH, "        self._shares.extend(shares)\n",
              "        if not self._running:\n            return\n        self._shares.extend(shares)\n")]),
    M("benign-got-shares-handover-first-stop-keeps-list", NODE, GOT_SHARES, HANDOVER_FIRST, None,
      edits=[(FETCH, "            del self._shares, self._shares_from_server, self._active_share_map\n",
              "            del self._shares_from_server, self._active_share_map\n")]),
    # ---- C03.11 the loop of a stopped fetcher does nothing
    M("do-loop-runs-when-stopped", FETCH, DO_LOOP_GUARD, "        k = self._k\n", "C03.11"),
    M("do-loop-guard-only-without-blocks", FETCH, DO_LOOP_GUARD,
      "        k = self._k\n        if not self._running and not self._blocks:\n            return\n", "C03.11"),
    M("do-loop-guard-after-segnum-check", FETCH, DO_LOOP_GUARD, "        k = self._k\n", "C03.11",
      edits=[(FETCH, "        #print(\"LOOP\", self._blocks.keys(),", "        if not self._running:\n            return\n        #print(\"LOOP\", self._blocks.keys(),")]),
    M("benign-do-loop-guard-in-loop", FETCH, DO_LOOP_GUARD, "        k = self._k\n", None,
      edits=[(FETCH, "    def loop(self):\n        try:\n", "    def loop(self):\n        if not self._running:\n            return\n        try:\n")]),
    M("benign-do-loop-guard-via-local", FETCH, DO_LOOP_GUARD,
      "        k = self._k\n        running = self._running\n        if not running:\n            return\n", None),
    # ---- C03.12 a share leaves the fetcher's candidate containers only for a reason of its own
    M("dead-share-forgets-unused-siblings-helper", FETCH, DEAD_BRANCH,          # seeded C03-G
      DEAD_BRANCH + "            self._forget_unused_shares_from(share._server)\n", "C03.12",
      edits=[(FETCH, "    def _cancel_all_requests(self):\n",
              "    def _forget_unused_shares_from(self, server):\n"
              "        unused = [sh for sh in self._shares if sh._server is server]\n"
              "        if unused:\n"
              "            self._shares = [sh for sh in self._shares\n"
              "                            if sh._server is not server]\n\n"
              "    def _cancel_all_requests(self):\n")]),
    M("dead-share-removes-unused-siblings-inline", FETCH, DEAD_BRANCH,
      DEAD_BRANCH + "            for sh in list(self._shares):\n                if sh._server is share._server:\n"
      "                    self._shares.remove(sh)\n", "C03.12"),
    M("corrupt-share-clears-unused-list", FETCH, DEAD_BRANCH,
      "        if state is CORRUPT:\n            # start over with whatever the finder brings next\n            del self._shares[:]\n"
      + DEAD_BRANCH, "C03.12"),
    M("find-share-drops-share-of-active-shnum", FETCH,
      "            if shnum in self._active_share_map:\n",
      "            if shnum in self._active_share_map:\n                self._shares.remove(sh)\n", "C03.12"),
    M("dead-share-drops-active-siblings", FETCH, DEAD_BRANCH,
      DEAD_BRANCH + "            for other in list(self._active_share_map.values()):\n"
      "                if other._server is share._server:\n"
      "                    self._active_share_map.pop(other._shnum, None)\n", "C03.12"),
    M("dead-share-forgets-overdue-requests", FETCH, DEAD_BRANCH,
      DEAD_BRANCH + "            self._overdue_share_map.clear()\n", "C03.12"),
    M("corrupt-share-discards-block", FETCH, DEAD_BRANCH,
      "        if state is CORRUPT:\n            self._blocks.pop(shnum, None)\n" + DEAD_BRANCH, "C03.12"),
    M("benign-use-share-filtered-out", FETCH,
      "            self._shares.remove(sh)\n            self._active_share_map[shnum] = sh\n",
      "            self._shares = [s for s in self._shares if s is not sh]\n            self._active_share_map[shnum] = sh\n", None),
    M("benign-add-shares-sorted-copy", FETCH,
      "        self._shares.extend(shares)\n        self._shares.sort(key=lambda s: (s._dyhb_rtt, s._shnum) )\n",
      "        self._shares = sorted(self._shares + list(shares), key=lambda s: (s._dyhb_rtt, s._shnum))\n", None),
    M("benign-use-share-popped-by-index", FETCH,
      "            self._shares.remove(sh)\n            self._active_share_map[shnum] = sh\n",
      "            picked = self._shares.pop(self._shares.index(sh))\n            self._active_share_map[shnum] = picked\n", None,
      edits=[(FETCH, "            self._shares_from_server.add(server, sh)\n            self._start_share(sh, shnum)\n",
              "            self._shares_from_server.add(server, picked)\n            self._start_share(picked, shnum)\n")]),
    M("benign-stop-clears-lists", FETCH,
      "            del self._shares, self._shares_from_server, self._active_share_map\n",
      "            self._blocks = dict(self._blocks)\n            self._overdue_share_map.clear()\n"
      "            del self._shares, self._shares_from_server, self._active_share_map\n", None),
    M("vanish-fetcher-stop", FETCH, "    def stop(self):\n        if self._running:\n", "    def shutdown(self):\n        if self._running:\n", "ANALYSIS-ERROR"),
]


# Cross-property robustness: faithful refactors that live as benign variants of other properties (bookkeeping of
# _block_request_activity moved into a helper; ShareFinder.loop tidied with _next_server() / _may_send_more()).  The texts
# are imported from the owning self-tests; a failed import skips them.  Two variants of C46 are NOT benign for C03 and are
# expected as violations: the helper that pops whatever holds the shnum (= seeded change C03-I: a repeated DEAD of an
# abandoned share evicts its replacement) and the loop that takes the next server before the request-limit test (the
# server taken on a pass that is at the limit is dropped and never queried).
def _adopt(modname, ids):
    out = []
    try:
        import importlib
        mod = importlib.import_module("." + modname, __package__)
        theirs = {m.id: m for m in mod.MUTANTS}
    except Exception:
        return out
    for (mid, expect) in ids:
        m = theirs.get(mid)
        if m is None:
            continue
        rest = mid[len("benign-"):] if mid.startswith("benign-") else mid
        out.append(M(("benign-%s-%s" if expect is None else "not-benign-here-%s-%s") % (modname, rest),
                     m.path, m.old, m.new, expect, edits=list(m.edits)))
    return out


MUTANTS += _adopt("C46", [
    ("benign-bra-dispatch-with-forget-share-helper-faithful", None),
    ("benign-bra-dispatch-helper-with-other-parameter-names", None),
    ("benign-bra-dispatch-helper-pops-whatever-is-active", "C03.12"),
    ("benign-finder-loop-tidied-with-helpers-faithful", None),
    ("benign-finder-loop-helpers-limit-flag-in-a-local", None),
    ("benign-finder-loop-helpers-server-taken-before-the-limit-test", "C03.4"),
])
MUTANTS += _adopt("C01", [
    ("benign-helpers-limit-checked-before-the-take", None),
])
