from .runner import M

NODE = "src/allmydata/immutable/downloader/node.py"
FETCH = "src/allmydata/immutable/downloader/fetcher.py"
FINDER = "src/allmydata/immutable/downloader/finder.py"
SHARE = "src/allmydata/immutable/downloader/share.py"

KCOUNT = ("                if len(set(self._blocks.keys())\n"
          "                       | set(self._active_share_map.keys())\n"
          "                       | set(self._overdue_share_map.keys())\n"
          "                       ) < k:\n")

MUTANTS = [
    # ---- C03.1 wake-up discipline
    M("activity-no-loop-on-overdue", FETCH,
      "            # _do_loop\n            pass\n\n        eventually(self.loop)\n",
      "            # _do_loop\n            pass\n\n        if state is not OVERDUE:\n            eventually(self.loop)\n", "C03.1"),
    M("no-more-shares-no-loop", FETCH,
      "        self._no_more_shares = True\n        eventually(self.loop)\n",
      "        self._no_more_shares = True\n", "C03.1"),
    M("ask-more-shares-inverted", FETCH,
      "        if not self._no_more_shares:\n            self._node.want_more_shares()\n",
      "        if self._no_more_shares:\n            self._node.want_more_shares()\n", "C03.1"),
    M("finder-overdue-no-loop", FINDER,
      "        self.overdue_requests.add(req)\n        eventually(self.loop)\n",
      "        self.overdue_requests.add(req)\n", "C03.1"),
    M("finder-wake-only-on-success", FINDER,
      "        d.addErrback(log.err, format=\"error in send_request\",\n"
      "                     level=log.WEIRD, parent=lp, umid=\"rpdV0w\")\n"
      "        d.addCallback(incidentally, eventually, self.loop)\n",
      "        d.addCallback(incidentally, eventually, self.loop)\n"
      "        d.addErrback(log.err, format=\"error in send_request\",\n"
      "                     level=log.WEIRD, parent=lp, umid=\"rpdV0w\")\n", "C03.1"),
    M("finder-hungry-flag-only", FINDER,
      "        self._hungry = True\n        eventually(self.loop)\n",
      "        self._hungry = True\n", "C03.1"),
    M("node-no-more-shares-not-forwarded", NODE,
      "        self._no_more_shares = True\n        if self._active_segment:\n            self._active_segment.no_more_shares()\n",
      "        self._no_more_shares = True\n", "C03.1"),
    M("share-trigger-loop-dropped", SHARE,
      "            d.addCallback(self._trigger_loop)\n", "", "C03.1"),
    M("share-get-block-no-loop", SHARE,
      "            self._requested_blocks.append( (segnum, set([o])) )\n        self.schedule_loop()\n",
      "            self._requested_blocks.append( (segnum, set([o])) )\n            self.schedule_loop()\n", "C03.1"),
    M("share-loop-flag-never-cleared", SHARE,
      "        self._loop_scheduled = False\n        if not self._alive:\n            return\n",
      "        if not self._alive:\n            self._loop_scheduled = False\n            return\n", "C03.1"),
    # ---- C03.2 per-state bookkeeping
    M("forget-overdue-discard", FETCH,
      "            self._overdue_share_map.discard(shnum, share)\n", "", "C03.2"),
    M("dead-not-terminal", FETCH,
      "        if state in (COMPLETE, CORRUPT, DEAD, BADSEGNUM):", "        if state in (COMPLETE, CORRUPT, BADSEGNUM):", "C03.2"),
    M("overdue-not-tracked", FETCH,
      "            del self._active_share_map[shnum]\n            self._overdue_share_map.add(shnum, share)\n",
      "            del self._active_share_map[shnum]\n", "C03.2"),
    M("overdue-stays-active", FETCH,
      "            del self._active_share_map[shnum]\n            self._overdue_share_map.add(shnum, share)\n",
      "            self._overdue_share_map.add(shnum, share)\n", "C03.2"),
    M("active-removal-wrong-key", FETCH,
      "                del self._active_share_map[shnum]\n            self._overdue_share_map.discard(shnum, share)\n",
      "                del self._active_share_map[share]\n            self._overdue_share_map.discard(shnum, share)\n", "C03.2"),
    # ---- C03.3 abandonment
    M("fail-keeps-alive", SHARE,
      "        self._alive = False\n        for (segnum, observers) in self._requested_blocks:\n",
      "        for (segnum, observers) in self._requested_blocks:\n", "C03.3"),
    M("fail-only-first-block", SHARE,
      "        for (segnum, observers) in self._requested_blocks:\n            for o in observers:\n                o.notify(state=DEAD, f=f)\n",
      "        for (segnum, observers) in self._requested_blocks[:1]:\n            for o in observers:\n                o.notify(state=DEAD, f=f)\n",
      "C03.3"),
    M("loop-handler-no-fail", SHARE,
      "                    level=log.UNUSUAL, parent=self._lp, umid=\"F7yJnQ\")\n            self._fail(Failure(e), log.UNUSUAL)\n",
      "                    level=log.UNUSUAL, parent=self._lp, umid=\"F7yJnQ\")\n", "C03.3"),
    M("loop-catch-all-dropped", SHARE,
      "        except BaseException:\n            self._fail(Failure())\n            raise\n", "", "C03.3"),
    M("got-error-no-fail", SHARE,
      "        self._fail(f, log.UNUSUAL)\n\n    def _trigger_loop",
      "        self._unavailable.add(start, length)\n\n    def _trigger_loop", "C03.3"),
    M("corrupt-not-notified", SHARE,
      "            for o in observers:\n                o.notify(state=CORRUPT)\n", "", "C03.3"),
    M("badsegnum-not-notified", SHARE,
      "            for o in observers:\n                o.notify(state=BADSEGNUM)\n", "", "C03.3"),
    # ---- C03.4 the verdict
    M("overdue-not-counted", FETCH, KCOUNT,
      "                if len(set(self._blocks.keys())\n                       | set(self._active_share_map.keys())\n"
      "                       ) < k:\n", "C03.4"),
    M("fail-before-finder-done", FETCH,
      "            if self._no_more_shares:\n                # But there are no more shares to be had.",
      "            if self._no_more_shares or not self._shares:\n                # But there are no more shares to be had.", "C03.4"),
    M("finder-announce-with-overdue-pending", FINDER,
      "        if self.pending_requests:\n            # no server, but there are still requests in flight",
      "        if non_overdue:\n            # no server, but there are still requests in flight", "C03.4"),
    M("node-declares-no-more-shares", NODE,
      "        self._shares.update(shares)\n        if self._active_segment:\n            self._active_segment.add_shares(shares)\n",
      "        self._shares.update(shares)\n        if self._active_segment:\n            self._active_segment.add_shares(shares)\n"
      "            if len(self._shares) >= self._verifycap.total_shares:\n                self._active_segment.no_more_shares()\n",
      "C03.4"),
    # ---- C03.5 diversity escalation
    M("diversity-return", FETCH,
      "                self._ask_for_more_shares()\n                continue\n",
      "                self._ask_for_more_shares()\n                return\n", "C03.5"),
    M("diversity-no-increment", FETCH,
      "                self._max_shares_per_server += 1\n", "", "C03.5"),
    M("limit-skip-not-flagged", FETCH,
      "                want_more_diversity = True\n                continue\n", "                continue\n", "C03.5"),
    # ---- behaviour-preserving
    M("benign-terminal-as-not-overdue", FETCH,
      "        if state in (COMPLETE, CORRUPT, DEAD, BADSEGNUM):", "        if state is not OVERDUE:", None),
    M("benign-active-pop", FETCH,
      "            if self._active_share_map.get(shnum) is share:\n                del self._active_share_map[shnum]\n",
      "            if self._active_share_map.get(shnum) is share:\n                self._active_share_map.pop(shnum)\n", None),
    M("benign-k-count-hoisted", FETCH, KCOUNT,
      "                candidates = (set(self._blocks.keys())\n                       | set(self._active_share_map.keys())\n"
      "                       | set(self._overdue_share_map.keys()))\n                if not len(candidates) >= k:\n", None),
    M("benign-share-loop-flag-after-alive-check", SHARE,
      "        self._loop_scheduled = False\n        if not self._alive:\n            return\n",
      "        if not self._alive:\n            return\n        self._loop_scheduled = False\n", None),
    M("benign-escalate-by-assignment", FETCH,
      "                self._max_shares_per_server += 1\n",
      "                self._max_shares_per_server = self._max_shares_per_server + 1\n", None),
    # ---- vanished anchor
    M("vanish-block-request-activity", FETCH,
      "    def _block_request_activity(self, share, shnum, state, block=None, f=None):",
      "    def _block_request_activityX(self, share, shnum, state, block=None, f=None):", "ANALYSIS-ERROR"),
    # ---- C03.6 (added after seeded change C03-A)
    M("dead-shares-handed-to-new-fetcher", "src/allmydata/immutable/downloader/node.py",
      "            active_shares = [s for s in self._shares if s.is_alive()]\n            fetcher.add_shares(active_shares) # this triggers the loop\n",
      "            fetcher.add_shares(list(self._shares)) # this triggers the loop\n", "C03.6"),
    M("benign-alive-filter-inline", "src/allmydata/immutable/downloader/node.py",
      "            active_shares = [s for s in self._shares if s.is_alive()]\n            fetcher.add_shares(active_shares) # this triggers the loop\n",
      "            fetcher.add_shares([sh for sh in self._shares if sh.is_alive()])\n", None),
]
