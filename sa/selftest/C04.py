from .runner import M

NODE = "src/allmydata/immutable/downloader/node.py"
SEG = "src/allmydata/immutable/downloader/segmentation.py"
FN = "src/allmydata/immutable/filenode.py"
LIT = "src/allmydata/immutable/literal.py"

GUARD = ("        if not self._alive or not self._hungry:\n            return\n        if self._active_segnum is not None:\n"
         "            return\n        self._fetch_next()\n")
CANCEL_TAIL = ("        if self._active_segment and self._active_segment.segnum not in segnums:\n"
               "            seg, self._active_segment = self._active_segment, None\n            seg.stop()\n"
               "            self._start_new_segment()\n")
STOP_OLD = ("    def stop(self):\n        # called by the Terminator at shutdown, mostly for tests\n        if self._active_segment:\n"
            "            seg, self._active_segment = self._active_segment, None\n            seg.stop()\n        self._sharefinder.stop()\n")
STOP_HELPER = ("    def _stop_active_segment(self):\n        if self._active_segment:\n"
               "            seg, self._active_segment = self._active_segment, None\n            seg.stop()\n\n"
               "    def stop(self):\n        # called by the Terminator at shutdown, mostly for tests\n"
               "        self._stop_active_segment()\n        self._sharefinder.stop()\n")

MUTANTS = [
    # ---- C04.1 isolation
    M("one-segmentation-per-node", NODE,
      "        s = Segmentation(self, offset, size, consumer, read_ev, lp)\n",
      "        s = getattr(self, \"_segmentation\", None) or Segmentation(self, offset, size, consumer, read_ev, lp)\n"
      "        self._segmentation = s\n", "C04.1"),
    M("benign-segmentation-also-referenced-on-node", NODE,
      "        s = Segmentation(self, offset, size, consumer, read_ev, lp)\n",
      "        s = self._current_read = Segmentation(self, offset, size, consumer, read_ev, lp)\n", None),
    M("stop-producing-stops-node", SEG,
      "        e = DownloadStopped(\"our Consumer called stopProducing()\")\n",
      "        self._node.stop()\n        e = DownloadStopped(\"our Consumer called stopProducing()\")\n", "C04.1"),
    M("pause-clears-node-queue", SEG,
      "        self._hungry = False\n        self._start_pause = now()\n",
      "        self._hungry = False\n        self._node._segment_requests = []\n        self._start_pause = now()\n", "C04.1"),
    M("decryptor-class-level-buffer", FN,
      "    def __init__(self, consumer, readkey, offset):\n",
      "    _pending = []\n\n    def __init__(self, consumer, readkey, offset):\n", "C04.1"),
    M("shared-cancel-handle", NODE,
      "        c = Cancel(self._cancel_request)\n",
      "        c = self._cancel = getattr(self, \"_cancel\", None) or Cancel(self._cancel_request)\n", "C04.1"),
    M("segmentation-gets-offset-zero", NODE,
      "        s = Segmentation(self, offset, size, consumer, read_ev, lp)\n",
      "        s = Segmentation(self, 0, size, consumer, read_ev, lp)\n", "C04.1"),
    # ---- C04.2 cancel discipline
    M("cancel-stops-fetcher-unconditionally", NODE,
      "        if self._active_segment and self._active_segment.segnum not in segnums:",
      "        if self._active_segment:", "C04.2"),
    M("cancel-filters-wrong-field", NODE,
      "                                  if t[2] != cancel]", "                                  if t[3] != cancel]", "C04.2"),
    M("cancel-drops-whole-queue", NODE,
      "        self._segment_requests = [t for t in self._segment_requests\n                                  if t[2] != cancel]\n",
      "        self._segment_requests = []\n", "C04.2"),
    M("extract-drops-other-segments", NODE,
      "        self._segment_requests = [t for t in self._segment_requests\n                                  if t[0] != segnum]\n",
      "        self._segment_requests = []\n", "C04.2"),
    M("extract-retires-everything", NODE,
      "                  for (segnum0,d,c,seg_ev,lp) in self._segment_requests\n                  if segnum0 == segnum]\n",
      "                  for (segnum0,d,c,seg_ev,lp) in self._segment_requests]\n", "C04.2"),
    M("deliver-ignores-cancel", NODE,
      "        if c.active:\n            c.active = False # it is now too late to cancel\n            d.callback(result) # might actually be an errback\n",
      "        c.active = False\n        d.callback(result)\n", "C04.2"),
    M("cancel-leaves-handle-active", NODE,
      "        if self.active:\n            self.active = False\n            self._f(self)\n",
      "        if self.active:\n            self._f(self)\n", "C04.2"),
    M("stop-producing-does-not-cancel", SEG,
      "        if self._cancel_segment_request:\n            self._cancel_segment_request.cancel()\n            self._cancel_segment_request = None\n",
      "        self._cancel_segment_request = None\n", "C04.2"),
    M("benign-cancel-condition-nested", NODE,
      "        if self._active_segment and self._active_segment.segnum not in segnums:\n            seg, self._active_segment = self._active_segment, None\n            seg.stop()\n            self._start_new_segment()\n",
      "        if not self._active_segment:\n            return\n        if not (self._active_segment.segnum in segnums):\n            seg, self._active_segment = self._active_segment, None\n            seg.stop()\n            self._start_new_segment()\n",
      None),
    M("benign-cancel-filter-form", NODE,
      "                                  if t[2] != cancel]", "                                  if not (t[2] == cancel)]", None),
    # ---- C04.2 through a same-class helper (inter-procedural stop analysis)
    M("cancel-helper-unconditional", NODE, STOP_OLD, STOP_HELPER, "C04.2", edits=[(NODE, CANCEL_TAIL,
      "        if self._active_segment:\n            self._stop_active_segment()\n            self._start_new_segment()\n")]),
    M("cancel-stops-whole-node", NODE, CANCEL_TAIL,
      "        if self._active_segment and self._active_segment.segnum not in segnums:\n            self.stop()\n"
      "            self._start_new_segment()\n", "C04.2"),
    # ---- C04.7 one outstanding segment request per read
    M("outstanding-guard-folded-truthiness", SEG, GUARD,          # seeded C04-A
      "        if not self._alive or not self._hungry or self._active_segnum:\n            return\n        self._fetch_next()\n", "C04.7"),
    M("outstanding-guard-truthiness", SEG, "        if self._active_segnum is not None:\n            return\n",
      "        if self._active_segnum:\n            return\n", "C04.7"),
    M("outstanding-guard-dropped", SEG, "        if self._active_segnum is not None:\n            return\n", "", "C04.7"),
    M("resume-bypasses-guard", SEG, "        eventually(self._maybe_fetch_next)\n", "        eventually(self._fetch_next)\n", "C04.7"),
    M("request-not-recorded", SEG, "        self._active_segnum = wanted_segnum\n", "", "C04.7"),
    M("request-recorded-unless-segment-0", SEG, "        self._active_segnum = wanted_segnum\n",
      "        if wanted_segnum:\n            self._active_segnum = wanted_segnum\n", "C04.7"),
    M("retire-only-on-success", SEG, "        d.addBoth(self._request_retired)\n", "        d.addCallback(self._request_retired)\n", "C04.7"),
    M("retire-keeps-record", SEG, "    def _request_retired(self, res):\n        self._active_segnum = None\n",
      "    def _request_retired(self, res):\n", "C04.7"),
    M("retire-after-got-segment", SEG,
      "        d.addBoth(self._request_retired)\n        d.addCallback(self._got_segment, wanted_segnum)\n",
      "        d.addCallback(self._got_segment, wanted_segnum)\n        d.addBoth(self._request_retired)\n", "C04.7"),
    M("pause-forgets-request", SEG, "        self._hungry = False\n        self._start_pause = now()\n",
      "        self._hungry = False\n        self._active_segnum = None\n        self._start_pause = now()\n", "C04.7"),
    M("benign-outstanding-guard-folded", SEG, GUARD,
      "        if not self._alive or not self._hungry or self._active_segnum is not None:\n            return\n        self._fetch_next()\n",
      None),
    M("benign-outstanding-guard-not-is-none", SEG, "        if self._active_segnum is not None:\n            return\n",
      "        idle = self._active_segnum is None\n        if not idle:\n            return\n", None),
    M("benign-outstanding-guard-on-cancel-handle", SEG, "        if self._active_segnum is not None:\n            return\n",
      "        if self._cancel_segment_request:\n            return\n", None),
    M("benign-outstanding-guard-in-fetch-next", SEG, "        if self._active_segnum is not None:\n            return\n        self._fetch_next()\n",
      "        self._fetch_next()\n", None, edits=[(SEG, "    def _fetch_next(self):\n",
                                                    "    def _fetch_next(self):\n        if self._active_segnum is not None:\n            return\n")]),
    M("benign-retire-split-in-two", SEG, "        d.addBoth(self._request_retired)\n",
      "        d.addCallbacks(self._request_retired, self._request_retired)\n", None),
    # ---- C04.8 the other reads go on after the active fetcher was retired
    M("cancel-helper-loses-restart", NODE, STOP_OLD, STOP_HELPER, "C04.8", edits=[(NODE, CANCEL_TAIL,     # seeded C04-B
      "        if self._active_segment and self._active_segment.segnum not in segnums:\n            self._stop_active_segment()\n")]),
    M("cancel-no-restart", NODE, "            seg.stop()\n            self._start_new_segment()\n", "            seg.stop()\n", "C04.8"),
    M("cancel-restart-before-reset", NODE, CANCEL_TAIL,
      "        if self._active_segment and self._active_segment.segnum not in segnums:\n            self._start_new_segment()\n"
      "            seg, self._active_segment = self._active_segment, None\n            seg.stop()\n", "C04.8"),
    M("cancel-stops-without-reset", NODE, CANCEL_TAIL,
      "        if self._active_segment and self._active_segment.segnum not in segnums:\n            self._active_segment.stop()\n"
      "            self._start_new_segment()\n", "C04.8"),
    M("cancel-restart-only-if-queue-was-empty", NODE, "            seg.stop()\n            self._start_new_segment()\n",
      "            seg.stop()\n            if not segnums:\n                self._start_new_segment()\n", "C04.8"),
    M("deliver-no-restart", NODE,
      "            self._download_status.add_misc_event(\"process_block\", start, now())\n            self._start_new_segment()\n",
      "            self._download_status.add_misc_event(\"process_block\", start, now())\n", "C04.8"),
    M("fetch-failed-no-restart", NODE, "            eventually(self._deliver, d, c, f)\n        self._start_new_segment()\n",
      "            eventually(self._deliver, d, c, f)\n", "C04.8"),
    M("benign-cancel-helper-keeps-restart", NODE, STOP_OLD, STOP_HELPER, None, edits=[(NODE, CANCEL_TAIL,
      "        if self._active_segment and self._active_segment.segnum not in segnums:\n            self._stop_active_segment()\n"
      "            self._start_new_segment()\n")]),
    M("benign-cancel-restart-next-turn", NODE, "            seg.stop()\n            self._start_new_segment()\n",
      "            seg.stop()\n            eventually(self._start_new_segment)\n", None),
    M("benign-cancel-restart-after-if", NODE, CANCEL_TAIL,
      "        if self._active_segment and self._active_segment.segnum not in segnums:\n"
      "            seg, self._active_segment = self._active_segment, None\n            seg.stop()\n        self._start_new_segment()\n", None),
    # ---- C04.3 clip
    M("clip-forgets-offset", NODE,
      "        size = max(0, min(size, self._verifycap.size-offset))", "        size = max(0, min(size, self._verifycap.size))", "C04.3"),
    M("clip-allows-negative", NODE,
      "        size = max(0, min(size, self._verifycap.size-offset))", "        size = min(size, self._verifycap.size-offset)", "C04.3"),
    M("no-zero-length-shortcut", NODE,
      "        if size == 0:\n            read_ev.finished(now())\n            # no data, so no producer, so no register/unregisterProducer\n            return defer.succeed(consumer)\n",
      "", "C04.3"),
    M("none-size-means-nothing", NODE,
      "        if size is None:\n            size = self._verifycap.size\n", "        if size is None:\n            size = 0\n", "C04.3"),
    M("benign-clip-reordered", NODE,
      "        size = max(0, min(size, self._verifycap.size-offset))", "        size = max(min(self._verifycap.size - offset, size), 0)", None),
    M("benign-zero-test-as-not", NODE,
      "        if size == 0:\n            read_ev.finished(now())", "        if not size:\n            read_ev.finished(now())", None),
    # ---- C04.4 trim
    M("trim-from-segment-start", SEG,
      "        desired_data = segment[offset_in_segment:offset_in_segment+o[1]]", "        desired_data = segment[:o[1]]", "C04.4"),
    M("trim-whole-rest-of-segment", SEG,
      "        desired_data = segment[offset_in_segment:offset_in_segment+o[1]]", "        desired_data = segment[offset_in_segment:]", "C04.4"),
    M("no-first-byte-check", SEG,
      "        if not o or o[0] != self._offset:", "        if not o:", "C04.4"),
    M("offset-not-advanced", SEG,
      "        self._offset += len(desired_data)\n", "", "C04.4"),
    M("segnum-rounded-up", SEG,
      "            wanted_segnum = self._offset // segment_size", "            wanted_segnum = (self._offset + segment_size - 1) // segment_size",
      "C04.4"),
    M("segment-labelled-by-block-size", NODE,
      "        offset = segnum * self.segment_size\n", "        offset = segnum * self.block_size\n", "C04.4"),
    M("overlap-args-swapped", SEG,
      "        o = overlap(segment_start, len(segment),  self._offset, self._size)", "        o = overlap(segment_start, self._size,  self._offset, len(segment))",
      "C04.4"),
    M("benign-trim-length-from-size", SEG,
      "        desired_data = segment[offset_in_segment:offset_in_segment+o[1]]",
      "        desired_data = segment[offset_in_segment:offset_in_segment+self._size]", None),
    M("benign-trim-inline", SEG,
      "        offset_in_segment = self._offset - segment_start\n        desired_data = segment[offset_in_segment:offset_in_segment+o[1]]",
      "        skip = self._offset - segment_start\n        n_bytes = o[1]\n        desired_data = segment[skip:n_bytes+skip]", None),
    # ---- C04.5 CTR
    M("ctr-mod-15", FN, "        offset_small = offset % 16\n", "        offset_small = offset % 15\n", "C04.5"),
    M("ctr-offset-not-passed", FN,
      "        decryptor = DecryptingConsumer(consumer, self._readkey, offset)", "        decryptor = DecryptingConsumer(consumer, self._readkey, 0)",
      "C04.5"),
    # ---- C04.6 literal
    M("literal-size-as-end", LIT, "            data = self.u.data[offset:offset+size]", "            data = self.u.data[offset:size]", "C04.6"),
    M("literal-ignores-offset", LIT, "            data = self.u.data[offset:]", "            data = self.u.data", "C04.6"),
    M("literal-none-branches-swapped", LIT, "        if size is None:\n            data = self.u.data[offset:]",
      "        if size is not None:\n            data = self.u.data[offset:]", "C04.6"),
    M("benign-literal-branches-reordered", LIT,
      "        if size is None:\n            data = self.u.data[offset:]\n        else:\n            data = self.u.data[offset:offset+size]\n",
      "        if size is not None:\n            data = self.u.data[offset:size+offset]\n        else:\n            data = self.u.data[offset:]\n", None),
    # ---- vanished anchor
    M("vanish-resume-producing", SEG, "    def resumeProducing(self):", "    def _resume_producing(self):", "ANALYSIS-ERROR"),
    M("vanish-cancel-request", NODE, "    def _cancel_request(self, cancel):", "    def _cancel_requestX(self, cancel):", "ANALYSIS-ERROR"),
]
