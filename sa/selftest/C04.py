from .runner import M

NODE = "src/allmydata/immutable/downloader/node.py"
SEG = "src/allmydata/immutable/downloader/segmentation.py"
FN = "src/allmydata/immutable/filenode.py"
LIT = "src/allmydata/immutable/literal.py"
FETCHER = "src/allmydata/immutable/downloader/fetcher.py"

PAST_END_TEST = "        if authoritative and self.segnum >= numsegs:\n"
PAST_END_BODY = ("            # oops, we were asking for a segment number beyond the end of the\n"
                 "            # file. This is an error.\n"
                 "            self.stop()\n"
                 "            e = BadSegmentNumberError(\"segnum=%d, numsegs=%d\" %\n"
                 "                                      (self.segnum, self._node.num_segments))\n"
                 "            f = Failure(e)\n"
                 "            self._node.fetch_failed(self, f)\n"
                 "            return\n")

GUARD = ("        if not self._alive or not self._hungry:\n            return\n        if self._active_segnum is not None:\n"
         "            return\n        self._fetch_next()\n")
CANCEL_TAIL = ("        if self._active_segment and self._active_segment.segnum not in segnums:\n"
               "            seg, self._active_segment = self._active_segment, None\n            seg.stop()\n"
               "            self._start_new_segment()\n")
STOP_OLD = ("    def stop(self):\n        # called by the Terminator at shutdown, mostly for tests\n        if self._active_segment:\n"
            "            seg, self._active_segment = self._active_segment, None\n            seg.stop()\n        self._sharefinder.stop()\n")
STOP_HELPER = ("    def _stop_active_segment(self):\n        if self._active_segment:\n"
               "            seg, self._active_segment = self._active_segment, None\n            seg.stop()\n\n"
               "    def stop(self):\n        # called by the Terminator at shutdown, mostly for tests\n"
               "        self._stop_active_segment()\n        self._sharefinder.stop()\n")

# ---- the completion of a decoded segment runs on a later turn (C04.8 exemption, C04.13)
CAPTURE = "        fetcher = self._active_segment\n"
DECODE = "        d = self._decode_blocks(segnum, blocks)\n"
DELIVER_HEAD = "        def _deliver(result):\n"
GUARD_TEST = "            if self._active_segment is not fetcher:\n"
GUARD_BODY = ("                # nobody wants this segment any more, and the next fetch (if\n"
              "                # any) has already been started: leave it alone\n"
              "                log.msg(format=\"discarding segment(%(segnum)d):\"\n"
              "                        \" abandoned while it was being decoded\",\n"
              "                        segnum=segnum,\n"
              "                        level=log.NOISY, parent=self._lp, umid=\"5Zp1xQ\")\n"
              "                return\n")
DELIVER_REST = ("            log.msg(format=\"delivering segment(%(segnum)d)\",\n"
                "                    segnum=segnum,\n"
                "                    level=log.OPERATIONAL, parent=self._lp,\n"
                "                    umid=\"j60Ojg\")\n"
                "            when = now()\n"
                "            if isinstance(result, Failure):\n"
                "                # this catches failures in decode or ciphertext hash\n"
                "                self._active_segment = None\n"
                "                for (d,c,seg_ev) in self._extract_requests(segnum):\n"
                "                    seg_ev.error(when)\n"
                "                    eventually(self._deliver, d, c, result)\n"
                "            else:\n"
                "                (offset, segment, decodetime) = result\n"
                "                self._active_segment = None\n"
                "                for (d,c,seg_ev) in self._extract_requests(segnum):\n"
                "                    # when we have two requests for the same segment, the\n"
                "                    # second one will not be \"activated\" before the data is\n"
                "                    # delivered, so to allow the status-reporting code to see\n"
                "                    # consistent behavior, we activate them all now. The\n"
                "                    # SegmentEvent will ignore duplicate activate() calls.\n"
                "                    # Note that this will result in an inaccurate \"receive\n"
                "                    # speed\" for the second request.\n"
                "                    seg_ev.activate(when)\n"
                "                    seg_ev.deliver(when, offset, len(segment), decodetime)\n"
                "                    eventually(self._deliver, d, c, result)\n"
                "            self._download_status.add_misc_event(\"process_block\", start, now())\n"
                "            self._start_new_segment()\n")
REGISTER = "        d.addBoth(_deliver)\n"
BEFORE_DECODE_BLOCKS = "    def _decode_blocks(self, segnum, blocks):\n"
FAILURE_RESET = "                # this catches failures in decode or ciphertext hash\n                self._active_segment = None\n"
SUCCESS_RESET = "                (offset, segment, decodetime) = result\n                self._active_segment = None\n"


def _deeper(text, by=4):
    return "".join((" " * by + ln) if ln.strip() else ln for ln in text.splitlines(True))


# the guard hoisted into helpers
HELPER_NESTED = "        def _abandoned():\n            return self._active_segment is not fetcher\n"
HELPER_METHOD = "    def _overtaken(self, fetcher):\n        return self._active_segment is not fetcher\n\n"
HELPER_UNREADABLE = ("        def _abandoned():\n            if self._active_segment is fetcher:\n                return False\n"
                     "            return True\n")
# the capture moved behind the asynchronous gap: the comparison is with what the slot holds *now*
CAPTURE_INSIDE = [(NODE, DELIVER_HEAD, DELIVER_HEAD + "            fetcher = self._active_segment\n")]

# ---- the Cancel handle (C04.14)
IMPORT_TIME = "now = time.time\n"
IMPORT_DATACLASS = "now = time.time\nfrom dataclasses import dataclass, field\n"
CANCEL_INIT = "class Cancel:\n    def __init__(self, f):\n        self._f = f\n        self.active = True\n"
CANCEL_DATACLASS = "@dataclass\nclass Cancel:\n    _f: object\n    active: bool = True\n"
CANCEL_BODY = "        if self.active:\n            self.active = False\n            self._f(self)\n"
CANCEL_BODY_LATE = "        if self.active:\n            self._f(self)\n            self.active = False\n"
CANCEL_FILTER = "                                  if t[2] != cancel]"
WITH_DATACLASS = [(NODE, IMPORT_TIME, IMPORT_DATACLASS)]
# ---- the consumer re-enters the producer from inside write() (C04.15)
ADVANCE_WRITE = ("        self._offset += len(desired_data)\n        self._size -= len(desired_data)\n"
                 "        self._consumer.write(desired_data)\n")
WRITE_ADVANCE = ("        self._consumer.write(desired_data)\n        self._offset += len(desired_data)\n"
                 "        self._size -= len(desired_data)\n")
RESUME_LATER = "        eventually(self._maybe_fetch_next)\n"
RESUME_NOW = "        self._maybe_fetch_next()\n"
RESUME_HEAD = "    def resumeProducing(self):\n        self._hungry = True\n"

# ---- a segment held back while the consumer is paused, handed to the writer by a second route (C04.16)
HELD_INIT = [(SEG, "        self._start_pause = None\n        self._lp = logparent\n",
              "        self._start_pause = None\n        self._held_segment = None\n        self._lp = logparent\n")]
HELD_HOLD = [(SEG, "        self._cancel_segment_request = None\n        # we got file[segment_start:",
              "        self._cancel_segment_request = None\n        if self._alive and not self._hungry:\n"
              "            self._held_segment = (segment_args, wanted_segnum)\n            return\n"
              "        # we got file[segment_start:")]
HELD_HELPER = [(SEG, "    def _retry_bad_segment(self, f):\n",
                "    def _deliver_held_segment(self, segment_args, wanted_segnum):\n        if not self._alive:\n            return\n"
                "        d = defer.maybeDeferred(self._got_segment, segment_args, wanted_segnum)\n"
                "        d.addErrback(self._error)\n\n    def _retry_bad_segment(self, f):\n")]
HELD_TAKE = "        if self._held_segment is not None:\n            held, self._held_segment = self._held_segment, None\n"
RESUME_OLD = RESUME_HEAD + RESUME_LATER
FETCH_GUARD_TAIL = "        if self._active_segnum is not None:\n            return\n        self._fetch_next()\n"

MUTANTS = [
    # ---- C04.1 isolation
    M("one-segmentation-per-node", NODE,
      "        s = Segmentation(self, offset, size, consumer, read_ev, lp)\n",
      "        s = getattr(self, \"_segmentation\", None) or Segmentation(self, offset, size, consumer, read_ev, lp)\n"
      "        self._segmentation = s\n", "C04.1"),
    M("benign-segmentation-also-referenced-on-node", NODE,
      "        s = Segmentation(self, offset, size, consumer, read_ev, lp)\n",
      "        s = self._current_read = Segmentation(self, offset, size, consumer, read_ev, lp)\n", None),
    M("stop-producing-stops-node", SEG,
      "        e = DownloadStopped(\"our Consumer called stopProducing()\")\n",
      "        self._node.stop()\n        e = DownloadStopped(\"our Consumer called stopProducing()\")\n", "C04.1"),
    M("pause-clears-node-queue", SEG,
      "        self._hungry = False\n        self._start_pause = now()\n",
      "        self._hungry = False\n        self._node._segment_requests = []\n        self._start_pause = now()\n", "C04.1"),
    M("decryptor-class-level-buffer", FN,
      "    def __init__(self, consumer, readkey, offset):\n",
      "    _pending = []\n\n    def __init__(self, consumer, readkey, offset):\n", "C04.1"),
    M("shared-cancel-handle", NODE,
      "        c = Cancel(self._cancel_request)\n",
      "        c = self._cancel = getattr(self, \"_cancel\", None) or Cancel(self._cancel_request)\n", "C04.1"),
    M("segmentation-gets-offset-zero", NODE,
      "        s = Segmentation(self, offset, size, consumer, read_ev, lp)\n",
      "        s = Segmentation(self, 0, size, consumer, read_ev, lp)\n", "C04.1"),
    # ---- C04.2 cancel discipline
    M("cancel-stops-fetcher-unconditionally", NODE,
      "        if self._active_segment and self._active_segment.segnum not in segnums:",
      "        if self._active_segment:", "C04.2"),
    M("cancel-filters-wrong-field", NODE,
      "                                  if t[2] != cancel]", "                                  if t[3] != cancel]", "C04.2"),
    M("cancel-drops-whole-queue", NODE,
      "        self._segment_requests = [t for t in self._segment_requests\n                                  if t[2] != cancel]\n",
      "        self._segment_requests = []\n", "C04.2"),
    M("extract-drops-other-segments", NODE,
      "        self._segment_requests = [t for t in self._segment_requests\n                                  if t[0] != segnum]\n",
      "        self._segment_requests = []\n", "C04.2"),
    M("extract-retires-everything", NODE,
      "                  for (segnum0,d,c,seg_ev,lp) in self._segment_requests\n                  if segnum0 == segnum]\n",
      "                  for (segnum0,d,c,seg_ev,lp) in self._segment_requests]\n", "C04.2"),
    M("deliver-ignores-cancel", NODE,
      "        if c.active:\n            c.active = False # it is now too late to cancel\n            d.callback(result) # might actually be an errback\n",
      "        c.active = False\n        d.callback(result)\n", "C04.2"),
    M("cancel-leaves-handle-active", NODE,
      "        if self.active:\n            self.active = False\n            self._f(self)\n",
      "        if self.active:\n            self._f(self)\n", "C04.2"),
    M("stop-producing-does-not-cancel", SEG,
      "        if self._cancel_segment_request:\n            self._cancel_segment_request.cancel()\n            self._cancel_segment_request = None\n",
      "        self._cancel_segment_request = None\n", "C04.2"),
    M("benign-cancel-condition-nested", NODE,
      "        if self._active_segment and self._active_segment.segnum not in segnums:\n            seg, self._active_segment = self._active_segment, None\n            seg.stop()\n            self._start_new_segment()\n",
      "        if not self._active_segment:\n            return\n        if not (self._active_segment.segnum in segnums):\n            seg, self._active_segment = self._active_segment, None\n            seg.stop()\n            self._start_new_segment()\n",
      None),
    M("benign-cancel-filter-form", NODE,
      "                                  if t[2] != cancel]", "                                  if not (t[2] == cancel)]", None),
    # ---- C04.2 through a same-class helper (inter-procedural stop analysis)
    M("cancel-helper-unconditional", NODE, STOP_OLD, STOP_HELPER, "C04.2", edits=[(NODE, CANCEL_TAIL,
      "        if self._active_segment:\n            self._stop_active_segment()\n            self._start_new_segment()\n")]),
    M("cancel-stops-whole-node", NODE, CANCEL_TAIL,
      "        if self._active_segment and self._active_segment.segnum not in segnums:\n            self.stop()\n"
      "            self._start_new_segment()\n", "C04.2"),
    # ---- C04.7 one outstanding segment request per read
    M("outstanding-guard-folded-truthiness", SEG, GUARD,          # seeded C04-A
      "        if not self._alive or not self._hungry or self._active_segnum:\n            return\n        self._fetch_next()\n", "C04.7"),
    M("outstanding-guard-truthiness", SEG, "        if self._active_segnum is not None:\n            return\n",
      "        if self._active_segnum:\n            return\n", "C04.7"),
    M("outstanding-guard-dropped", SEG, "        if self._active_segnum is not None:\n            return\n", "", "C04.7"),
    M("resume-bypasses-guard", SEG, "        eventually(self._maybe_fetch_next)\n", "        eventually(self._fetch_next)\n", "C04.7"),
    M("request-not-recorded", SEG, "        self._active_segnum = wanted_segnum\n", "", "C04.7"),
    M("request-recorded-unless-segment-0", SEG, "        self._active_segnum = wanted_segnum\n",
      "        if wanted_segnum:\n            self._active_segnum = wanted_segnum\n", "C04.7"),
    M("retire-only-on-success", SEG, "        d.addBoth(self._request_retired)\n", "        d.addCallback(self._request_retired)\n", "C04.7"),
    M("retire-keeps-record", SEG, "    def _request_retired(self, res):\n        self._active_segnum = None\n",
      "    def _request_retired(self, res):\n", "C04.7"),
    M("retire-after-got-segment", SEG,
      "        d.addBoth(self._request_retired)\n        d.addCallback(self._got_segment, wanted_segnum)\n",
      "        d.addCallback(self._got_segment, wanted_segnum)\n        d.addBoth(self._request_retired)\n", "C04.7"),
    M("pause-forgets-request", SEG, "        self._hungry = False\n        self._start_pause = now()\n",
      "        self._hungry = False\n        self._active_segnum = None\n        self._start_pause = now()\n", "C04.7"),
    M("benign-outstanding-guard-folded", SEG, GUARD,
      "        if not self._alive or not self._hungry or self._active_segnum is not None:\n            return\n        self._fetch_next()\n",
      None),
    M("benign-outstanding-guard-not-is-none", SEG, "        if self._active_segnum is not None:\n            return\n",
      "        idle = self._active_segnum is None\n        if not idle:\n            return\n", None),
    M("benign-outstanding-guard-on-cancel-handle", SEG, "        if self._active_segnum is not None:\n            return\n",
      "        if self._cancel_segment_request:\n            return\n", None),
    M("benign-outstanding-guard-in-fetch-next", SEG, "        if self._active_segnum is not None:\n            return\n        self._fetch_next()\n",
      "        self._fetch_next()\n", None, edits=[(SEG, "    def _fetch_next(self):\n",
                                                    "    def _fetch_next(self):\n        if self._active_segnum is not None:\n            return\n")]),
    M("benign-retire-split-in-two", SEG, "        d.addBoth(self._request_retired)\n",
      "        d.addCallbacks(self._request_retired, self._request_retired)\n", None),
    # ---- C04.8 the other reads go on after the active fetcher was retired
    M("cancel-helper-loses-restart", NODE, STOP_OLD, STOP_HELPER, "C04.8", edits=[(NODE, CANCEL_TAIL,     # seeded C04-B
      "        if self._active_segment and self._active_segment.segnum not in segnums:\n            self._stop_active_segment()\n")]),
    M("cancel-no-restart", NODE, "            seg.stop()\n            self._start_new_segment()\n", "            seg.stop()\n", "C04.8"),
    M("cancel-restart-before-reset", NODE, CANCEL_TAIL,
      "        if self._active_segment and self._active_segment.segnum not in segnums:\n            self._start_new_segment()\n"
      "            seg, self._active_segment = self._active_segment, None\n            seg.stop()\n", "C04.8"),
    M("cancel-stops-without-reset", NODE, CANCEL_TAIL,
      "        if self._active_segment and self._active_segment.segnum not in segnums:\n            self._active_segment.stop()\n"
      "            self._start_new_segment()\n", "C04.8"),
    M("cancel-restart-only-if-queue-was-empty", NODE, "            seg.stop()\n            self._start_new_segment()\n",
      "            seg.stop()\n            if not segnums:\n                self._start_new_segment()\n", "C04.8"),
    M("deliver-no-restart", NODE,
      "            self._download_status.add_misc_event(\"process_block\", start, now())\n            self._start_new_segment()\n",
      "            self._download_status.add_misc_event(\"process_block\", start, now())\n", "C04.8"),
    M("fetch-failed-no-restart", NODE, "            eventually(self._deliver, d, c, f)\n        self._start_new_segment()\n",
      "            eventually(self._deliver, d, c, f)\n", "C04.8"),
    M("benign-cancel-helper-keeps-restart", NODE, STOP_OLD, STOP_HELPER, None, edits=[(NODE, CANCEL_TAIL,
      "        if self._active_segment and self._active_segment.segnum not in segnums:\n            self._stop_active_segment()\n"
      "            self._start_new_segment()\n")]),
    M("benign-cancel-restart-next-turn", NODE, "            seg.stop()\n            self._start_new_segment()\n",
      "            seg.stop()\n            eventually(self._start_new_segment)\n", None),
    M("benign-cancel-restart-after-if", NODE, CANCEL_TAIL,
      "        if self._active_segment and self._active_segment.segnum not in segnums:\n"
      "            seg, self._active_segment = self._active_segment, None\n            seg.stop()\n        self._start_new_segment()\n", None),
    # ---- C04.3 clip
    M("clip-forgets-offset", NODE,
      "        size = max(0, min(size, self._verifycap.size-offset))", "        size = max(0, min(size, self._verifycap.size))", "C04.3"),
    M("clip-allows-negative", NODE,
      "        size = max(0, min(size, self._verifycap.size-offset))", "        size = min(size, self._verifycap.size-offset)", "C04.3"),
    M("no-zero-length-shortcut", NODE,
      "        if size == 0:\n            read_ev.finished(now())\n            # no data, so no producer, so no register/unregisterProducer\n            return defer.succeed(consumer)\n",
      "", "C04.3"),
    M("none-size-means-nothing", NODE,
      "        if size is None:\n            size = self._verifycap.size\n", "        if size is None:\n            size = 0\n", "C04.3"),
    M("benign-clip-reordered", NODE,
      "        size = max(0, min(size, self._verifycap.size-offset))", "        size = max(min(self._verifycap.size - offset, size), 0)", None),
    M("benign-zero-test-as-not", NODE,
      "        if size == 0:\n            read_ev.finished(now())", "        if not size:\n            read_ev.finished(now())", None),
    # ---- C04.4 trim
    M("trim-from-segment-start", SEG,
      "        desired_data = segment[offset_in_segment:offset_in_segment+o[1]]", "        desired_data = segment[:o[1]]", "C04.4"),
    M("trim-whole-rest-of-segment", SEG,
      "        desired_data = segment[offset_in_segment:offset_in_segment+o[1]]", "        desired_data = segment[offset_in_segment:]", "C04.4"),
    M("no-first-byte-check", SEG,
      "        if not o or o[0] != self._offset:", "        if not o:", "C04.4"),
    M("offset-not-advanced", SEG,
      "        self._offset += len(desired_data)\n", "", "C04.4"),
    M("segnum-rounded-up", SEG,
      "            wanted_segnum = self._offset // segment_size", "            wanted_segnum = (self._offset + segment_size - 1) // segment_size",
      "C04.4"),
    M("segment-labelled-by-block-size", NODE,
      "        offset = segnum * self.segment_size\n", "        offset = segnum * self.block_size\n", "C04.4"),
    M("overlap-args-swapped", SEG,
      "        o = overlap(segment_start, len(segment),  self._offset, self._size)", "        o = overlap(segment_start, self._size,  self._offset, len(segment))",
      "C04.4"),
    M("benign-trim-length-from-size", SEG,
      "        desired_data = segment[offset_in_segment:offset_in_segment+o[1]]",
      "        desired_data = segment[offset_in_segment:offset_in_segment+self._size]", None),
    M("benign-trim-inline", SEG,
      "        offset_in_segment = self._offset - segment_start\n        desired_data = segment[offset_in_segment:offset_in_segment+o[1]]",
      "        skip = self._offset - segment_start\n        n_bytes = o[1]\n        desired_data = segment[skip:n_bytes+skip]", None),
    # ---- C04.5 CTR
    M("ctr-mod-15", FN, "        offset_small = offset % 16\n", "        offset_small = offset % 15\n", "C04.5"),
    M("ctr-offset-not-passed", FN,
      "        decryptor = DecryptingConsumer(consumer, self._readkey, offset)", "        decryptor = DecryptingConsumer(consumer, self._readkey, 0)",
      "C04.5"),
    # ---- C04.6 literal
    M("literal-size-as-end", LIT, "            data = self.u.data[offset:offset+size]", "            data = self.u.data[offset:size]", "C04.6"),
    M("literal-ignores-offset", LIT, "            data = self.u.data[offset:]", "            data = self.u.data", "C04.6"),
    M("literal-none-branches-swapped", LIT, "        if size is None:\n            data = self.u.data[offset:]",
      "        if size is not None:\n            data = self.u.data[offset:]", "C04.6"),
    M("benign-literal-branches-reordered", LIT,
      "        if size is None:\n            data = self.u.data[offset:]\n        else:\n            data = self.u.data[offset:offset+size]\n",
      "        if size is not None:\n            data = self.u.data[offset:size+offset]\n        else:\n            data = self.u.data[offset:]\n", None),
    # ---- C04.2 stopProducing cancels whenever it has a request outstanding
    M("stop-producing-cancels-only-without-handle", SEG, "        if self._cancel_segment_request:\n",
      "        if not self._cancel_segment_request:\n", "C04.2"),
    M("benign-stop-producing-handle-is-not-none", SEG, "        if self._cancel_segment_request:\n",
      "        if self._cancel_segment_request is not None:\n", None),
    # ---- C04.3 Segmentation.__init__ accepts every clipped range
    M("init-assert-rejects-read-to-eof", SEG, "        assert offset+size <= node._verifycap.size\n",
      "        assert offset+size < node._verifycap.size\n", "C04.3"),
    M("init-assert-inverted", SEG, "        assert offset+size <= node._verifycap.size\n",
      "        assert offset+size > node._verifycap.size\n", "C04.3"),
    M("benign-init-assert-rearranged", SEG, "        assert offset+size <= node._verifycap.size\n",
      "        assert size <= node._verifycap.size - offset\n", None),
    M("benign-init-assert-removed", SEG, "        assert offset+size <= node._verifycap.size\n", "", None),
    # ---- C04.9 read() fires with the caller's consumer
    M("empty-read-returns-none", NODE, "            return defer.succeed(consumer)\n", "            return\n", "C04.9"),
    M("read-returns-none", NODE, "        d.addBoth(_done)\n        return d\n", "        d.addBoth(_done)\n", "C04.9"),
    M("read-done-swallows-result", NODE, "            read_ev.finished(now())\n            return res\n",
      "            read_ev.finished(now())\n", "C04.9"),
    M("segmentation-completes-with-none", SEG, "            self._deferred.callback(self._consumer)\n",
      "            self._deferred.callback(None)\n", "C04.9"),
    M("segmentation-start-returns-nothing", SEG, "        self._maybe_fetch_next()\n        return self._deferred\n",
      "        self._maybe_fetch_next()\n", "C04.9"),
    M("filenode-read-fires-with-decryptor", FN, "        d.addCallback(lambda dc: consumer)\n", "", "C04.9"),
    M("filenode-read-returns-none", FN, "        d.addCallback(lambda dc: consumer)\n        return d\n",
      "        d.addCallback(lambda dc: consumer)\n", "C04.9"),
    M("filenode-reads-ciphertext-from-zero", FN, "        d = self._cnode.read(decryptor, offset, size)\n",
      "        d = self._cnode.read(decryptor, 0, size)\n", "C04.9"),
    M("literal-read-fires-with-last-byte", LIT, "        d.addCallback(lambda lastSent: consumer)\n", "", "C04.9"),
    M("literal-read-returns-none", LIT, "        d.addCallback(lambda lastSent: consumer)\n        return d\n",
      "        d.addCallback(lambda lastSent: consumer)\n", "C04.9"),
    M("benign-filenode-read-chained-return", FN, "        d.addCallback(lambda dc: consumer)\n        return d\n",
      "        return d.addCallback(lambda dc: consumer)\n", None),
    M("benign-filenode-read-named-callback", FN, "        d.addCallback(lambda dc: consumer)\n",
      "        def _unwrap(dc):\n            return consumer\n        d.addCallback(_unwrap)\n", None),
    M("benign-read-done-chained", NODE, "        d = s.start()\n        def _done(res):\n            read_ev.finished(now())\n            return res\n"
      "        d.addBoth(_done)\n        return d\n",
      "        def _done(res):\n            read_ev.finished(now())\n            return res\n        return s.start().addBoth(_done)\n", None),
    # ---- C04.10 queued requests are started and delivered
    M("get-segment-does-not-start", NODE, "        self._segment_requests.append( (segnum, d, c, seg_ev, lp) )\n        self._start_new_segment()\n",
      "        self._segment_requests.append( (segnum, d, c, seg_ev, lp) )\n", "C04.10"),
    M("get-segment-starts-only-first-request", NODE, "        self._segment_requests.append( (segnum, d, c, seg_ev, lp) )\n        self._start_new_segment()\n",
      "        if not self._segment_requests:\n            self._start_new_segment()\n        self._segment_requests.append( (segnum, d, c, seg_ev, lp) )\n",
      "C04.10"),
    M("segment-not-delivered", NODE, "decodetime)\n                    eventually(self._deliver, d, c, result)\n", "decodetime)\n", "C04.10"),
    M("fetch-failure-not-delivered", NODE, "            seg_ev.error(now())\n            eventually(self._deliver, d, c, f)\n",
      "            seg_ev.error(now())\n", "C04.10"),
    M("fetch-failure-delivered-to-first-only", NODE, "            seg_ev.error(now())\n            eventually(self._deliver, d, c, f)\n",
      "            seg_ev.error(now())\n            if not self._segment_requests:\n                eventually(self._deliver, d, c, f)\n", "C04.10"),
    M("deliver-never-fires", NODE, "            d.callback(result) # might actually be an errback\n", "", "C04.10"),
    M("benign-get-segment-starts-next-turn", NODE, "        self._segment_requests.append( (segnum, d, c, seg_ev, lp) )\n        self._start_new_segment()\n",
      "        self._segment_requests.append( (segnum, d, c, seg_ev, lp) )\n        eventually(self._start_new_segment)\n", None),
    M("benign-fetch-failed-loop-over-temporary", NODE, "        for (d,c,seg_ev) in self._extract_requests(sf.segnum):\n            seg_ev.error(now())\n"
      "            eventually(self._deliver, d, c, f)\n",
      "        retired = self._extract_requests(sf.segnum)\n        for t in retired:\n            t[2].error(now())\n"
      "            eventually(self._deliver, t[0], t[1], f)\n", None),
    M("benign-fetch-failed-skips-cancelled", NODE, "            seg_ev.error(now())\n            eventually(self._deliver, d, c, f)\n",
      "            seg_ev.error(now())\n            if c.active:\n                eventually(self._deliver, d, c, f)\n", None),
    # ---- C04.11 the callbacks on the segment Deferred; pause/resume
    M("writer-not-registered", SEG, "        d.addCallback(self._got_segment, wanted_segnum)\n", "", "C04.11"),
    M("retry-dropped", SEG, "        if not have_actual_segment_size:\n            # we can retry once\n            d.addErrback(self._retry_bad_segment)\n",
      "", "C04.11"),
    M("retry-only-when-size-known", SEG, "        if not have_actual_segment_size:\n            # we can retry once\n",
      "        if have_actual_segment_size:\n            # we can retry once\n", "C04.11"),
    M("have-size-flag-inverted", SEG, "        have_actual_segment_size = n.segment_size is not None\n",
      "        have_actual_segment_size = n.segment_size is None\n", "C04.11"),
    M("error-handler-before-retry", SEG, "        if not have_actual_segment_size:\n            # we can retry once\n            d.addErrback(self._retry_bad_segment)\n"
      "        d.addErrback(self._error)\n",
      "        d.addErrback(self._error)\n        if not have_actual_segment_size:\n            d.addErrback(self._retry_bad_segment)\n", "C04.11"),
    M("retry-before-writer", SEG, "        d.addCallback(self._got_segment, wanted_segnum)\n        if not have_actual_segment_size:\n"
      "            # we can retry once\n            d.addErrback(self._retry_bad_segment)\n",
      "        if not have_actual_segment_size:\n            d.addErrback(self._retry_bad_segment)\n"
      "        d.addCallback(self._got_segment, wanted_segnum)\n", "C04.11"),
    M("writer-does-not-continue", SEG, "        # _read_ev.update with how much decrypt_time was consumed\n        self._maybe_fetch_next()\n",
      "        # _read_ev.update with how much decrypt_time was consumed\n", "C04.11"),
    M("writer-continues-only-while-hungry-flag-seen", SEG, "        # _read_ev.update with how much decrypt_time was consumed\n        self._maybe_fetch_next()\n",
      "        # _read_ev.update with how much decrypt_time was consumed\n        if self._size:\n            self._maybe_fetch_next()\n", "C04.11"),
    M("resume-stays-closed", SEG, "    def resumeProducing(self):\n        self._hungry = True\n", "    def resumeProducing(self):\n", "C04.11"),
    M("benign-resume-opens-only-after-a-pause", SEG, "    def resumeProducing(self):\n        self._hungry = True\n        eventually(self._maybe_fetch_next)\n"
      "        if self._start_pause is not None:\n",
      "    def resumeProducing(self):\n        eventually(self._maybe_fetch_next)\n        if self._start_pause is not None:\n            self._hungry = True\n",
      None),
    M("start-does-not-fetch", SEG, "        self._consumer.registerProducer(self, True)\n        self._maybe_fetch_next()\n",
      "        self._consumer.registerProducer(self, True)\n", "C04.11"),
    M("benign-start-fetches-next-turn", SEG, "        self._consumer.registerProducer(self, True)\n        self._maybe_fetch_next()\n",
      "        self._consumer.registerProducer(self, True)\n        eventually(self._maybe_fetch_next)\n", None),
    M("benign-retry-test-inline", SEG, "        if not have_actual_segment_size:\n            # we can retry once\n",
      "        if n.segment_size is None:\n            # we can retry once\n", None),
    M("benign-writer-registered-with-addcallbacks", SEG, "        d.addCallback(self._got_segment, wanted_segnum)\n",
      "        d.addCallbacks(self._got_segment, callbackArgs=(wanted_segnum,))\n", None),
    M("benign-resume-reordered", SEG, "    def resumeProducing(self):\n        self._hungry = True\n        eventually(self._maybe_fetch_next)\n",
      "    def resumeProducing(self):\n        eventually(self._maybe_fetch_next)\n        self._hungry = True\n", None),
    M("benign-continue-in-own-callback", SEG, "        # _read_ev.update with how much decrypt_time was consumed\n        self._maybe_fetch_next()\n",
      "        # _read_ev.update with how much decrypt_time was consumed\n", None,
      edits=[(SEG, "        d.addCallback(self._got_segment, wanted_segnum)\n",
              "        d.addCallback(self._got_segment, wanted_segnum)\n        d.addCallback(lambda ign: self._maybe_fetch_next())\n")]),
    # ---- C04.12 a wrongly guessed segment past the end of the file is failed with an error the retry recovers from
    M("past-end-check-off-by-one", FETCHER, PAST_END_TEST, "        if authoritative and self.segnum > numsegs:\n", "C04.12"),  # seeded C04-C
    M("past-end-check-off-by-one-count-first", FETCHER, PAST_END_TEST, "        if authoritative and numsegs < self.segnum:\n", "C04.12"),
    M("past-end-check-removed", FETCHER, PAST_END_TEST + PAST_END_BODY, "", "C04.12"),
    M("past-end-check-only-while-guessing", FETCHER, PAST_END_TEST, "        if not authoritative and self.segnum >= numsegs:\n", "C04.12"),
    M("past-end-check-rejects-last-segment", FETCHER, PAST_END_TEST, "        if authoritative and self.segnum >= numsegs - 1:\n", "C04.12"),
    M("past-end-count-and-flag-swapped", FETCHER, "        numsegs, authoritative = self._node.get_num_segments()\n",
      "        authoritative, numsegs = self._node.get_num_segments()\n", "C04.12"),
    M("past-end-reported-as-not-enough-shares", FETCHER, "            e = BadSegmentNumberError(\"segnum=%d, numsegs=%d\" %\n",
      "            e = NotEnoughSharesError(\"segnum=%d, numsegs=%d\" %\n", "C04.12"),
    M("retry-traps-only-wrong-segment", SEG, "        f.trap(WrongSegmentError, BadSegmentNumberError)\n",
      "        f.trap(WrongSegmentError)\n", "C04.12"),
    M("retry-traps-only-bad-segnum", SEG, "        f.trap(WrongSegmentError, BadSegmentNumberError)\n",
      "        f.trap(BadSegmentNumberError)\n", "C04.12"),
    M("num-segments-never-authoritative", NODE, "        return (self.num_segments, True)\n",
      "        return (self.num_segments, False)\n", "C04.12"),
    M("num-segments-authoritative-only-while-guessing", NODE,
      "        if self.num_segments is None:\n            return (self.guessed_num_segments, False)\n        return (self.num_segments, True)\n",
      "        if self.num_segments is None:\n            return (self.num_segments, True)\n        return (self.guessed_num_segments, False)\n",
      "C04.12"),
    M("benign-past-end-check-negated", FETCHER, PAST_END_TEST, "        if authoritative and not (self.segnum < numsegs):\n", None),
    M("benign-past-end-check-count-first", FETCHER, PAST_END_TEST, "        if authoritative and numsegs <= self.segnum:\n", None),
    M("benign-past-end-check-minus-one", FETCHER, PAST_END_TEST, "        if authoritative and self.segnum > numsegs - 1:\n", None),
    M("benign-past-end-check-in-a-temporary", FETCHER, PAST_END_TEST,
      "        in_range = self.segnum < numsegs\n        if authoritative and not in_range:\n", None),
    M("benign-past-end-check-on-node-attributes", FETCHER, PAST_END_TEST,
      "        if self._node.num_segments is not None and self.segnum >= self._node.num_segments:\n", None),
    M("benign-past-end-failure-inline", FETCHER, PAST_END_BODY,
      "            self.stop()\n            self._node.fetch_failed(self, Failure(BadSegmentNumberError(\n"
      "                \"segnum=%d, numsegs=%d\" % (self.segnum, numsegs))))\n            return\n", None),
    M("benign-retry-trap-reordered", SEG, "        f.trap(WrongSegmentError, BadSegmentNumberError)\n",
      "        f.trap(BadSegmentNumberError, WrongSegmentError)\n", None),
    M("benign-num-segments-known-first", NODE,
      "        if self.num_segments is None:\n            return (self.guessed_num_segments, False)\n        return (self.num_segments, True)\n",
      "        if self.num_segments is not None:\n            return (self.num_segments, True)\n        return (self.guessed_num_segments, False)\n",
      None),
    # ---- C04.8: an exit of the completion is exempt only behind `_active_segment is not <value read from it before the gap>`
    M("completion-returns-early-on-unrelated-test", NODE, DELIVER_HEAD,
      DELIVER_HEAD + "            if not self._segment_requests:\n                return\n", "C04.8"),
    M("completion-returns-early-when-slot-empty", NODE, DELIVER_HEAD,
      DELIVER_HEAD + "            if self._active_segment is None:\n                return\n", "C04.8"),
    M("completion-early-exit-compares-with-value-read-after-the-gap", NODE, CAPTURE + DECODE, DECODE, "C04.8", edits=CAPTURE_INSIDE),
    M("completion-capture-clears-the-slot", NODE, CAPTURE, "        fetcher, self._active_segment = self._active_segment, None\n",
      "C04.8"),
    M("benign-completion-guard-nested", NODE, GUARD_TEST + GUARD_BODY + DELIVER_REST,
      "            if self._active_segment is fetcher:\n" + _deeper(DELIVER_REST), None),
    M("benign-completion-guard-operands-swapped", NODE, GUARD_TEST, "            if fetcher is not self._active_segment:\n", None),
    M("benign-completion-guard-not-is", NODE, GUARD_TEST, "            if not (fetcher is self._active_segment):\n", None),
    M("benign-completion-guard-ne", NODE, GUARD_TEST, "            if self._active_segment != fetcher:\n", None),
    M("benign-completion-guard-flag", NODE, GUARD_TEST,
      "            overtaken = self._active_segment is not fetcher\n            if overtaken:\n", None),
    M("benign-completion-guard-in-nested-helper", NODE, DELIVER_HEAD + GUARD_TEST,
      HELPER_NESTED + DELIVER_HEAD + "            if _abandoned():\n", None),
    M("benign-completion-guard-in-method", NODE, GUARD_TEST, "            if self._overtaken(fetcher):\n", None,
      edits=[(NODE, BEFORE_DECODE_BLOCKS, HELPER_METHOD + BEFORE_DECODE_BLOCKS)]),
    M("completion-guard-in-unreadable-helper", NODE, DELIVER_HEAD + GUARD_TEST,
      HELPER_UNREADABLE + DELIVER_HEAD + "            if _abandoned():\n", "ANALYSIS-ERROR"),
    M("benign-completion-capture-as-callback-argument", NODE, DELIVER_HEAD + GUARD_TEST,
      "        def _deliver(result, mine):\n            if self._active_segment is not mine:\n", None,
      edits=[(NODE, REGISTER, "        d.addBoth(_deliver, fetcher)\n")]),
    M("benign-completion-slot-read-at-registration", NODE, DELIVER_HEAD + GUARD_TEST,
      "        def _deliver(result, mine):\n            if self._active_segment is not mine:\n", None,
      edits=[(NODE, REGISTER, "        d.addBoth(_deliver, self._active_segment)\n"), (NODE, CAPTURE, "")]),
    M("benign-completion-capture-after-decode-started", NODE, CAPTURE + DECODE, DECODE + CAPTURE, None),
    M("benign-completion-capture-copied", NODE, CAPTURE, "        active = self._active_segment\n        fetcher = active\n", None),
    M("benign-completion-fetcher-hands-itself-in", NODE, "    def process_blocks(self, segnum, blocks):\n",
      "    def process_blocks(self, segnum, blocks, sf):\n", None,
      edits=[(NODE, CAPTURE, ""), (NODE, GUARD_TEST, "            if self._active_segment is not sf:\n"),
             (FETCHER, "            self._node.process_blocks(self.segnum, self._blocks)\n",
              "            self._node.process_blocks(self.segnum, self._blocks, self)\n")]),
    # ---- C04.13 code that runs after the gap touches the slot only when it still owns it
    M("completion-guard-removed", NODE, GUARD_TEST + GUARD_BODY, "", "C04.13"),          # the defect repaired by 189a9a9
    M("hash-check-asserts-active-segment", NODE, "        start = now()\n        assert self.segment_size is not None\n",
      "        start = now()\n        assert self._active_segment.segnum == segnum\n        assert self.segment_size is not None\n",
      "C04.13"),                                                                          # the other half of that defect
    M("completion-guard-compares-with-value-read-after-the-gap", NODE, CAPTURE + DECODE, DECODE, "C04.13", edits=CAPTURE_INSIDE),
    M("completion-guard-only-on-success-branch", NODE, GUARD_TEST + GUARD_BODY, "", "C04.13",
      edits=[(NODE, "            else:\n" + SUCCESS_RESET,
              "            else:\n                if self._active_segment is not fetcher:\n                    return\n" + SUCCESS_RESET)]),
    M("completion-guard-only-on-failure-branch", NODE, GUARD_TEST + GUARD_BODY, "", "C04.13",
      edits=[(NODE, FAILURE_RESET, "                if self._active_segment is not fetcher:\n                    return\n" + FAILURE_RESET)]),
    M("completion-resets-through-unguarded-helper", NODE, GUARD_TEST + GUARD_BODY, "", "C04.13",
      edits=[(NODE, FAILURE_RESET, "                self._segment_finished()\n"),
             (NODE, SUCCESS_RESET, "                (offset, segment, decodetime) = result\n                self._segment_finished()\n"),
             (NODE, BEFORE_DECODE_BLOCKS, "    def _segment_finished(self):\n        self._active_segment = None\n\n" + BEFORE_DECODE_BLOCKS)]),
    M("completion-guard-checks-only-for-none", NODE, GUARD_TEST, "            if self._active_segment is None:\n", "C04.13"),
    M("completion-capture-rebound-before-return", NODE, REGISTER,
      REGISTER + "        fetcher = None\n", "C04.13"),
    M("benign-completion-resets-through-helper-behind-guard", NODE, FAILURE_RESET, "                self._segment_finished()\n", None,
      edits=[(NODE, SUCCESS_RESET, "                (offset, segment, decodetime) = result\n                self._segment_finished()\n"),
             (NODE, BEFORE_DECODE_BLOCKS, "    def _segment_finished(self):\n        self._active_segment = None\n\n" + BEFORE_DECODE_BLOCKS)]),
    M("benign-completion-restarts-on-next-turn", NODE,
      "            self._download_status.add_misc_event(\"process_block\", start, now())\n            self._start_new_segment()\n",
      "            self._download_status.add_misc_event(\"process_block\", start, now())\n            eventually(self._start_new_segment)\n",
      None),
    M("benign-start-new-segment-falsy-slot", NODE, "        if self._active_segment is None and self._segment_requests:\n",
      "        if not self._active_segment and self._segment_requests:\n", None),
    M("benign-start-new-segment-wakes-through-slot", NODE, "            fetcher.add_shares(active_shares) # this triggers the loop\n",
      "            self._active_segment.add_shares(active_shares)\n", None),
    # the synchronous retirers are not continuations: rewriting them does not concern C04.13 (nor trip the other rules)
    M("benign-synchronous-retirers-rewritten", NODE, "        assert sf is self._active_segment\n",
      "        assert self._active_segment is sf\n", None,
      edits=[(NODE, "            seg, self._active_segment = self._active_segment, None\n            seg.stop()\n            self._start_new_segment()\n",
              "            seg = self._active_segment\n            self._active_segment = None\n            seg.stop()\n"
              "            self._start_new_segment()\n")]),
    M("benign-fetch-failed-looks-at-the-active-fetcher", NODE, "        assert sf is self._active_segment\n",
      "        assert sf is self._active_segment and self._active_segment.segnum == sf.segnum\n", None),
    # ---- C04.14 the cancelling handle is told apart from the handles of the other reads
    M("cancel-handles-compare-by-value-and-notify-while-active", NODE, CANCEL_INIT, CANCEL_DATACLASS, "C04.14",       # seeded C04-E
      edits=WITH_DATACLASS + [(NODE, CANCEL_BODY, CANCEL_BODY_LATE)]),
    M("cancel-handles-explicit-eq-and-notify-while-active", NODE, CANCEL_INIT,
      CANCEL_INIT + "\n    def __eq__(self, other):\n        return (self._f, self.active) == (other._f, other.active)\n",
      "C04.14", edits=[(NODE, CANCEL_BODY, CANCEL_BODY_LATE)]),
    M("cancel-handles-compare-only-the-callback", NODE, CANCEL_INIT,
      "@dataclass\nclass Cancel:\n    _f: object\n    active: bool = field(default=True, compare=False)\n", "C04.14",
      edits=WITH_DATACLASS),
    M("cancel-handles-by-value-reactivated-before-notify", NODE, CANCEL_INIT, CANCEL_DATACLASS, "C04.14",
      edits=WITH_DATACLASS + [(NODE, CANCEL_BODY, "        if self.active:\n            self.active = False\n            self.active = True\n"
                               "            self._f(self)\n            self.active = False\n")]),
    M("benign-cancel-handles-dataclass-cleared-before-notify", NODE, CANCEL_INIT, CANCEL_DATACLASS, None, edits=WITH_DATACLASS),
    M("benign-cancel-handles-dataclass-without-eq", NODE, CANCEL_INIT, "@dataclass(eq=False)\nclass Cancel:\n    _f: object\n    active: bool = True\n",
      None, edits=WITH_DATACLASS + [(NODE, CANCEL_BODY, CANCEL_BODY_LATE)]),
    M("benign-cancel-handles-by-value-filter-by-identity", NODE, CANCEL_INIT, CANCEL_DATACLASS, None,
      edits=WITH_DATACLASS + [(NODE, CANCEL_BODY, CANCEL_BODY_LATE), (NODE, CANCEL_FILTER, "                                  if t[2] is not cancel]")]),
    M("benign-cancel-notifies-before-clearing", NODE, CANCEL_BODY, CANCEL_BODY_LATE, None),
    M("benign-cancel-handles-eq-is-identity", NODE, CANCEL_INIT,
      CANCEL_INIT + "\n    def __eq__(self, other):\n        return other is self\n\n    __hash__ = object.__hash__\n", None,
      edits=[(NODE, CANCEL_BODY, CANCEL_BODY_LATE)]),
    M("cancel-handles-unknown-class-decorator", NODE, CANCEL_INIT, "@comparable\n" + CANCEL_INIT, "ANALYSIS-ERROR",
      edits=[(NODE, IMPORT_TIME, IMPORT_TIME + "def comparable(cls):\n    return cls\n")]),
    # ---- C04.15 a consumer that resumes from inside write() must not make the read fetch from its old position
    M("write-before-advance-and-resume-fetches-at-once", SEG, ADVANCE_WRITE, WRITE_ADVANCE, "C04.15",                # seeded C04-F
      edits=[(SEG, RESUME_LATER, RESUME_NOW)]),
    M("offset-advanced-after-write-and-resume-kicks-through-helper", SEG,
      "        self._offset += len(desired_data)\n        self._size -= len(desired_data)\n        self._consumer.write(desired_data)\n",
      "        self._size -= len(desired_data)\n        self._consumer.write(desired_data)\n        self._offset += len(desired_data)\n",
      "C04.15", edits=[(SEG, RESUME_HEAD + RESUME_LATER, "    def _kick(self):\n        self._maybe_fetch_next()\n\n" + RESUME_HEAD + "        self._kick()\n")]),
    M("write-before-advance-and-pause-fetches-before-closing-the-gate", SEG, ADVANCE_WRITE, WRITE_ADVANCE, "C04.15",
      edits=[(SEG, "    def pauseProducing(self):\n        self._hungry = False\n",
              "    def pauseProducing(self):\n        self._maybe_fetch_next()\n        self._hungry = False\n")]),
    M("benign-write-before-advance-pause-pokes-the-closed-gate", SEG, ADVANCE_WRITE, WRITE_ADVANCE, None,
      edits=[(SEG, "    def pauseProducing(self):\n        self._hungry = False\n",
              "    def pauseProducing(self):\n        self._hungry = False\n        self._maybe_fetch_next()\n")]),
    M("benign-write-before-advance", SEG, ADVANCE_WRITE, WRITE_ADVANCE, None),
    M("benign-resume-fetches-at-once", SEG, RESUME_LATER, RESUME_NOW, None),
    M("benign-write-before-advance-resume-at-once-behind-busy-flag", SEG, ADVANCE_WRITE,
      "        self._writing = True\n" + WRITE_ADVANCE + "        self._writing = False\n", None,
      edits=[(SEG, RESUME_LATER, RESUME_NOW),
             (SEG, "        self._hungry = True\n        self._active_segnum = None\n",
              "        self._hungry = True\n        self._writing = False\n        self._active_segnum = None\n"),
             (SEG, "        if self._active_segnum is not None:\n            return\n",
              "        if self._active_segnum is not None or self._writing:\n            return\n")]),
    M("benign-write-before-advance-resume-at-once-next-turn-lambda", SEG, ADVANCE_WRITE, WRITE_ADVANCE, None,
      edits=[(SEG, RESUME_LATER, "        eventually(lambda: self._maybe_fetch_next())\n")]),
    # ---- C04.16 a held segment reaches the writer before any fetch of the same activation
    M("held-segment-delivered-after-fetch-is-scheduled", SEG, RESUME_OLD,                                              # seeded C04-G
      RESUME_OLD + HELD_TAKE + "            eventually(self._deliver_held_segment, *held)\n", "C04.16",
      edits=HELD_INIT + HELD_HOLD + HELD_HELPER),
    M("held-segment-scheduled-straight-into-writer-after-fetch", SEG, RESUME_OLD,
      RESUME_OLD + HELD_TAKE + "            eventually(self._got_segment, *held)\n", "C04.16", edits=HELD_INIT + HELD_HOLD),
    M("held-segment-delivered-after-fetch-in-fetch-gate", SEG, FETCH_GUARD_TAIL,
      FETCH_GUARD_TAIL + HELD_TAKE + "            self._deliver_held_segment(*held)\n", "C04.16",
      edits=HELD_INIT + HELD_HOLD + HELD_HELPER),
    M("held-segment-scheduled-but-fetch-runs-at-once", SEG, RESUME_OLD,
      RESUME_HEAD + HELD_TAKE + "            eventually(self._deliver_held_segment, *held)\n        self._maybe_fetch_next()\n",
      "C04.16", edits=HELD_INIT + HELD_HOLD + HELD_HELPER),
    M("held-segment-flushed-by-helper-after-fetch-is-scheduled", SEG, RESUME_OLD,
      "    def _flush_held(self):\n" + HELD_TAKE + "            eventually(self._deliver_held_segment, *held)\n\n"
      + RESUME_OLD + "        self._flush_held()\n", "C04.16", edits=HELD_INIT + HELD_HOLD + HELD_HELPER),
    M("benign-held-segment-delivered-before-fetch", SEG, RESUME_OLD,
      RESUME_HEAD + HELD_TAKE + "            eventually(self._deliver_held_segment, *held)\n" + RESUME_LATER, None,
      edits=HELD_INIT + HELD_HOLD + HELD_HELPER),
    M("benign-held-segment-delivered-instead-of-fetch", SEG, RESUME_OLD,
      RESUME_HEAD + "        if self._held_segment is None:\n    " + RESUME_LATER + HELD_TAKE
      + "            eventually(self._deliver_held_segment, *held)\n", None, edits=HELD_INIT + HELD_HOLD + HELD_HELPER),
    M("benign-held-segment-delivered-at-once-fetch-later", SEG, RESUME_OLD,
      RESUME_OLD + HELD_TAKE + "            self._deliver_held_segment(*held)\n", None,
      edits=HELD_INIT + HELD_HOLD + HELD_HELPER),
    M("benign-resume-schedules-fetch-through-helper", SEG, RESUME_OLD,
      "    def _kick_later(self):\n" + RESUME_LATER + "\n" + RESUME_HEAD + "        self._kick_later()\n", None),
    # ---- vanished anchor
    M("vanish-resume-producing", SEG, "    def resumeProducing(self):", "    def _resume_producing(self):", "ANALYSIS-ERROR"),
    M("vanish-get-num-segments", NODE, "    def get_num_segments(self):", "    def get_num_segments_(self):", "ANALYSIS-ERROR"),
    M("vanish-cancel-request", NODE, "    def _cancel_request(self, cancel):", "    def _cancel_requestX(self, cancel):", "ANALYSIS-ERROR"),
]
