from .runner import M

UP = "src/allmydata/immutable/upload.py"
EN = "src/allmydata/immutable/encode.py"
LY = "src/allmydata/immutable/layout.py"

# WriteBucketProxy.close (C06.8 / C06.9)
CLOSE_IF = ("        if self._write_buffer.get_queued_bytes() > 0:\n"
            "            d = self._actually_write()\n"
            "        else:\n"
            "            # No data queued, don't send empty string write.\n"
            "            d = defer.succeed(True)\n")
CLOSE_TAIL = ("        d.addCallback(lambda _: self._rref.callRemote(\"close\"))\n"
              "        return d\n")
CLOSE_GUARD = "        if self._write_buffer.get_queued_bytes() > 0:\n            d = self._actually_write()"
QW_TAIL = ("            return self._actually_write()\n"
           "        else:\n"
           "            return defer.succeed(False)\n")
CT_TAIL = ("        d.addCallback(lambda _: self._really_put_crypttext_hashes(hashes))\n"
           "        return d\n")

# CHKUploader.set_shareholders (C06.12)
SH_ASSERT = ("        assert len(buckets) == sum([len(tracker.buckets)\n"
             "                                    for tracker in upload_trackers]), \\\n"
             "            \"%s (%s) != %s (%s)\" % (\n"
             "                len(buckets),\n"
             "                buckets,\n"
             "                sum([len(tracker.buckets) for tracker in upload_trackers]),\n"
             "                [(t.buckets, t.get_serverid()) for t in upload_trackers]\n"
             "                )\n")
SH_LOOP = ("        for tracker in upload_trackers:\n"
           "            buckets.update(tracker.buckets)\n"
           "            for shnum in tracker.buckets:\n"
           "                self._server_trackers[shnum] = tracker\n"
           "                servermap.setdefault(shnum, set()).add(tracker.get_serverid())\n")

# Encoder.done / close_all_shareholders / CHKUploader._encrypted_done (C06.11)
DONE_STORE = "        # update our sharemap\n        self._shares_placed = set(self.landlords.keys())\n"
CLOSE_LOOP = ("        dl = []\n        for shareid in list(self.landlords):\n"
              "            d = self.landlords[shareid].close()\n")
RES_LOOP = ("        for shnum in e.get_shares_placed():\n"
            "            server = self._server_trackers[shnum].get_server()\n"
            "            sharemap.add(shnum, server)\n"
            "            servermap.add(server, shnum)\n")
ENC_AWAIT = ("        verifycap = yield self._encoder.start()\n"
             "        results = self._encrypted_done(verifycap)\n")

# the C05-I refactor of BaseUploadable (table loop + _encoding_param helper), done faithfully
BU_IFS = ("        if \"k\" in default_params:\n"
          "            self.default_encoding_param_k = default_params[\"k\"]\n"
          "        if \"happy\" in default_params:\n"
          "            self.default_encoding_param_happy = default_params[\"happy\"]\n"
          "        if \"n\" in default_params:\n"
          "            self.default_encoding_param_n = default_params[\"n\"]\n"
          "        if \"max_segment_size\" in default_params:\n"
          "            self.default_max_segment_size = default_params[\"max_segment_size\"]\n"
          "        self.default_params_set = True\n")
BU_LOOP = ("        for name in self._DEFAULTABLE_PARAMS:\n"
           "            if name in default_params:\n"
           "                attr = (\"default_max_segment_size\" if name == \"max_segment_size\"\n"
           "                        else \"default_encoding_param_\" + name)\n"
           "                setattr(self, attr, default_params[name])\n"
           "        self.default_params_set = True\n"
           "\n"
           "    def _encoding_param(self, name):\n"
           "        return (getattr(self, \"encoding_param_\" + name)\n"
           "                or getattr(self, \"default_encoding_param_\" + name))\n")
BU_TABLE = ("    encoding_param_n = None\n\n    _all_encoding_parameters = None\n",
            "    encoding_param_n = None\n\n    _DEFAULTABLE_PARAMS = (\"k\", \"happy\", \"n\", \"max_segment_size\")\n\n"
            "    _all_encoding_parameters = None\n")
BU_READS = ("        k = self.encoding_param_k or self.default_encoding_param_k\n"
            "        happy = self.encoding_param_happy or self.default_encoding_param_happy\n"
            "        n = self.encoding_param_n or self.default_encoding_param_n\n")


def bu_reads(k="k", happy="happy", n="n"):
    return ("        k = self._encoding_param(%s)\n        happy = self._encoding_param(%s)\n"
            "        n = self._encoding_param(%s)\n" % (k, happy, n))


MUTANTS = [
    # ---- C06.1 success gate of server selection
    M("gate-compares-needed-shares", UP,
      "        if effective_happiness < min_happiness:", "        if effective_happiness < needed_shares:", "C06.1"),
    M("gate-off-by-one", UP,
      "        if effective_happiness < min_happiness:", "        if effective_happiness < min_happiness - 1:", "C06.1"),
    M("unhappy-falls-through", UP,
      "            self._failed(msg)  # raises UploadUnhappinessError\n            return\n", "", "C06.1"),
    M("unhappy-raises-without-abort", UP,
      "            self._failed(msg)  # raises UploadUnhappinessError\n            return\n",
      "            raise UploadUnhappinessError(msg)\n", "C06.1"),
    M("returns-other-preexisting-map", UP,
      "        defer.returnValue((self.use_trackers, self.peer_selector.get_sharemap_of_preexisting_shares()))",
      "        defer.returnValue((self.use_trackers, self.preexisting_shares))", "C06.1"),
    M("happiness-of-preexisting-only", UP,
      "        # and so 'merged' must be (re-)computed here.\n        merged = merge_servers(self.peer_selector.get_sharemap_of_preexisting_shares(), self.use_trackers)",
      "        # and so 'merged' must be (re-)computed here.\n        merged = merge_servers(self.peer_selector.get_sharemap_of_preexisting_shares(), set(trackers))", "C06.1"),
    M("benign-gate-ge-form", UP,
      "        if effective_happiness < min_happiness:", "        if not (effective_happiness >= min_happiness):", None),
    M("benign-gate-uses-attribute", UP,
      "        if effective_happiness < min_happiness:", "        if effective_happiness < self.min_happiness:", None),
    M("benign-gate-hoisted", UP,
      "        effective_happiness = servers_of_happiness(merged)\n\n        # print(\"placements completed",
      "        final_happiness = servers_of_happiness(merged)\n        effective_happiness = final_happiness\n        threshold = min_happiness\n\n        # print(\"placements completed",
      None, edits=[(UP, "        if effective_happiness < min_happiness:", "        if final_happiness < threshold:")]),
    # ---- C06.2 threshold provenance
    M("swap-k-and-happy-arguments", UP,
      "                                             num_segments, n, k, desired,",
      "                                             num_segments, n, desired, k,", "C06.2"),
    M("share-counts-reordered", EN,
      "            return (self.required_shares, self.min_happiness,\n                    self.num_shares)",
      "            return (self.required_shares, self.num_shares,\n                    self.min_happiness)", "C06.2"),
    M("encoder-happy-from-k", EN,
      "        self.min_happiness = happy\n", "        self.min_happiness = k\n", "C06.2"),
    M("param-tuple-happy-is-k", UP,
      "            encoding_parameters = (k, happy, n, segsize)\n            self._all_encoding_parameters",
      "            encoding_parameters = (k, k, n, segsize)\n            self._all_encoding_parameters", "C06.2"),
    # C05-I shape: the settings are read through a helper taking the constant name (getattr on a folded string)
    M("benign-c05i-faithful-refactor-param-helper", UP, BU_IFS, BU_LOOP, None,
      edits=[(UP, BU_TABLE[0], BU_TABLE[1]), (UP, BU_READS, bu_reads('"k"', '"happy"', '"n"'))]),
    M("benign-c05i-helper-name-table", UP, BU_IFS,
      BU_LOOP.replace('getattr(self, "encoding_param_" + name)', 'getattr(self, self._OVERRIDE_ATTR[name])'), None,
      edits=[(UP, BU_TABLE[0], BU_TABLE[1].replace(
                  "    _all_encoding_parameters", "    _OVERRIDE_ATTR = {\"k\": \"encoding_param_k\", "
                  "\"happy\": \"encoding_param_happy\", \"n\": \"encoding_param_n\"}\n    _all_encoding_parameters")),
             (UP, BU_READS, bu_reads('name="k"', 'name="happy"', 'name="n"'))]),
    M("c05i-shape-happy-read-from-n", UP, BU_IFS, BU_LOOP, "C06.2",
      edits=[(UP, BU_TABLE[0], BU_TABLE[1]), (UP, BU_READS, bu_reads('"k"', '"n"', '"n"'))]),
    M("c05i-shape-helper-ignores-name", UP, BU_IFS,
      BU_LOOP.replace('getattr(self, "encoding_param_" + name)', 'getattr(self, "encoding_param_k")')
             .replace('getattr(self, "default_encoding_param_" + name)', 'getattr(self, "default_encoding_param_k")'),
      "C06.2",
      edits=[(UP, BU_TABLE[0], BU_TABLE[1]), (UP, BU_READS, bu_reads('"k"', '"happy"', '"n"'))]),
    M("c05i-shape-default-of-k-for-happy", UP, BU_IFS,
      BU_LOOP.replace('getattr(self, "default_encoding_param_" + name)',
                      'getattr(self, "default_encoding_param_" + ("k" if name == "happy" else name))'),
      "C06.2",
      edits=[(UP, BU_TABLE[0], BU_TABLE[1]), (UP, BU_READS, bu_reads('"k"', '"happy"', '"n"'))]),
    M("c05i-shape-opaque-name-argument", UP, BU_IFS, BU_LOOP, "ANALYSIS-ERROR",
      edits=[(UP, BU_TABLE[0], BU_TABLE[1]),
             (UP, BU_READS, bu_reads('"k"', 'self._status and "happy"', '"n"'))]),
    # ---- C06.3 failure aborts allocations
    M("failed-does-not-abort", UP,
      "        for tracker in self.use_trackers:\n            assert isinstance(tracker, ServerTracker)\n            tracker.abort()\n        raise UploadUnhappinessError(msg)",
      "        raise UploadUnhappinessError(msg)", "C06.3"),
    M("failed-returns-the-error", UP,
      "            tracker.abort()\n        raise UploadUnhappinessError(msg)",
      "            tracker.abort()\n        return UploadUnhappinessError(msg)", "C06.3"),
    M("failed-aborts-first-only", UP,
      "            tracker.abort()\n        raise UploadUnhappinessError(msg)",
      "            tracker.abort()\n            break\n        raise UploadUnhappinessError(msg)", "C06.3"),
    M("abort-some-forgets-remote-abort", UP,
      "                self.buckets[sharenum].abort()\n                del self.buckets[sharenum]",
      "                del self.buckets[sharenum]", "C06.3"),
    # ---- C06.4 errback discipline
    M("put-block-errback-dropped", EN,
      "        d.addErrback(self._remove_shareholder, shareid,\n                     \"segnum=%d\" % segment_num)\n", "", "C06.4"),
    M("uri-extension-errback-dropped", EN,
      "        d.addErrback(self._remove_shareholder, shareid, \"put_uri_extension\")\n", "", "C06.4"),
    M("close-failure-logged-first", EN,
      "            d.addErrback(self._remove_shareholder, shareid, \"close\")",
      "            d.addErrback(lambda f: self.log(\"close failed\", failure=f))\n            d.addErrback(self._remove_shareholder, shareid, \"close\")", "C06.4"),
    M("header-failure-only-logged", EN,
      "            d.addErrback(self._remove_shareholder, shareid, \"start\")",
      "            d.addErrback(lambda f: self.log(\"put_header failed\", failure=f))", "C06.4"),
    M("errback-only-when-tail", EN,
      "        d.addErrback(self._remove_shareholder, shareid, \"put_block_hashes\")",
      "        if len(block_hashes) > 1:\n            d.addErrback(self._remove_shareholder, shareid, \"put_block_hashes\")", "C06.4"),
    M("benign-chained-errback", EN,
      "        d = sh.put_share_hashes(needed_hashes)\n        d.addErrback(self._remove_shareholder, shareid, \"put_share_hashes\")\n        return d",
      "        return sh.put_share_hashes(needed_hashes).addErrback(self._remove_shareholder, shareid, \"put_share_hashes\")", None),
    M("benign-inline-landlord", EN,
      "        sh = self.landlords[shareid]\n        d = sh.put_crypttext_hashes(all_hashes)",
      "        d = self.landlords[shareid].put_crypttext_hashes(all_hashes)", None),
    # ---- C06.5 _remove_shareholder
    M("remove-compares-needed-shares", EN,
      "        if happiness < self.min_happiness:", "        if happiness < self.required_shares:", "C06.5"),
    M("happiness-before-removal", EN,
      "        if shareid in self.landlords:\n            self.landlords[shareid].abort()",
      "        happiness = happinessutil.servers_of_happiness(self.servermap)\n        if shareid in self.landlords:\n            self.landlords[shareid].abort()",
      "C06.5", edits=[(EN, "                     level=log.WEIRD, umid=\"TQGFRw\")\n        happiness = happinessutil.servers_of_happiness(self.servermap)\n",
                       "                     level=log.WEIRD, umid=\"TQGFRw\")\n")]),
    M("servermap-not-updated", EN,
      "            self.servermap[shareid].remove(peerid)\n            if not self.servermap[shareid]:\n                del self.servermap[shareid]\n",
      "", "C06.5"),
    M("failed-landlord-not-aborted", EN,
      "            self.landlords[shareid].abort()\n            peerid", "            peerid", "C06.5"),
    M("failed-landlord-kept", EN,
      "            del self.landlords[shareid]\n", "", "C06.5"),
    M("unhappiness-only-logged", EN,
      "            msg = \"%s: %s\" % (msg, why)\n            raise UploadUnhappinessError(msg)",
      "            msg = \"%s: %s\" % (msg, why)\n            self.log(msg, level=log.WEIRD)", "C06.5"),
    M("benign-landlord-local", EN,
      "            self.landlords[shareid].abort()\n            peerid = self.landlords[shareid].get_peerid()",
      "            sh = self.landlords[shareid]\n            sh.abort()\n            peerid = sh.get_peerid()", None),
    M("benign-remove-ge-form", EN,
      "        if happiness < self.min_happiness:", "        if not (happiness >= self.min_happiness):", None),
    M("benign-servermap-local", EN,
      "        happiness = happinessutil.servers_of_happiness(self.servermap)\n        if happiness",
      "        current = self.servermap\n        happiness = happinessutil.servers_of_happiness(current)\n        if happiness", None),
    # ---- C06.6 failure propagation / stages
    M("gather-without-fire-on-errback", EN,
      "        d = defer.DeferredList(dl, fireOnOneErrback=True)", "        d = defer.DeferredList(dl, consumeErrors=True)", "C06.6"),
    M("eater-before-deferredlist", EN,
      "        d = defer.DeferredList(dl, fireOnOneErrback=True)\n        def _eat", "        def _eat", "C06.6",
      edits=[(EN, "            d0.addErrback(_eatUploadUnhappinessError)\n        return d",
              "            d0.addErrback(_eatUploadUnhappinessError)\n        d = defer.DeferredList(dl, fireOnOneErrback=True)\n        return d")]),
    M("close-stage-not-returned", EN,
      "            d.addErrback(self._remove_shareholder, shareid, \"close\")\n            dl.append(d)\n        return self._gather_responses(dl)",
      "            d.addErrback(self._remove_shareholder, shareid, \"close\")\n            dl.append(d)\n        self._gather_responses(dl)", "C06.6"),
    M("errback-before-done", EN,
      "        d.addCallbacks(self.done, self.err)",
      "        d.addErrback(lambda f: self.log(\"push failed\", failure=f))\n        d.addCallbacks(self.done, self.err)", "C06.6"),
    M("close-stage-dropped", EN,
      "        d.addCallback(lambda res: self.close_all_shareholders())\n", "", "C06.6"),
    M("done-on-both", EN,
      "        d.addCallbacks(self.done, self.err)", "        d.addBoth(self.done)", "C06.6"),
    # ---- C06.7 err / done
    M("err-does-not-abort", EN,
      "        for shareid in list(self.landlords):\n            self.landlords[shareid].abort()\n        if f.check",
      "        if f.check", "C06.7"),
    M("err-drops-failure", EN,
      "            return f.value.subFailure\n        return f\n", "            return f.value.subFailure\n", "C06.7"),
    M("placed-is-all-shares", EN,
      "        self._shares_placed = set(self.landlords.keys())", "        self._shares_placed = set(range(self.num_shares))", "C06.11"),
    # ---- C06.8 the proxy hands every remote outcome to its caller
    M("close-pipelined-behind-dropped-write", LY, CLOSE_IF + CLOSE_TAIL,        # seeded C06-A
      "        if self._write_buffer.get_queued_bytes() > 0:\n"
      "            self._actually_write()\n"
      "        return self._rref.callRemote(\"close\")\n", "C06.8"),
    M("close-on-both-outcomes", LY, CLOSE_TAIL,
      "        d.addBoth(lambda _: self._rref.callRemote(\"close\"))\n        return d\n", ["C06.8", "C06.9"]),
    M("final-write-failure-only-logged", LY, CLOSE_GUARD,
      CLOSE_GUARD + "\n            d.addErrback(log.err, \"final write of an immutable share failed\")", "C06.8"),
    M("batched-write-fired-and-forgotten", LY, QW_TAIL,
      "            self._actually_write()\n        return defer.succeed(False)\n", "C06.8"),
    M("crypttext-hashes-not-awaited", LY, CT_TAIL,
      "        d.addCallback(lambda _: self._really_put_crypttext_hashes(hashes))\n        return defer.succeed(True)\n",
      "C06.8"),
    M("close-through-plain-deferredlist", LY, CLOSE_TAIL,
      "        d.addCallback(lambda _: self._rref.callRemote(\"close\"))\n        return defer.DeferredList([d])\n",
      "C06.8"),
    M("put-block-returns-fresh-success", LY,
      "                         len(data), self._block_size)\n        return self._queue_write(offset, data)",
      "                         len(data), self._block_size)\n        self._queue_write(offset, data)\n"
      "        return defer.succeed(None)", "C06.8"),
    M("benign-close-chained-return", LY, CLOSE_TAIL,
      "        return d.addCallback(lambda _: self._rref.callRemote(\"close\"))\n", None),
    M("benign-close-named-callback", LY, CLOSE_TAIL,
      "        def _send_close(_ign):\n            return self._rref.callRemote(\"close\")\n"
      "        d.addCallback(_send_close)\n        return d\n", None),
    M("benign-close-local-renamed", LY, CLOSE_IF + CLOSE_TAIL,
      "        if self._write_buffer.get_queued_bytes() > 0:\n"
      "            flushed = self._actually_write()\n"
      "        else:\n"
      "            flushed = defer.succeed(True)\n"
      "        flushed.addCallback(lambda _: self._rref.callRemote(\"close\"))\n"
      "        return flushed\n", None),
    M("benign-write-failure-logged-and-passed-on", LY, CLOSE_GUARD,
      CLOSE_GUARD + "\n            def _note(f):\n                log.msg(\"final write failed\")\n"
      "                return f\n            d.addErrback(_note)", None),
    M("benign-queue-write-hoisted", LY, QW_TAIL,
      "            d = self._actually_write()\n            return d\n        return defer.succeed(False)\n", None),
    # ---- C06.9 remote close only after the final write succeeded
    M("close-pipelined-both-gathered", LY, CLOSE_TAIL,
      "        d2 = self._rref.callRemote(\"close\")\n        return defer.gatherResults([d, d2])\n", "C06.9"),
    M("close-does-not-flush", LY, CLOSE_IF, "        d = defer.succeed(True)\n", "C06.9"),
    M("flush-only-when-batch-full", LY,
      "        if self._write_buffer.get_queued_bytes() > 0:\n            d = self._actually_write()",
      "        if self._write_buffer.get_queued_bytes() >= self._write_buffer._batch_size:\n            d = self._actually_write()",
      "C06.9"),
    M("close-chained-on-unrelated-deferred", LY, CLOSE_TAIL,
      "        d2 = defer.succeed(True)\n        d2.addCallback(lambda _: self._rref.callRemote(\"close\"))\n"
      "        return defer.gatherResults([d, d2])\n", "C06.9"),
    M("close-never-sent", LY, CLOSE_TAIL, "        return d\n", "C06.9"),
    M("benign-guard-not-equal", LY, CLOSE_GUARD,
      "        if self._write_buffer.get_queued_bytes() != 0:\n            d = self._actually_write()", None),
    M("benign-guard-truthiness", LY, CLOSE_GUARD,
      "        if self._write_buffer.get_queued_bytes():\n            d = self._actually_write()", None),
    M("benign-guard-local-and-inverted", LY, CLOSE_IF,
      "        queued = self._write_buffer.get_queued_bytes()\n"
      "        if queued == 0:\n"
      "            d = defer.succeed(True)\n"
      "        else:\n"
      "            d = self._actually_write()\n", None),
    M("benign-close-as-coroutine", LY, CLOSE_IF + CLOSE_TAIL,
      "        if self._write_buffer.get_queued_bytes() > 0:\n"
      "            yield self._actually_write()\n"
      "        res = yield self._rref.callRemote(\"close\")\n"
      "        return res\n", None,
      edits=[(LY, "    def close(self):", "    @defer.inlineCallbacks\n    def close(self):")]),
    M("coroutine-close-before-flush", LY, CLOSE_IF + CLOSE_TAIL,
      "        res = yield self._rref.callRemote(\"close\")\n"
      "        if self._write_buffer.get_queued_bytes() > 0:\n"
      "            yield self._actually_write()\n"
      "        return res\n", "C06.9",
      edits=[(LY, "    def close(self):", "    @defer.inlineCallbacks\n    def close(self):")]),
    M("benign-flush-as-conditional-expression", LY, CLOSE_IF,
      "        d = self._actually_write() if self._write_buffer.get_queued_bytes() > 0 else defer.succeed(True)\n", None),
    M("header-write-replaced-by-fresh-success", LY, "        return self._queue_write(0, self._offset_data)",
      "        d = self._queue_write(0, self._offset_data)\n        return defer.succeed(d is not None)", "C06.8"),
    # ---- C06.3 (gap review): every requested share number that has a bucket is aborted
    M("abort-some-skips-present-buckets", UP,                      # sweep survivor (cmp-flip)
      "            if sharenum in self.buckets:", "            if sharenum not in self.buckets:", "C06.3"),
    M("abort-some-only-first-bucket", UP,
      "                self.buckets[sharenum].abort()\n                del self.buckets[sharenum]",
      "                self.buckets[sharenum].abort()\n                del self.buckets[sharenum]\n                return",
      "C06.3"),
    M("abort-some-skips-low-sharenums", UP,
      "            if sharenum in self.buckets:", "            if sharenum and sharenum in self.buckets:", "C06.3"),
    M("benign-abort-some-guard-inverted", UP,
      "            if sharenum in self.buckets:\n                self.buckets[sharenum].abort()\n"
      "                del self.buckets[sharenum]",
      "            if sharenum not in self.buckets:\n                continue\n"
      "            self.buckets[sharenum].abort()\n            del self.buckets[sharenum]", None),
    M("benign-abort-some-not-in-form", UP,
      "            if sharenum in self.buckets:", "            if not (sharenum not in self.buckets):", None),
    # ---- C06.10 every write Deferred of a push stage is gathered
    M("close-deferred-not-gathered", EN,                           # sweep survivor (stmt-delete)
      "            d.addErrback(self._remove_shareholder, shareid, \"close\")\n            dl.append(d)\n",
      "            d.addErrback(self._remove_shareholder, shareid, \"close\")\n", "C06.10"),
    M("header-deferred-not-gathered", EN,                          # sweep survivor (stmt-delete)
      "            d.addErrback(self._remove_shareholder, shareid, \"start\")\n            dl.append(d)\n",
      "            d.addErrback(self._remove_shareholder, shareid, \"start\")\n", "C06.10"),
    M("block-deferred-not-gathered", EN,                           # sweep survivor (stmt-delete)
      "            d = self.send_block(shareid, segnum, block, lognum)\n            dl.append(d)\n",
      "            d = self.send_block(shareid, segnum, block, lognum)\n", "C06.10"),
    M("uri-extension-fired-and-forgotten", EN,
      "            dl.append(self.send_uri_extension(shareid, uri_extension))",
      "            self.send_uri_extension(shareid, uri_extension)", "C06.10"),
    M("close-only-gathered-for-even-shares", EN,
      "            d.addErrback(self._remove_shareholder, shareid, \"close\")\n            dl.append(d)\n",
      "            d.addErrback(self._remove_shareholder, shareid, \"close\")\n"
      "            if shareid % 2 == 0:\n                dl.append(d)\n", "C06.10"),
    M("responses-list-reset-before-gather", EN,
      "            d.addErrback(self._remove_shareholder, shareid, \"close\")\n            dl.append(d)\n"
      "        return self._gather_responses(dl)",
      "            d.addErrback(self._remove_shareholder, shareid, \"close\")\n            dl.append(d)\n"
      "        dl = dl[:0]\n        return self._gather_responses(dl)", "C06.10"),
    M("block-hash-trees-appended-to-other-list", EN,
      "            dl.append(self.send_one_block_hash_tree(shareid, hashes))",
      "            sent = []\n            sent.append(self.send_one_block_hash_tree(shareid, hashes))", "C06.10"),
    M("benign-append-before-errback", EN,
      "            d.addErrback(self._remove_shareholder, shareid, \"close\")\n            dl.append(d)\n",
      "            dl.append(d)\n            d.addErrback(self._remove_shareholder, shareid, \"close\")\n", None),
    M("benign-stage-list-comprehension", EN,
      "        dl = []\n        for shareid in list(self.landlords):\n"
      "            dl.append(self.send_uri_extension(shareid, uri_extension))\n",
      "        dl = [self.send_uri_extension(shareid, uri_extension) for shareid in list(self.landlords)]\n", None),
    M("benign-stage-list-renamed", EN,
      "        dl = []\n        for shareid in list(self.landlords):\n"
      "            dl.append(self.send_crypttext_hash_tree(shareid, all_hashes))\n"
      "        return self._gather_responses(dl)",
      "        responses = []\n        for shareid in list(self.landlords):\n"
      "            responses.append(self.send_crypttext_hash_tree(shareid, all_hashes))\n"
      "        return self._gather_responses(responses)", None),
    M("benign-close-list-augmented", EN,
      "            d.addErrback(self._remove_shareholder, shareid, \"close\")\n            dl.append(d)\n",
      "            d.addErrback(self._remove_shareholder, shareid, \"close\")\n            dl += [d]\n", None),
    M("benign-block-list-extended", EN,
      "            d = self.send_block(shareid, segnum, block, lognum)\n            dl.append(d)\n",
      "            d = self.send_block(shareid, segnum, block, lognum)\n            dl.extend([d])\n", None),
    M("benign-gather-inline-list", EN,
      "        dl = []\n        for shareid in list(self.landlords):\n"
      "            dl.append(self.send_uri_extension(shareid, uri_extension))\n"
      "        return self._gather_responses(dl)",
      "        return self._gather_responses([self.send_uri_extension(shareid, uri_extension)\n"
      "                                       for shareid in list(self.landlords)])", None),
    M("benign-header-append-chained", EN,
      "            d = self.landlords[shareid].put_header()\n"
      "            d.addErrback(self._remove_shareholder, shareid, \"start\")\n            dl.append(d)\n",
      "            dl.append(self.landlords[shareid].put_header().addErrback(self._remove_shareholder, shareid, \"start\"))\n",
      None),
    # ---- C06.11 the reported placed set is the surviving landlords at completion
    M("placed-snapshot-before-close-answers", EN, DONE_STORE, "",                      # seeded C06-C
      "C06.11", edits=[(EN, CLOSE_LOOP,
                        "        self._shares_placed = set(self.landlords.keys())\n        dl = []\n"
                        "        for shareid in self._shares_placed:\n"
                        "            d = self.landlords[shareid].close()\n")]),
    M("placed-copied-from-close-stage-snapshot", EN, DONE_STORE,
      "        self._shares_placed = set(self._closing)\n", "C06.11",
      edits=[(EN, CLOSE_LOOP, "        self._closing = list(self.landlords)\n" + CLOSE_LOOP)]),
    M("placed-merges-shares-asked-to-close", EN, DONE_STORE,
      "        self._shares_placed = set(self.landlords.keys()) | self._closing\n", "C06.11",
      edits=[(EN, CLOSE_LOOP, "        self._closing = set(self.landlords)\n" + CLOSE_LOOP)]),
    M("placed-helper-also-run-by-close-stage", EN, DONE_STORE,
      "        self._note_placed()\n", "C06.11",
      edits=[(EN, CLOSE_LOOP, "        self._note_placed()\n" + CLOSE_LOOP),
             (EN, "    def get_shares_placed(self):",
              "    def _note_placed(self):\n        self._shares_placed = set(self.landlords.keys())\n\n"
              "    def get_shares_placed(self):")]),
    M("placed-getter-returns-all-shares", EN, "        return self._shares_placed",
      "        return set(range(self.num_shares))", "C06.11"),
    M("results-name-every-allocated-share", UP, "        for shnum in e.get_shares_placed():\n",
      "        for shnum in self._server_trackers:\n", "C06.11"),
    M("results-add-removed-trackers-afterwards", UP, RES_LOOP,
      RES_LOOP + "        for shnum, tracker in self._server_trackers.items():\n"
      "            servermap.add(tracker.get_server(), shnum)\n", "C06.11"),
    M("results-name-server-of-another-share", UP,
      "            server = self._server_trackers[shnum].get_server()\n            sharemap.add(shnum, server)\n",
      "            server = self._server_trackers[min(self._server_trackers)].get_server()\n"
      "            sharemap.add(shnum, server)\n", "C06.11"),
    M("results-built-before-encoder-awaited", UP, ENC_AWAIT,
      "        d = self._encoder.start()\n        results = self._encrypted_done(None)\n"
      "        yield d\n", "C06.11"),
    M("benign-placed-via-completion-helper", EN, DONE_STORE,
      "        self._note_placed()\n", None,
      edits=[(EN, "    def get_shares_placed(self):",
              "    def _note_placed(self):\n        self._shares_placed = set(self.landlords.keys())\n\n"
              "    def get_shares_placed(self):")]),
    M("benign-placed-set-comprehension", EN, DONE_STORE,
      "        survivors = self.landlords\n        self._shares_placed = {shnum for shnum in survivors}\n", None),
    M("benign-placed-initialised-empty", EN, "        self._aborted = False\n",
      "        self._aborted = False\n        self._shares_placed = set()\n", None),
    M("benign-placed-live-view-bound-early", EN, CLOSE_LOOP,
      "        self._shares_placed = self.landlords.keys()\n" + CLOSE_LOOP, None),
    M("benign-placed-computed-on-demand", EN, DONE_STORE, "", None,
      edits=[(EN, "        return self._shares_placed", "        return set(self.landlords)")]),
    M("benign-results-loop-sorted-tracker-local", UP, RES_LOOP,
      "        for shnum in sorted(self._encoder.get_shares_placed()):\n"
      "            tracker = self._server_trackers[shnum]\n"
      "            server = tracker.get_server()\n"
      "            sharemap.add(shnum, server)\n"
      "            servermap.add(server, shnum)\n", None),
    M("benign-results-as-success-callback", UP, ENC_AWAIT,
      "        d = self._encoder.start()\n        d.addCallback(self._encrypted_done)\n"
      "        results = yield d\n", None),
    M("results-sharemap-keyed-by-server", UP, "            sharemap.add(shnum, server)\n",           # sweep survivor (arg-swap)
      "            sharemap.add(server, shnum)\n", "C06.11"),
    M("benign-results-setdefault-form", UP,
      "            sharemap.add(shnum, server)\n            servermap.add(server, shnum)\n",
      "            sharemap.setdefault(shnum, set()).add(server)\n"
      "            servermap.setdefault(server, set()).add(shnum)\n", None),
    M("vanish-encrypted-done", UP, "    def _encrypted_done(self, verifycap):", "    def _make_results(self, verifycap):",
      "ANALYSIS-ERROR", edits=[(UP, "        results = self._encrypted_done(verifycap)",
                                "        results = self._make_results(verifycap)")]),
    M("vanish-proxy-close", LY, "    def close(self):", "    def finish(self):", "ANALYSIS-ERROR"),
    # ---- C06.12 one writer per share: duplicates between trackers are detected before the hand-over
    M("dup-assert-compares-two-collapsed-counts", UP, SH_ASSERT,
      "        assert len(buckets) == len(self._server_trackers), \\\n            \"%s (%s) != %s\" % (\n"
      "                len(buckets),\n                buckets,\n                len(self._server_trackers),\n                )\n", "C06.12"),
    M("dup-assert-removed", UP, SH_ASSERT, "", "C06.12"),
    M("dup-only-logged", UP, SH_ASSERT,
      "        if len(buckets) != sum([len(tracker.buckets) for tracker in upload_trackers]):\n"
      "            self.log(\"share allocated on two servers: %s\" % (buckets,), level=log.WEIRD)\n", "C06.12"),
    M("dup-assert-wrong-direction", UP, SH_ASSERT,
      "        assert len(buckets) <= sum([len(tracker.buckets) for tracker in upload_trackers]), buckets\n", "C06.12"),
    M("servermap-counts-tracker-for-all-merged-shares", UP,
      "            for shnum in tracker.buckets:\n                self._server_trackers[shnum] = tracker\n"
      "                servermap.setdefault(shnum, set()).add(tracker.get_serverid())\n",
      "            for shnum in tracker.buckets:\n                self._server_trackers[shnum] = tracker\n"
      "            for shnum in buckets:\n"
      "                servermap.setdefault(shnum, set()).add(tracker.get_serverid())\n", "C06.12"),
    M("dup-per-share-only-logged", UP, SH_LOOP + SH_ASSERT,
      "        for tracker in upload_trackers:\n"
      "            for shnum, bucket in tracker.buckets.items():\n"
      "                if shnum in buckets:\n"
      "                    self.log(\"share %d allocated twice\" % shnum, level=log.WEIRD)\n"
      "                buckets[shnum] = bucket\n"
      "                self._server_trackers[shnum] = tracker\n"
      "                servermap.setdefault(shnum, set()).add(tracker.get_serverid())\n", "C06.12"),
    M("benign-dup-total-hoisted", UP, SH_ASSERT,
      "        total = sum(len(t.buckets) for t in upload_trackers)\n        held = len(buckets)\n"
      "        assert total == held, (buckets, [(t.buckets, t.get_serverid()) for t in upload_trackers])\n", None),
    M("benign-dup-explicit-raise", UP, SH_ASSERT,
      "        if len(buckets) != sum([len(tracker.buckets) for tracker in upload_trackers]):\n"
      "            raise AssertionError(\"share allocated on two servers: %s\" % (buckets,))\n", None),
    M("benign-dup-counter-in-loop", UP, SH_ASSERT + "        encoder.set_shareholders(buckets, servermap)\n",
      "        assert len(self._server_trackers) >= allocated, (buckets, allocated)\n"
      "        encoder.set_shareholders(buckets, servermap)\n", None,
      edits=[(UP, "        buckets = {}\n        servermap = already_serverids.copy()\n        for tracker in upload_trackers:\n"
              "            buckets.update(tracker.buckets)\n",
              "        buckets = {}\n        allocated = 0\n        servermap = already_serverids.copy()\n"
              "        for tracker in upload_trackers:\n            allocated += len(tracker.buckets)\n"
              "            buckets.update(tracker.buckets)\n")]),
    M("benign-dup-checked-per-share", UP, SH_LOOP + SH_ASSERT,
      "        for tracker in upload_trackers:\n"
      "            for shnum, bucket in tracker.buckets.items():\n"
      "                assert shnum not in buckets, (shnum, tracker.get_serverid(), buckets)\n"
      "                buckets[shnum] = bucket\n"
      "                self._server_trackers[shnum] = tracker\n"
      "                servermap.setdefault(shnum, set()).add(tracker.get_serverid())\n", None),
    M("benign-dup-share-list", UP, SH_ASSERT,
      "        assert len(all_shnums) == len(buckets), (all_shnums, buckets)\n", None,
      edits=[(UP, "        buckets = {}\n        servermap = already_serverids.copy()\n        for tracker in upload_trackers:\n"
              "            buckets.update(tracker.buckets)\n",
              "        buckets = {}\n        all_shnums = []\n        servermap = already_serverids.copy()\n"
              "        for tracker in upload_trackers:\n            all_shnums.extend(tracker.buckets)\n"
              "            buckets.update(tracker.buckets)\n")]),
    M("vanish-chk-set-shareholders-handover", UP, "        encoder.set_shareholders(buckets, servermap)\n",
      "        encoder.set_landlords(buckets, servermap)\n", "ANALYSIS-ERROR"),
    # ---- vanished anchor
    M("vanish-remove-shareholder", EN,
      "    def _remove_shareholder(self, why, shareid, where):", "    def _drop_shareholder(self, why, shareid, where):",
      "ANALYSIS-ERROR"),
]


# ---- C06-I shape (faithful version, texts imported from the C01 self-test): the per-shareholder sends go through
# _call_shareholder / _call_all_shareholders, the bucket-writer method is chosen by name (getattr), the stages return
# the helper's gathered Deferred.  Silent when faithful; the same obligations are still enforced inside the helpers.
try:
    from .C01 import C06I_FAITHFUL as _C06I, _multi as _c06i_multi, SEND_BLOCK_VIA_HELPER as _C06I_SB, \
        HELPER_GETATTR as _C06I_GA
except Exception:       # pragma: no cover - the C01 self-test is not importable: skip these variants
    _C06I = None

if _C06I:
    _EB = "        d.addErrback(self._remove_shareholder, shareid, where)\n        return d\n"
    _GATHER = ("              for shareid in list(self.landlords)]\n        return self._gather_responses(dl)\n")
    _CLOSE = '        return self._call_all_shareholders("close", "close")\n'
    MUTANTS += [
        _c06i_multi("benign-c06i-faithful-refactor-shareholder-call-helpers", EN, _C06I, None),
        _c06i_multi("benign-c06i-shape-method-name-concatenated", EN, _C06I, None,
                    extra=[(EN, _C06I_SB, '                                      "put_" + "block", segment_num, block,\n')]),
        _c06i_multi("benign-c06i-shape-bound-method-handed-to-helper", EN, _C06I, None,
                    extra=[(EN, _C06I_GA, "        d = (methname if callable(methname) else "
                            "getattr(self.landlords[shareid], methname))(*args)\n")]),
        _c06i_multi("c06i-shape-helper-errback-dropped", EN, _C06I, "C06.4",
                    extra=[(EN, _EB, "        return d\n")]),
        _c06i_multi("c06i-shape-helper-errback-told-share-zero", EN, _C06I, "C06.4",
                    extra=[(EN, _EB, "        d.addErrback(self._remove_shareholder, 0, where)\n        return d\n")]),
        _c06i_multi("c06i-shape-helper-returns-plain-deferredlist", EN, _C06I, "C06.6",
                    extra=[(EN, _GATHER, "              for shareid in list(self.landlords)]\n"
                            "        return defer.DeferredList(dl)\n")]),
        _c06i_multi("c06i-shape-stage-drops-the-gathered-deferred", EN, _C06I, "C06.6",
                    extra=[(EN, _CLOSE, '        self._call_all_shareholders("close", "close")\n'
                            "        return defer.succeed(None)\n")]),
        _c06i_multi("c06i-shape-helper-list-emptied-before-gather", EN, _C06I, "C06.10",
                    extra=[(EN, _GATHER, "              for shareid in list(self.landlords)]\n        dl = []\n"
                            "        return self._gather_responses(dl)\n")]),
        _c06i_multi("c06i-shape-close-never-sent", EN, _C06I, "ANALYSIS-ERROR",
                    extra=[(EN, _CLOSE, '        return self._call_all_shareholders("close", "put_header")\n')]),
        _c06i_multi("c06i-shape-method-name-from-an-attribute", EN, _C06I, "ANALYSIS-ERROR",
                    extra=[(EN, _C06I_SB, "                                      self._put_method, segment_num, block,\n")]),
        _c06i_multi("c06i-shape-send-block-drops-the-helper-result", EN, _C06I, "ANALYSIS-ERROR",
                    extra=[(EN, '        return self._call_shareholder(shareid, "segnum=%d" % segment_num,\n',
                            '        self._call_shareholder(shareid, "segnum=%d" % segment_num,\n'),
                           (EN, "                                      on_success=_done)\n",
                            "                                      on_success=_done)\n        return defer.succeed(None)\n")]),
    ]
