from .runner import M

HU = "src/allmydata/immutable/happiness_upload.py"
UP = "src/allmydata/immutable/upload.py"

# Two constructs of the pinned tree are genuine C07 defects (the shared `indexedShares` list of
# _servermap_flow_graph, rule C07.1, and `new_peers.remove(peer)` in share_placement, rule C07.5).  Variants that
# touch those lines exist in two spellings - one anchored to the pinned text, one to the repaired text
# (`indexedShares = []` as first statement of the peer loop; removal block deleted); the spelling that does not
# apply to the current tree is skipped by the runner.

_ROW_LOOP_FIXED = ("    for peer in peers:\n        indexedShares = []\n        if peer in servermap:\n"
                   "            for s in servermap[peer]:\n                if s in share_to_index:\n"
                   "                    indexedShares.append(share_to_index[s])\n"
                   "        graph.insert(peer_to_index[peer], indexedShares)\n")

_CMG_UPD = ("            flow_function[u][v] += delta\n            flow_function[v][u] -= delta\n"
            "            residual_graph, residual_function = residual_network(graph,flow_function)\n")
_CMG_LOOP = ("    while augmenting_path_for(residual_graph):\n        path = augmenting_path_for(residual_graph)\n"
             "        # Delta is the largest amount that we can increase flow across\n"
             "        # all of the edges in path. Because of the way that the residual\n"
             "        # function is constructed, f[u][v] for a particular edge (u, v)\n"
             "        # is the amount of unused capacity on that edge. Taking the\n"
             "        # minimum of a list of those values for each edge in the\n"
             "        # augmenting path gives us our delta.\n"
             "        delta = min(residual_function[u][v] for (u, v) in path)\n"
             "        for (u, v) in path:\n" + _CMG_UPD)

_CMG_INIT = ("    flow_function = [[0 for sh in range(dim)] for s in range(dim)]\n"
             "    residual_graph, residual_function = residual_network(graph, flow_function)\n\n    while")

_APWS = ("        try:\n            self.existing_shares[peerid].add(shnum)\n        except KeyError:\n"
         "            self.existing_shares[peerid] = set([shnum])\n")

MUTANTS = [
    # ---- C07.1 R9 loop-escape alias
    M("r9-row-list-hoisted", HU,
      "    for peer in peers:\n        indexedShares = []\n", "    indexedShares = []\n    for peer in peers:\n", "C07.1",
      note="re-introduces the defect on the repaired tree"),
    M("r9-row-copied-but-never-reset", HU, _ROW_LOOP_FIXED,
      "    indexedShares = []\n    for peer in peers:\n        if peer in servermap:\n"
      "            for s in servermap[peer]:\n                if s in share_to_index:\n"
      "                    indexedShares.append(share_to_index[s])\n"
      "        graph.insert(peer_to_index[peer], list(indexedShares))\n", "C07.1"),
    M("r9-homeless-holder-hoisted", HU,
      "                    mappings[share] = set([peerid])\n                    break\n",
      "                    holder.add(peerid)\n                    mappings[share] = holder\n                    break\n",
      "C07.1", edits=[(HU, "    to_distribute = set()\n", "    to_distribute = set()\n    holder = set()\n")]),
    M("r9-benign-reset-at-end-of-iteration", HU, _ROW_LOOP_FIXED,
      "    indexedShares = []\n    for peer in peers:\n        if peer in servermap:\n"
      "            for s in servermap[peer]:\n                if s in share_to_index:\n"
      "                    indexedShares.append(share_to_index[s])\n"
      "        graph.insert(peer_to_index[peer], indexedShares)\n        indexedShares = []\n", None),
    M("r9-benign-row-comprehension", HU, _ROW_LOOP_FIXED,
      "    for peer in peers:\n"
      "        row = [share_to_index[s] for s in servermap.get(peer, ()) if s in share_to_index]\n"
      "        graph.insert(peer_to_index[peer], row)\n", None),
    M("r9-benign-renamed-row", HU, _ROW_LOOP_FIXED,
      "    for peer in peers:\n        held = list()\n        if peer in servermap:\n"
      "            for s in servermap[peer]:\n                if s in share_to_index:\n"
      "                    held.append(share_to_index[s])\n"
      "        graph.insert(peer_to_index[peer], held)\n", None),

    # ---- C07.2 index space
    M("share-base-off-by-one", HU,
      "    share_to_index, index_to_share = _reindex(shares, len(peers) + 1)\n    graph = []",
      "    share_to_index, index_to_share = _reindex(shares, len(peers))\n    graph = []", "C07.2"),
    M("calc-peer-base-zero", HU,
      "    peer_to_index, index_to_peer = _reindex(peers, 1)\n    share_to_index, index_to_share = _reindex(shares, len(peers) + 1)\n    shareIndices",
      "    peer_to_index, index_to_peer = _reindex(peers, 0)\n    share_to_index, index_to_share = _reindex(shares, len(peers) + 1)\n    shareIndices",
      "C07.2"),
    M("sink-not-last-row", HU, "    sink_num = len(peers) + len(shares) + 1\n", "    sink_num = len(peers) + len(shares)\n", "C07.2"),
    M("flow-network-sink", HU, "    sink_num = len(peerIndices + shareIndices) + 1\n", "    sink_num = len(shareIndices) + 1\n", "C07.2"),
    M("row-guard-dropped", HU,
      "                if s in share_to_index:\n                    indexedShares.append(share_to_index[s])\n",
      "                indexedShares.append(share_to_index[s])\n", "C07.2"),
    M("row-from-all-shares", HU, "            for s in servermap[peer]:\n", "            for s in shares:\n", "C07.2"),
    M("servermap-branch-swapped", HU, "    if servermap:\n        graph = _servermap_flow_graph", "    if not servermap:\n        graph = _servermap_flow_graph", "C07.2"),
    M("readback-wrong-sink", HU, "        if peer == [dim - 1]:\n", "        if peer == [dim]:\n", "C07.2"),
    M("convert-keeps-index", HU, "set([index_to_peer[peer]]))", "set([peer]))", "C07.2"),
    M("reindex-never-advances", HU, "        index_to_item.setdefault(base, item)\n        base += 1\n",
      "        index_to_item.setdefault(base, item)\n", "C07.2"),
    M("share-rows-before-peer-rows", HU,
      "    for share in shares:\n        graph.insert(share_to_index[share], [sink_num])\n    graph.append([])\n",
      "    graph.append([])\n",
      "C07.2", edits=[(HU, "    #print(\"share_to_index %s\" % share_to_index)\n",
                       "    for share in shares:\n        graph.insert(share_to_index[share], [sink_num])\n")]),
    M("idx-benign-sink-reordered", HU, "    sink_num = len(peers) + len(shares) + 1\n", "    sink_num = 1 + len(shares) + len(peers)\n", None),
    M("idx-benign-is-none", HU, "        if peer == None:\n            converted_mappings", "        if peer is None:\n            converted_mappings", None),
    M("idx-benign-setitem", HU, "            new_mappings.setdefault(shareIndex, peer[0])\n", "            new_mappings[shareIndex] = peer[0]\n", None),

    # ---- C07.3 read-only exclusion
    M("homeless-filter-dropped", HU,
      "                for k, v in list(peers_to_shares.items())\n                if k not in readonly_peers\n",
      "                for k, v in list(peers_to_shares.items())\n", "C07.3"),
    M("round-robin-over-all", HU, "    peer_iter = round_robin(peers - readonly_peers)\n", "    peer_iter = round_robin(peers)\n", "C07.3"),
    M("readonly-map-takes-everyone", HU, "        if peer in readonly_peers:\n            readonly_map.setdefault",
      "        if peer in peers_to_shares:\n            readonly_map.setdefault", "C07.3"),
    M("phase1-over-writable", HU, "_calculate_mappings(readonly_peers, readonly_shares, readonly_map)",
      "_calculate_mappings(peers, readonly_shares, readonly_map)", "C07.3"),
    M("phase2-includes-readonly", HU, "    new_peers = set(peers) - used_peers\n",
      "    new_peers = (set(peers) | readonly_peers) - used_peers\n", "C07.3"),
    M("mark-readonly-keeps-writable", UP,
      "        self.readonly_peers.add(peerid)\n        self.peers.remove(peerid)\n", "        self.readonly_peers.add(peerid)\n", "C07.3"),
    M("placement-args-swapped", UP, "share_placement(self.peers, self.readonly_peers, shares, self.existing_shares)",
      "share_placement(self.readonly_peers, self.peers, shares, self.existing_shares)", "C07.3"),
    M("renew-without-holding", HU,
      "                if share in peers_to_shares[peerid]:\n                    mappings[share] = set([peerid])\n                    break\n",
      "                mappings[share] = set([peerid])\n                break\n", "C07.3"),
    M("ro-benign-filter-form", HU, "                if k not in readonly_peers\n", "                if not (k in readonly_peers)\n", None),
    M("ro-benign-hoisted-attr", UP, "        self.readonly_peers.add(peerid)\n        self.peers.remove(peerid)\n",
      "        ro = self.readonly_peers\n        ro.add(peerid)\n        self.peers.remove(peerid)\n", None),

    # ---- C07.4 completeness / phase algebra
    M("merge-order", HU,
      "list(readonly_mappings.items()) + list(existing_mappings.items()) + list(new_mappings.items())",
      "list(readonly_mappings.items()) + list(new_mappings.items()) + list(existing_mappings.items())", "C07.4"),
    M("phase3-forgets-existing", HU, "    new_shares = new_shares - existing_shares - used_shares\n",
      "    new_shares = new_shares - used_shares\n", "C07.4"),
    M("phase2-minus-all-readonly-shares", HU, "    new_shares = shares - used_shares\n", "    new_shares = shares - readonly_shares\n", "C07.4"),
    M("phase3-peers-keep-matched", HU, "    new_peers = new_peers - existing_peers - used_peers\n", "    new_peers = new_peers - used_peers\n", "C07.4"),
    M("phase3-peers-keep-matched-repaired-tree", HU, "    new_peers = set(peers) - existing_peers - used_peers\n",
      "    new_peers = set(peers) - used_peers\n", "C07.4"),
    M("empty-value-kept", HU, "        k: v.pop() if v else next(peer_iter)\n", "        k: v.pop() if v else None\n", "C07.4"),
    M("homeless-test-flipped", HU, "        if mappings[share] is None:\n            homeless_shares.add(share)",
      "        if mappings[share] is not None:\n            homeless_shares.add(share)", "C07.4"),
    M("extract-ids-swapped", HU, "    return (peers, shares)\n", "    return (shares, peers)\n", "C07.4"),
    M("phase2-without-servermap", HU, "_calculate_mappings(new_peers, new_shares, servermap)\n", "_calculate_mappings(new_peers, new_shares, None)\n", "C07.4"),
    M("alg-benign-union-form", HU, "    new_shares = new_shares - existing_shares - used_shares\n",
      "    new_shares = new_shares - (existing_shares | used_shares)\n", None),
    M("alg-benign-dict-splat", HU,
      "dict(list(readonly_mappings.items()) + list(existing_mappings.items()) + list(new_mappings.items()))",
      "{**readonly_mappings, **existing_mappings, **new_mappings}", None),
    M("alg-benign-truthiness", HU, "    if len(homeless_shares) != 0:\n", "    if homeless_shares:\n", None),

    # ---- C07.5 spread: candidate servers only lose matched servers
    M("candidate-server-dropped-again", HU,
      "    new_peers = set(peers) - existing_peers - used_peers\n",
      "    new_peers = new_peers - existing_peers - used_peers\n", "C07.5",
      note="re-introduces the defect repaired by the fix: commit (a writable peer whose shares were matched to read-only peers never gets a new share)"),
    M("candidate-server-discarded", HU,
      "    new_peers = set(peers) - existing_peers - used_peers\n",
      "    new_peers = set(peers) - existing_peers - used_peers\n    new_peers.discard(sorted(new_peers)[0]) if len(new_peers) > 1 else None\n", "C07.5"),

    # ---- C07.6 skew-symmetric update of the placement matching (_compute_maximum_graph)
    M("cmg-mirror-dropped-rebuild-hoisted", HU, _CMG_UPD, "            flow_function[u][v] += delta\n"
      "        residual_graph, residual_function = residual_network(graph, flow_function)\n", "C07.6",
      note="the seeded change C07-A: mirrored update dropped as a 'dead store', rebuild moved after the path"),
    M("cmg-mirror-same-cell", HU, "            flow_function[v][u] -= delta\n", "            flow_function[u][v] -= delta\n", "C07.6"),
    M("cmg-mirror-only-on-network-edges", HU, "            flow_function[v][u] -= delta\n",
      "            if v in graph[u]:\n                flow_function[v][u] -= delta\n", "C07.6",
      note="a path edge that is a reversed (share -> server) edge is exactly the one that needs the mirrored entry"),
    M("cmg-forward-overwritten", HU, "            flow_function[u][v] += delta\n", "            flow_function[u][v] = delta\n            flow_function[u][v] += 0\n", "C07.6"),
    M("cmg-mirror-doubled", HU, "            flow_function[v][u] -= delta\n", "            flow_function[v][u] -= 2 * delta\n", "C07.6"),
    M("cmg-flow-matrix-shared-rows", HU, "    flow_function = [[0 for sh in range(dim)] for s in range(dim)]\n",
      "    flow_function = [[0] * dim] * dim\n", "C07.6"),
    M("cmg-update-loop-over-stale-path", HU, "        for (u, v) in path:\n            flow_function[u][v] += delta\n",
      "        for (u, v) in augmenting_path_for(graph):\n            flow_function[u][v] += delta\n", ["C07.6", "C07.7"]),
    M("upd-benign-assign-form", HU, "            flow_function[v][u] -= delta\n",
      "            flow_function[v][u] = flow_function[v][u] - delta\n", None),
    M("upd-benign-reordered-pair", HU, "            flow_function[u][v] += delta\n            flow_function[v][u] -= delta\n",
      "            flow_function[v][u] -= delta\n            flow_function[u][v] += delta\n", None),
    M("upd-benign-unit-delta", HU, "            flow_function[u][v] += delta\n            flow_function[v][u] -= delta\n",
      "            flow_function[u][v] += 1\n            flow_function[v][u] -= 1\n", None),
    M("upd-benign-row-multiplication", HU, "    flow_function = [[0 for sh in range(dim)] for s in range(dim)]\n",
      "    flow_function = [[0] * len(graph) for s in range(len(graph))]\n", None),
    M("upd-benign-rebuild-after-path", HU, _CMG_UPD, "            flow_function[u][v] += delta\n            flow_function[v][u] -= delta\n"
      "        residual_graph, residual_function = residual_network(graph, flow_function)\n", None,
      note="the other half of C07-A alone: one rebuild per augmenting path keeps the residual fresh wherever it is read"),

    # ---- C07.7 residual freshness of the placement matching
    M("cmg-recompute-dropped", HU,
      "            residual_graph, residual_function = residual_network(graph,flow_function)\n", "", "C07.7"),
    M("cmg-recompute-only-when-more", HU,
      "            residual_graph, residual_function = residual_network(graph,flow_function)\n",
      "            if delta > 1:\n                residual_graph, residual_function = residual_network(graph,flow_function)\n", "C07.7"),
    M("cmg-initial-residual-dropped", HU,
      "    residual_graph, residual_function = residual_network(graph, flow_function)\n\n    while augmenting_path_for(residual_graph):\n",
      "    while augmenting_path_for(residual_graph):\n", "C07.7",
      note="the loop test reads a residual graph that was never computed (UnboundLocalError on every placement)"),
    M("cmg-residual-of-residual", HU,
      "            residual_graph, residual_function = residual_network(graph,flow_function)\n",
      "            residual_graph, residual_function = residual_network(residual_graph,flow_function)\n", "C07.7"),
    M("cmg-path-searched-in-network", HU, "        path = augmenting_path_for(residual_graph)\n", "        path = augmenting_path_for(graph)\n",
      ["C07.7", "C07.6"]),
    M("cmg-one-augmentation-only", HU,
      "    while augmenting_path_for(residual_graph):\n        path = augmenting_path_for(residual_graph)\n",
      "    if augmenting_path_for(residual_graph):\n        path = augmenting_path_for(residual_graph)\n", "C07.7"),
    M("cmg-readback-from-network", HU, "        peer = residual_graph[shareIndex]\n", "        peer = graph[shareIndex]\n", "C07.7",
      note="graph[share] is always [sink]: every share is declared unmatched"),
    M("cmg-shortcut-empty-result", HU, "    if graph == []:\n        return {}\n",
      "    if graph == [] or not augmenting_path_for(graph):\n        return {}\n", "C07.7",
      note="no share gets a key at all (not even None), so the placement loses those share numbers"),
    M("fresh-benign-single-search", HU, _CMG_LOOP,
      "    while True:\n        path = augmenting_path_for(residual_graph)\n        if not path:\n            break\n"
      "        delta = min(residual_function[u][v] for (u, v) in path)\n"
      "        for (u, v) in path:\n            flow_function[u][v] += delta\n            flow_function[v][u] -= delta\n"
      "        residual_graph, residual_function = residual_network(graph, flow_function)\n", None),
    M("fresh-benign-rebuild-at-loop-top", HU,
      "    residual_graph, residual_function = residual_network(graph, flow_function)\n\n" + _CMG_LOOP,
      "    while True:\n        residual_graph, residual_function = residual_network(graph, flow_function)\n"
      "        path = augmenting_path_for(residual_graph)\n        if not path:\n            break\n"
      "        delta = min(residual_function[u][v] for (u, v) in path)\n"
      "        for (u, v) in path:\n            flow_function[u][v] += delta\n            flow_function[v][u] -= delta\n", None),
    M("fresh-benign-empty-test-form", HU, "    if graph == []:\n        return {}\n", "    if not graph or not shareIndices:\n        return {}\n", None),
    M("fresh-benign-readback-hoisted-sink", HU, "        if peer == [dim - 1]:\n", "        if [len(graph) - 1] == peer:\n", None),
    M("fresh-benign-renamed-residual", HU, _CMG_LOOP + "\n    new_mappings = {}\n    for shareIndex in shareIndices:\n        peer = residual_graph[shareIndex]\n",
      (_CMG_LOOP + "\n    new_mappings = {}\n    for shareIndex in shareIndices:\n        peer = residual_graph[shareIndex]\n").replace(
          "residual_graph", "rgraph").replace("residual_function", "rcap"), None,
      edits=[(HU, "    residual_graph, residual_function = residual_network(graph, flow_function)\n\n    while",
              "    rgraph, rcap = residual_network(graph, flow_function)\n\n    while")]),

    # ---- C07.8 helpers of the placement matching
    M("rn-saturation-test-flipped", HU, "            if f[i][v] == 1:\n", "            if f[i][v] == 0:\n", "C07.8"),
    M("rn-reverse-edge-not-added", HU, "                new_graph[v].append(i)\n                cf[v][i] = 1\n",
      "                cf[v][i] = 1\n", "C07.8", note="a used edge can never be re-routed: greedy instead of maximum matching"),
    M("rn-residual-rows-shared", HU, "    new_graph = [[] for i in range(len(graph))]\n", "    new_graph = [[]] * len(graph)\n", "C07.8"),
    M("apf-path-from-wrong-sink", HU, "        n = len(graph) - 1\n", "        n = len(graph) - 2\n", "C07.8"),
    M("apf-search-from-vertex-one", HU, "    bfs_tree = bfs(graph, 0)\n", "    bfs_tree = bfs(graph, 1)\n", "C07.8"),
    M("bfs-not-coloured", HU, "                color[v] = GRAY\n", "", "C07.8"),
    M("bfs-enqueue-unless-black", HU, "            if color[v] == WHITE:\n", "            if color[v] != BLACK:\n", "C07.8"),
    M("bfs-no-predecessor", HU, "                predecessor[v] = n\n", "", "C07.8"),
    M("helper-benign-flipped-compare", HU, "            if f[i][v] == 1:\n", "            if 1 == f[i][v]:\n", None),
    M("helper-benign-depth-first", HU, "        n = queue.pop(0)\n", "        n = queue.pop()\n", None,
      note="any augmenting path leads to a maximum matching"),
    M("helper-benign-white-compare", HU, "            if color[v] == WHITE:\n", "            if WHITE == color[v]:\n", None),
    M("vanish-residual-network", HU, "def residual_network(graph, f):", "def residual_networkX(graph, f):", "ANALYSIS-ERROR",
      edits=[(HU, "    residual_graph, residual_function = residual_network(graph, flow_function)\n\n    while",
              "    residual_graph, residual_function = residual_networkX(graph, flow_function)\n\n    while"),
             (HU, "            residual_graph, residual_function = residual_network(graph,flow_function)\n",
              "            residual_graph, residual_function = residual_networkX(graph,flow_function)\n")]),

    # ---- C07.9 early exits (gap review: survivors test-negate share_placement L334, cmp-flip _servermap_flow_graph L257)
    M("exit-placement-guard-negated", HU, "    if not peers:\n        return dict()\n", "    if peers:\n        return dict()\n", "C07.9",
      note="sweep survivor: every call with a writable server returns the empty placement"),
    M("exit-placement-without-existing-shares", HU, "    if not peers:\n        return dict()\n",
      "    if not peers or not peers_to_shares:\n        return dict()\n", "C07.9",
      note="'nothing to preserve' mistaken for 'nothing to place': a fresh upload gets no placement at all"),
    M("exit-flow-graph-guard-flipped", HU, "    if servermap == {}:\n        return []\n", "    if servermap != {}:\n        return []\n", "C07.9",
      note="sweep survivor: phases 1/2 match nothing; shares held by read-only servers are uploaded again to writable ones"),
    M("exit-flow-graph-when-more-shares-than-servers", HU, "    if servermap == {}:\n        return []\n",
      "    if servermap == {} or len(shares) > len(peers):\n        return []\n", "C07.9"),
    M("exit-benign-len-test", HU, "    if not peers:\n        return dict()\n", "    if len(peers) == 0:\n        return {}\n", None),
    M("exit-benign-flow-graph-empty-shares", HU, "    if servermap == {}:\n        return []\n",
      "    if not servermap or not shares:\n        return []\n", None,
      note="without shares the phase has nothing to give a key to"),

    # ---- C07.10 homeless distribution (gap review: survivors in _distribute_homeless_shares)
    M("homeless-stale-peer-after-rename", HU,
      "        peer = pQueue.get()\n        mappings[share] = set([peer[1]])\n        pQueue.put((peer[0]+1, peer[1]))\n",
      "        entry = pQueue.get()\n        mappings[share] = set([peer[1]])\n        pQueue.put((entry[0]+1, entry[1]))\n", "C07.10",
      note="incomplete rename: `peer` is the stale variable of the counting loop (a server id; peer[1] is one of its bytes)"),
    M("homeless-priority-guard-flipped", HU, "                if peer in servermap_peerids:\n                    priority[peer] += 1\n",
      "                if peer not in servermap_peerids:\n                    priority[peer] += 1\n", "C07.10",
      note="sweep survivor: KeyError as soon as a read-only server was matched in phase 1 and a share is homeless"),
    M("homeless-counts-every-server", HU, "                if peer in servermap_peerids:\n                    priority[peer] += 1\n",
      "                priority[peer] = priority.get(peer, 0) + 1\n", "C07.10",
      note="read-only servers matched in phase 1 become candidates for brand-new shares"),
    M("homeless-server-not-put-back", HU, "        mappings[share] = set([peer[1]])\n        pQueue.put((peer[0]+1, peer[1]))\n",
      "        mappings[share] = set([peer[1]])\n", "C07.10",
      note="sweep survivor: share_placement({A}, {}, {0,1,2}, {A: {0}}) blocks forever on the second get()"),
    M("homeless-put-back-only-when-light", HU, "        pQueue.put((peer[0]+1, peer[1]))\n",
      "        if peer[0] < len(to_distribute):\n            pQueue.put((peer[0]+1, peer[1]))\n", "C07.10"),
    M("homeless-empty-guard-flipped", HU, "    if priority == {}:\n        return\n", "    if priority != {}:\n        return\n", "C07.10",
      note="sweep survivor: every fresh upload with more shares than servers blocks in get()"),
    M("homeless-empty-guard-dropped", HU, "    if priority == {}:\n        return\n", "", "C07.10"),
    M("homeless-queue-never-filled", HU, "    for peerid in priority:\n        pQueue.put((priority[peerid], peerid))\n", "", "C07.10",
      note="sweep survivor"),
    M("homeless-priority-key-value-swapped", HU, "        priority.setdefault(peerid, 0)\n", "        priority.setdefault(0, peerid)\n", "C07.10",
      note="sweep survivor: the queue then hands out the 'server' 0"),
    M("homeless-queue-of-all-mapped-servers", HU, "    for peerid in priority:\n        pQueue.put((priority[peerid], peerid))\n",
      "    for peerid in _extract_ids(mappings)[0]:\n        pQueue.put((priority.get(peerid, 0), peerid))\n", "C07.10"),
    M("homeless-benign-unpacked-item", HU,
      "        peer = pQueue.get()\n        mappings[share] = set([peer[1]])\n        pQueue.put((peer[0]+1, peer[1]))\n",
      "        count, server = pQueue.get()\n        mappings[share] = {server}\n        pQueue.put((count + 1, server))\n", None),
    M("homeless-benign-priority-comprehension", HU,
      "    priority = {}\n    pQueue = PriorityQueue()\n    for peerid in servermap_peerids:\n        priority.setdefault(peerid, 0)\n",
      "    priority = {p: 0 for p in servermap_peerids}\n    pQueue = PriorityQueue()\n", None),
    M("homeless-benign-truthiness-guard", HU, "    if priority == {}:\n        return\n", "    if not priority:\n        return\n", None),
    M("homeless-benign-guard-on-table", HU, "                if peer in servermap_peerids:\n                    priority[peer] += 1\n",
      "                if peer in priority:\n                    priority[peer] = priority[peer] + 1\n", None),
    M("homeless-benign-keys-form", HU, "    servermap_peerids = set([key for key in peers_to_shares])\n",
      "    servermap_peerids = set(peers_to_shares.keys())\n", None),

    # ---- C07.11 the selector acts on the placement
    M("sel-placement-hoisted-out-of-loop", UP,
      "            errors_before = self._query_stats.bad\n            self._share_placements = self.peer_selector.get_share_placements()\n",
      "            errors_before = self._query_stats.bad\n", "C07.11",
      edits=[(UP, "        last_happiness = None\n        effective_happiness = -1\n",
              "        self._share_placements = self.peer_selector.get_share_placements()\n        last_happiness = None\n"
              "        effective_happiness = -1\n")],
      note="'compute once': shares of a server that failed in round 1 are never re-homed"),
    M("sel-returns-happiness", UP, "        return self.happiness_mappings\n", "        return self.happiness\n", "C07.11"),
    M("sel-compares-tracker-object", UP, "            if tracker.get_serverid() == tracker_id:\n", "            if tracker == tracker_id:\n", "C07.11",
      note="never equal: no server is ever asked for a share"),
    M("sel-allocation-skips-held-shares", UP, "            if tracker.get_serverid() == tracker_id:\n                shares_to_ask.add(shnum)\n",
      "            if tracker.get_serverid() == tracker_id and shnum in self.homeless_shares:\n                shares_to_ask.add(shnum)\n", "C07.11",
      note="a share that was rejected elsewhere and re-homed here is asked; one placed here while not 'homeless' is not"),
    M("sel-adds-server-id", UP, "                shares_to_ask.add(shnum)\n                if shnum in self.homeless_shares:\n",
      "                shares_to_ask.add(tracker_id)\n                if shnum in self.homeless_shares:\n", "C07.11"),
    M("sel-query-needs-both-conditions", UP,
      "                if shares_to_ask != set(tracker.buckets.keys()) or tracker in readonly_trackers:\n",
      "                if shares_to_ask != set(tracker.buckets.keys()) and tracker in readonly_trackers:\n", "C07.11",
      note="writable servers are never asked to allocate"),
    M("sel-loop-over-readonly-trackers", UP, "        trackers = set(write_trackers) | set(readonly_trackers)\n",
      "        trackers = set(readonly_trackers)\n", "C07.11"),
    M("sel-size-test-strict", UP, "            if _get_maxsize(server) >= allocated_size\n", "            if _get_maxsize(server) > allocated_size\n", "C07.11",
      note="a server with exactly enough room is classified read-only and loses its place in the spread"),
    M("sel-size-test-flipped", UP, "            if _get_maxsize(server) >= allocated_size\n", "            if _get_maxsize(server) <= allocated_size\n", "C07.11"),
    M("sel-readonly-marks-writable", UP, "        for server in readonly_servers:\n            self.peer_selector.mark_readonly_peer",
      "        for server in writeable_servers:\n            self.peer_selector.mark_readonly_peer", "C07.11"),
    M("sel-benign-hoisted-serverid", UP,
      "        servermap = self._share_placements\n        for shnum, tracker_id in list(servermap.items()):\n            if tracker_id == None:\n"
      "                continue\n            if tracker.get_serverid() == tracker_id:\n",
      "        wanted = tracker.get_serverid()\n        for shnum, tracker_id in self._share_placements.items():\n            if tracker_id is None:\n"
      "                continue\n            if tracker_id == wanted:\n", None),
    M("sel-benign-placement-temporary", UP,
      "            self._share_placements = self.peer_selector.get_share_placements()\n",
      "            fresh = self.peer_selector.get_share_placements()\n            self._share_placements = fresh\n", None),
    M("sel-benign-skip-empty-request", UP,
      "                if shares_to_ask != set(tracker.buckets.keys()) or tracker in readonly_trackers:\n",
      "                if tracker in readonly_trackers or not (shares_to_ask == set(tracker.buckets)):\n", None),
    M("sel-retry-stops-after-errors", UP, "            if errors_before == self._query_stats.bad:\n", "            if errors_before != self._query_stats.bad:\n", "C07.11",
      note="sweep survivor: a round with rejected shares is exactly the one that is not followed by a new placement"),
    M("sel-retry-stops-unless-worse", UP, "            if effective_happiness == last_happiness:\n",
      "            if effective_happiness >= (last_happiness or 0):\n", "C07.11"),
    M("sel-benign-retry-compare-swapped", UP, "            if effective_happiness == last_happiness:\n",
      "            if last_happiness == effective_happiness:\n", None),
    M("sel-benign-retry-stops-when-nothing-asked", UP, "            yield defer.DeferredList(placements)\n",
      "            if not placements:\n                break\n            yield defer.DeferredList(placements)\n", None),

    # ---- C07.12 a server that rejected its allocation leaves the next placement
    # (found by this rule on the pinned tree and repaired there: _make_readonly now tells the peer selector)
    M("demote-without-telling-selector", UP,
      "            serverid = tracker.get_serverid()\n            if serverid in self.peer_selector.peers:\n"
      "                self.peer_selector.mark_readonly_peer(serverid)\n            return None\n",
      "            return None\n", "C07.12",
      note="re-introduces the defect: 4 writable servers, one full, N=3, happy=3 -> the full server is asked twice for the "
           "same share, a free server never, UploadUnhappinessError"),
    M("demote-tells-only-when-already-readonly", UP, "            if serverid in self.peer_selector.peers:\n",
      "            if serverid in self.peer_selector.readonly_peers:\n", "C07.12"),
    M("demote-tells-about-another-server", UP,
      "            if serverid in self.peer_selector.peers:\n                self.peer_selector.mark_readonly_peer(serverid)\n",
      "            if tracker in self.peer_selector.peers:\n                self.peer_selector.mark_readonly_peer(serverid)\n", "C07.12",
      note="a tracker object is never a member of the id set: the selector is never told"),
    M("demote-unbound-server-id", UP,
      "            serverid = tracker.get_serverid()\n            if serverid in self.peer_selector.peers:\n",
      "            if serverid in self.peer_selector.peers:\n", "C07.12",
      note="sweep survivor: NameError inside the callback is swallowed by the DeferredList, the selector is never told"),
    M("demote-callback-not-registered", UP,
      "                    d.addCallback(lambda x, tr: _make_readonly(tr) if not x else x, tracker)\n", "", "ANALYSIS-ERROR",
      note="sweep survivor (dropped callback): nothing demotes a tracker any more - the rule refuses to pass vacuously"),
    M("demote-benign-try-except-form", UP,
      "            if serverid in self.peer_selector.peers:\n                self.peer_selector.mark_readonly_peer(serverid)\n",
      "            try:\n                self.peer_selector.mark_readonly_peer(serverid)\n            except KeyError:\n                pass\n", None,
      note="silent for this rule (the selector is told on every way); it is the weaker repair - a bad peer would be added to "
           "readonly_peers before the remove raises"),
    M("demote-benign-guard-hoisted", UP,
      "            serverid = tracker.get_serverid()\n            if serverid in self.peer_selector.peers:\n"
      "                self.peer_selector.mark_readonly_peer(serverid)\n",
      "            sel = self.peer_selector\n            if tracker.get_serverid() not in sel.peers:\n                return None\n"
      "            sel.mark_readonly_peer(tracker.get_serverid())\n", None),
    M("demote-benign-told-in-buckets-allocated", UP,
      "                self._query_stats.full += 1\n                self._query_stats.bad += 1\n",
      "                self._query_stats.full += 1\n                self._query_stats.bad += 1\n"
      "                try:\n                    self.peer_selector.mark_readonly_peer(tracker.get_serverid())\n"
      "                except KeyError:\n                    pass\n", None,
      note="the other place where the selector can be told; silent on the pinned and on the repaired tree"),

    # ---- C07.13 the placement sees the existing shares of read-only servers
    M("existing-ro-answer-unhandled", UP, "            d.addBoth(self._handle_existing_response, tracker)\n            ds.append(d)\n",
      "            ds.append(d)\n", "C07.13", note="sweep survivor (dropped callback)"),
    M("existing-ro-answer-not-collected", UP, "            d.addBoth(self._handle_existing_response, tracker)\n            ds.append(d)\n",
      "            d.addBoth(self._handle_existing_response, tracker)\n", "C07.13", note="sweep survivor"),
    M("existing-answers-not-awaited", UP, "        yield defer.DeferredList(ds)\n", "        defer.DeferredList(ds)\n", "C07.13",
      note="sweep survivor: the first placement is computed before any server answered"),
    M("existing-recorded-under-share", UP, "                self.peer_selector.add_peer_with_share(serverid, bucket)\n                self.preexisting_shares",
      "                self.peer_selector.add_peer_with_share(bucket, serverid)\n                self.preexisting_shares", "C07.13"),
    M("existing-failure-test-negated", UP, "        serverid = tracker.get_serverid()\n        if isinstance(res, failure.Failure):\n",
      "        serverid = tracker.get_serverid()\n        if not isinstance(res, failure.Failure):\n            buckets = res\n", "C07.13"),
    M("existing-benign-sorted-answer", UP, "            for bucket in buckets:\n                self.peer_selector.add_peer_with_share(serverid, bucket)\n",
      "            for bucket in sorted(res):\n                self.peer_selector.add_peer_with_share(tracker.get_serverid(), bucket)\n", None),
    M("vanish-allocation-for", UP, "    def _allocation_for(self, tracker):", "    def _allocation_forX(self, tracker):", "ANALYSIS-ERROR",
      edits=[(UP, "                shares_to_ask = self._allocation_for(tracker)\n", "                shares_to_ask = self._allocation_forX(tracker)\n")]),

    # ---- C07.14 the selector keeps what it is told
    M("record-setdefault-first-share-only", UP, _APWS,
      "        self.existing_shares.setdefault(peerid, set([shnum]))\n", "C07.14",
      note="seeded C07-F: only the first share reported per server is kept"),
    M("record-into-throwaway-set", UP, _APWS,
      "        self.existing_shares.get(peerid, set()).add(shnum)\n", "C07.14",
      note="a server without an entry gets the share added to a default that is thrown away"),
    M("record-overwrites-earlier-shares", UP, _APWS,
      "        self.existing_shares[peerid] = set([shnum])\n", "C07.14",
      note="only the last share reported per server is kept"),
    M("record-first-share-forgotten", UP, "            self.existing_shares[peerid] = set([shnum])\n",
      "            self.existing_shares[peerid] = set()\n", "C07.14",
      note="the entry is created but the share that caused it is not put in"),
    M("record-guard-swallows-known-server", UP, _APWS,
      "        if peerid not in self.existing_shares:\n            self.existing_shares[peerid] = set([shnum])\n", "C07.14"),
    M("record-relation-shared-by-class", UP, "        self.existing_shares = {}\n        self.peers = set()\n",
      "        self.peers = set()\n", "C07.14",
      edits=[(UP, "class PeerSelector:\n\n", "class PeerSelector:\n    existing_shares = {}\n\n")],
      note="one relation for all uploads: servers are credited with shares of other files"),
    M("record-add-peer-capped", UP, "    def add_peer(self, peerid):\n        self.peers.add(peerid)\n",
      "    def add_peer(self, peerid):\n        if len(self.peers) < self.total_shares:\n            self.peers.add(peerid)\n", "C07.14",
      note="candidates beyond N are dropped before it is known which of them are full / read-only"),
    M("record-bad-readonly-peer-kept", UP, "            self.readonly_peers.remove(peerid)\n            self.bad_peers.add(peerid)\n",
      "            self.bad_peers.add(peerid)\n", "C07.14"),
    M("record-benign-setdefault-add", UP, _APWS,
      "        self.existing_shares.setdefault(peerid, set()).add(shnum)\n", None),
    M("record-benign-membership-test", UP, _APWS,
      "        if peerid not in self.existing_shares:\n            self.existing_shares[peerid] = set()\n"
      "        self.existing_shares[peerid].add(shnum)\n", None),
    M("record-benign-get-or-none", UP, _APWS,
      "        held = self.existing_shares.get(peerid)\n        if held is None:\n            self.existing_shares[peerid] = {shnum}\n"
      "        else:\n            held.add(shnum)\n", None),
    M("record-benign-get-default-store-back", UP, _APWS,
      "        held = self.existing_shares.get(peerid, set())\n        held.add(shnum)\n        self.existing_shares[peerid] = held\n", None),
    M("record-benign-union", UP, _APWS,
      "        self.existing_shares[peerid] = self.existing_shares.get(peerid, set()) | {shnum}\n", None),
    M("record-benign-broader-handler-negated-test", UP, _APWS,
      "        if not peerid in self.existing_shares:\n            self.existing_shares[peerid] = set()\n"
      "        try:\n            self.existing_shares[peerid] |= {shnum}\n        except Exception:\n"
      "            self.existing_shares[peerid] = set((shnum,))\n", None),
    M("record-benign-bad-peer-discard", UP,
      "        if peerid in self.peers:\n            self.peers.remove(peerid)\n            self.bad_peers.add(peerid)\n"
      "        elif peerid in self.readonly_peers:\n            self.readonly_peers.remove(peerid)\n            self.bad_peers.add(peerid)\n",
      "        if peerid in self.peers or peerid in self.readonly_peers:\n            self.bad_peers.add(peerid)\n"
      "        self.peers.discard(peerid)\n        self.readonly_peers.discard(peerid)\n", None),
    M("vanish-add-peer-with-share", UP, "    def add_peer_with_share(self, peerid, shnum):", "    def add_peer_with_shareX(self, peerid, shnum):",
      "ANALYSIS-ERROR"),

    # ---- C07.1 (extended): one object under several keys, changed through the container
    M("alias-shared-slot-through-container", UP,
      "        preexisting = dictutil.DictOfSets()\n        for server, shares in self.existing_shares.items():\n"
      "            for share in shares:\n                preexisting.add(share, server)\n",
      "        preexisting = {}\n        holders = set()\n        for server, shares in self.existing_shares.items():\n"
      "            for share in shares:\n                preexisting.setdefault(share, holders).add(server)\n", "C07.1",
      note="the default set is created once: every share number maps to the same set of servers"),
    M("alias-benign-slot-object-per-key", UP,
      "        preexisting = dictutil.DictOfSets()\n        for server, shares in self.existing_shares.items():\n"
      "            for share in shares:\n                preexisting.add(share, server)\n",
      "        preexisting = {}\n        for server, shares in self.existing_shares.items():\n"
      "            for share in shares:\n                holders = set()\n                preexisting.setdefault(share, holders).add(server)\n", None),

    # ---- C07.15 who may change the flow table
    M("flow-greedy-warm-start-helper", HU, "def _compute_maximum_graph(graph, shareIndices):\n",
      "def _greedy_initial_flow(graph, flow_function):\n    claimed = set()\n    for peer in graph[0]:\n"
      "        for share in graph[peer]:\n            if share not in claimed:\n                claimed.add(share)\n"
      "                flow_function[0][peer] = 1\n                flow_function[peer][0] = -1\n"
      "                flow_function[peer][share] = 1\n                flow_function[share][peer] = -1\n"
      "                break\n\n\ndef _compute_maximum_graph(graph, shareIndices):\n", "C07.15",
      edits=[(HU, _CMG_INIT, _CMG_INIT.replace("\n    residual_graph", "\n    _greedy_initial_flow(graph, flow_function)\n    residual_graph", 1))],
      note="seeded C07-H: first-fit units source->peer->share without the share->sink unit"),
    M("flow-prematch-through-alias-and-keyword", HU, "def _compute_maximum_graph(graph, shareIndices):\n",
      "def _prematch_single_share_peers(graph, f):\n    for peer in graph[0]:\n        if len(graph[peer]) == 1:\n"
      "            row = f[peer]\n            row[graph[peer][0]] = 1\n            f[0][peer] = 1\n\n\n"
      "def _compute_maximum_graph(graph, shareIndices):\n", "C07.15",
      edits=[(HU, _CMG_INIT, _CMG_INIT.replace("\n    residual_graph", "\n    warm = flow_function\n    _prematch_single_share_peers(graph, f=warm)\n    residual_graph", 1))],
      note="another helper, handed the table through an alias and a keyword, writing through a row object"),
    M("flow-rows-preloaded-through-row-objects", HU, _CMG_INIT,
      _CMG_INIT.replace("\n    residual_graph", "\n    taken = set()\n    for peer in graph[0]:\n        row = flow_function[peer]\n"
                        "        for share in graph[peer]:\n            if share not in taken:\n                taken.add(share)\n"
                        "                row[share] = 1\n                flow_function[0].__setitem__(peer, 1)\n"
                        "                break\n    residual_graph", 1), "C07.15",
      note="the same warm start written inline through row objects: no 2-D store for rule 6 to see"),
    M("flow-source-row-replaced", HU, _CMG_INIT,
      _CMG_INIT.replace("\n    residual_graph", "\n    flow_function[0] = [1 if v in graph[0] else 0 for v in range(dim)]\n    residual_graph", 1),
      "C07.15", note="every source edge saturated up front: no augmenting path is ever found"),
    M("flow-residual-network-clamps-the-flow", HU,
      "                new_graph[i].append(v)\n                cf[i][v] = 1\n                cf[v][i] = -1\n",
      "                new_graph[i].append(v)\n                cf[i][v] = 1\n                cf[v][i] = -1\n                f[i][v] = 0\n",
      "C07.15", note="the callee that is given the table on every round writes into it: a cancelled unit (-1 on the way back) is "
      "forgotten, flow out of a vertex no longer equals flow in"),
    M("flow-nested-function-writer", HU, _CMG_INIT,
      _CMG_INIT.replace("\n    residual_graph", "\n    def claim(p, s):\n        flow_function[p][s] = 1\n        flow_function[0][p] = 1\n"
                        "    for p in graph[0]:\n        if graph[p]:\n            claim(p, graph[p][0])\n    residual_graph", 1), "C07.15",
      note="the writer is a nested function that reaches the table through its free variable"),
    M("flow-benign-read-only-checker", HU, "def _compute_maximum_graph(graph, shareIndices):\n",
      "def _assert_skew_symmetric(f):\n    for u in range(len(f)):\n        row = f[u]\n        for v in range(len(row)):\n"
      "            assert row[v] == -f[v][u]\n\n\ndef _compute_maximum_graph(graph, shareIndices):\n", None,
      edits=[(HU, "    new_mappings = {}\n    for shareIndex in shareIndices:\n",
              "    _assert_skew_symmetric(flow_function)\n    new_mappings = {}\n    for shareIndex in shareIndices:\n")],
      note="the table is handed to a function that only reads it"),
    M("flow-benign-rows-read-and-copied", HU, "    new_mappings = {}\n    for shareIndex in shareIndices:\n",
      "    out_of_source = list(flow_function[0])\n    assert all(x in (0, 1) for x in out_of_source)\n"
      "    assert sum(out_of_source) == sum(-row[dim - 1] for row in flow_function)\n"
      "    new_mappings = {}\n    for shareIndex in shareIndices:\n", None),

    # ---- C07.16 no state that outlives the call
    M("state-reindex-cached-by-identity", HU,
      "    item_to_index = {}\n    index_to_item = {}\n    for item in items:\n",
      "    key = (id(items), len(items), base)\n    if key in _reindex_cache:\n        return _reindex_cache[key]\n"
      "    item_to_index = {}\n    index_to_item = {}\n    _reindex_cache[key] = (item_to_index, index_to_item)\n    for item in items:\n", "C07.16",
      edits=[(HU, "def _reindex(items, base):\n", "_reindex_cache = {}\n\ndef _reindex(items, base):\n")],
      note="a set of servers that changed between two placements (same object, same size) keeps its old numbering"),
    M("state-mappings-remembered-on-the-function", HU,
      "    peer_to_index, index_to_peer = _reindex(peers, 1)\n    share_to_index, index_to_share = _reindex(shares, len(peers) + 1)\n    shareIndices",
      "    last_map, last_sizes, last_result = _calculate_mappings.last\n"
      "    if servermap is not None and last_map is servermap and last_sizes == (len(peers), len(shares)):\n        return dict(last_result)\n"
      "    peer_to_index, index_to_peer = _reindex(peers, 1)\n    share_to_index, index_to_share = _reindex(shares, len(peers) + 1)\n    shareIndices",
      "C07.16",
      edits=[(HU, "    max_graph = _compute_maximum_graph(graph, shareIndices)\n    return _convert_mappings(index_to_peer, index_to_share, max_graph)\n",
              "    max_graph = _compute_maximum_graph(graph, shareIndices)\n    result = _convert_mappings(index_to_peer, index_to_share, max_graph)\n"
              "    _calculate_mappings.last = (servermap, (len(peers), len(shares)), result)\n    return result\n\n"
              "_calculate_mappings.last = (None, None, None)\n")],
      note="the seeded C08-H mechanism at the placement: remembered on a function attribute"),
    M("state-placement-remembered-in-a-global", HU,
      "    if not peers:\n        return dict()\n",
      "    global _last_placement\n    if not peers:\n        return dict()\n"
      "    if _last_placement[0] is peers_to_shares and _last_placement[1] == (len(peers), len(readonly_peers), len(shares)):\n"
      "        return dict(_last_placement[2])\n    _last_placement = (peers_to_shares, (len(peers), len(readonly_peers), len(shares)), {})\n",
      "C07.16",
      edits=[(HU, "def share_placement(peers, readonly_peers, shares, peers_to_shares):\n",
              "_last_placement = (None, None, None)\n\ndef share_placement(peers, readonly_peers, shares, peers_to_shares):\n")]),
    M("state-benign-call-counter", HU, "    if not peers:\n        return dict()\n",
      "    global _placements_computed\n    _placements_computed += 1\n    _placement_sizes.append(len(shares))\n"
      "    if not peers:\n        return dict()\n", None,
      edits=[(HU, "def share_placement(peers, readonly_peers, shares, peers_to_shares):\n",
              "_placements_computed = 0\n_placement_sizes = []\n\ndef share_placement(peers, readonly_peers, shares, peers_to_shares):\n")],
      note="statistics that are written but never read by the computation"),
    M("state-benign-lazily-built-constant", HU, "    if not peers:\n        return dict()\n",
      "    global _NO_PLACEMENT\n    if _NO_PLACEMENT is None:\n        _NO_PLACEMENT = {}\n"
      "    if not peers:\n        return dict(_NO_PLACEMENT)\n", None,
      edits=[(HU, "def share_placement(peers, readonly_peers, shares, peers_to_shares):\n",
              "_NO_PLACEMENT = None\n\ndef share_placement(peers, readonly_peers, shares, peers_to_shares):\n")],
      note="a module-level value built on first use from constants only: not state of earlier calls"),

    # ---- vanished anchors
    M("vanish-flow-graph", HU, "def _servermap_flow_graph(peers, shares, servermap):", "def _servermap_flow_graphX(peers, shares, servermap):",
      "ANALYSIS-ERROR", edits=[(HU, "        graph = _servermap_flow_graph(peers, shares, servermap)", "        graph = _servermap_flow_graphX(peers, shares, servermap)")]),
    M("vanish-share-placement", HU, "def share_placement(peers, readonly_peers, shares, peers_to_shares):",
      "def share_placementX(peers, readonly_peers, shares, peers_to_shares):", "ANALYSIS-ERROR"),
]
