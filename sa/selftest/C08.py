from .runner import M

HU = "src/allmydata/immutable/happiness_upload.py"
HZ = "src/allmydata/util/happinessutil.py"

_SOH_LOOP = ("    while augmenting_path_for(residual_graph):\n        path = augmenting_path_for(residual_graph)\n"
             "        # Delta is the largest amount that we can increase flow across\n"
             "        # all of the edges in path. Because of the way that the residual\n"
             "        # function is constructed, f[u][v] for a particular edge (u, v)\n"
             "        # is the amount of unused capacity on that edge. Taking the\n"
             "        # minimum of a list of those values for each edge in the\n"
             "        # augmenting path gives us our delta.\n"
             "        delta = min(residual_function[u][v] for (u, v) in path)\n"
             "        for (u, v) in path:\n            flow_function[u][v] += delta\n            flow_function[v][u] -= delta\n"
             "        residual_graph, residual_function = residual_network(graph,\n"
             "                                                             flow_function)\n")

_SOH_INIT = ("    flow_function = [[0 for sh in range(dim)] for s in range(dim)]\n"
             "    residual_graph, residual_function = residual_network(graph, flow_function)\n    while")

_SBS = "        for peerid in peers:\n            ret.setdefault(peerid, set()).add(shareid)\n"

# ---- the duplicated loop extracted into happiness_upload.maximum_flow(graph) (seeded C08-I is this refactor with a slip)
_U_OK = "            flow_function[u][v] += delta\n            flow_function[v][u] -= delta\n"
_T_OK = ("        residual_graph, residual_function = residual_network(graph, flow_function)\n"
         "        path = augmenting_path_for(residual_graph)\n")
_B_OK = "    flow_function, _ = maximum_flow(graph)\n"
_V_OLD = "    return sum([flow_function[0][v] for v in range(1, num_servers+1)])"
_V_OK = "    return sum(flow_function[0][1:num_servers+1])"


def _helper(mid, expect, update=_U_OK, tail=_T_OK, bind=_B_OK, value=_V_OK, ret="    return (flow_function, residual_graph)\n",
            note=""):
    """Both copies call a new helper that holds the loop (`path = ..; while path: ..; path = ..` form); `update` is the
    body of the per-edge loop (and what follows it), `tail` the end of the while body, `bind` how servers_of_happiness
    takes the result, `value` its return statement (None: unchanged)."""
    edits = [
        (HU, "    \"\"\"\n\n    if graph == []:\n        return {}\n\n    dim = len(graph)\n", "    \"\"\"\n    dim = len(graph)\n"),
        (HU, "    while augmenting_path_for(residual_graph):\n        path = augmenting_path_for(residual_graph)\n",
         "    path = augmenting_path_for(residual_graph)\n    while path:\n"),
        (HU, "        for (u, v) in path:\n" + _U_OK +
         "            residual_graph, residual_function = residual_network(graph,flow_function)\n\n    new_mappings = {}\n",
         "        for (u, v) in path:\n" + update + tail + "\n" + ret + "\n\ndef _compute_maximum_graph(graph, shareIndices):\n"
         "    if graph == []:\n        return {}\n\n    dim = len(graph)\n    _, residual_graph = maximum_flow(graph)\n\n"
         "    new_mappings = {}\n"),
        (HZ, "from allmydata.immutable.happiness_upload import residual_network\n"
         "from allmydata.immutable.happiness_upload import augmenting_path_for\n",
         "from allmydata.immutable.happiness_upload import maximum_flow\n"),
        (HZ, "    dim = len(graph)\n" + _SOH_INIT[:-len("    while")] + _SOH_LOOP, bind),
    ]
    if value is not None:
        edits.append((HZ, _V_OLD, value))
    return M(mid, HU, "def _compute_maximum_graph(graph, shareIndices):\n", "def maximum_flow(graph):\n", expect, edits=edits,
             note=note)


_SOH_WHILE_PATH = (
    "    path = augmenting_path_for(residual_graph)\n    while path:\n"
    "        delta = min(residual_function[u][v] for (u, v) in path)\n"
    "        for (u, v) in path:\n            flow_function[u][v] += delta\n            flow_function[v][u] -= delta\n"
    "        residual_graph, residual_function = residual_network(graph, flow_function)\n")

MUTANTS = [
    # ---- C08.1 freshness of the residual network
    M("soh-recompute-dropped", HZ,
      "        residual_graph, residual_function = residual_network(graph,\n"
      "                                                             flow_function)\n    num_servers", "    num_servers", "C08.1"),
    M("cmg-recompute-dropped", HU,
      "            residual_graph, residual_function = residual_network(graph,flow_function)\n", "", "C08.1"),
    M("cmg-recompute-only-when-more", HU,
      "            residual_graph, residual_function = residual_network(graph,flow_function)\n",
      "            if delta > 1:\n                residual_graph, residual_function = residual_network(graph,flow_function)\n", "C08.1"),
    M("cmg-residual-of-residual", HU,
      "            residual_graph, residual_function = residual_network(graph,flow_function)\n",
      "            residual_graph, residual_function = residual_network(residual_graph,flow_function)\n", "C08.1"),
    M("soh-path-in-network", HZ,
      "        path = augmenting_path_for(residual_graph)\n", "        path = augmenting_path_for(graph)\n", "C08.1"),
    M("soh-result-before-exhaustion", HZ,
      "    while augmenting_path_for(residual_graph):\n        path = augmenting_path_for(residual_graph)\n",
      "    if augmenting_path_for(residual_graph):\n        path = augmenting_path_for(residual_graph)\n", "C08.1"),
    M("fresh-benign-recompute-after-path", HU,
      "            flow_function[v][u] -= delta\n            residual_graph, residual_function = residual_network(graph,flow_function)\n",
      "            flow_function[v][u] -= delta\n        residual_graph, residual_function = residual_network(graph,flow_function)\n", None),
    M("fresh-benign-single-search", HZ, _SOH_LOOP,
      "    while True:\n        path = augmenting_path_for(residual_graph)\n        if not path:\n            break\n"
      "        delta = min(residual_function[u][v] for (u, v) in path)\n"
      "        for (u, v) in path:\n            flow_function[u][v] += delta\n            flow_function[v][u] -= delta\n"
      "        residual_graph, residual_function = residual_network(graph, flow_function)\n", None),

    # ---- C08.2 skew-symmetric update, distinct rows
    M("reverse-update-dropped", HZ, "            flow_function[u][v] += delta\n            flow_function[v][u] -= delta\n",
      "            flow_function[u][v] += delta\n", "C08.2"),
    M("reverse-update-same-cell", HU, "            flow_function[v][u] -= delta\n", "            flow_function[u][v] -= delta\n", "C08.2"),
    M("reverse-update-doubles", HZ, "            flow_function[v][u] -= delta\n", "            flow_function[v][u] -= 2 * delta\n", "C08.2"),
    M("flow-matrix-shared-rows", HU, "    flow_function = [[0 for sh in range(dim)] for s in range(dim)]\n    residual_graph, residual_function = residual_network(graph, flow_function)\n\n",
      "    flow_function = [[0] * dim] * dim\n    residual_graph, residual_function = residual_network(graph, flow_function)\n\n", "C08.2"),
    M("delta-from-flow", HZ, "        delta = min(residual_function[u][v] for (u, v) in path)\n",
      "        delta = min(flow_function[u][v] for (u, v) in path)\n", "C08.2"),
    M("upd-benign-row-multiplication", HU,
      "    flow_function = [[0 for sh in range(dim)] for s in range(dim)]\n    residual_graph, residual_function = residual_network(graph, flow_function)\n\n",
      "    flow_function = [[0] * dim for s in range(dim)]\n    residual_graph, residual_function = residual_network(graph, flow_function)\n\n", None),
    M("upd-benign-unit-delta", HZ, "            flow_function[u][v] += delta\n            flow_function[v][u] -= delta\n",
      "            flow_function[u][v] += 1\n            flow_function[v][u] -= 1\n", None),

    # ---- C08.3 index space
    M("value-range-short", HZ, "for v in range(1, num_servers+1)])", "for v in range(1, num_servers)])", "C08.3"),
    M("value-counts-shares", HZ, "    num_servers = len(servermap)\n    # The value of a flow", "    num_servers = len(sharemap)\n    # The value of a flow", "C08.3"),
    M("servers-numbered-from-zero", HZ, "_reindex(servermap, base_index=1)", "_reindex(servermap, base_index=0)", "C08.3"),
    M("sink-off-by-one", HZ, "    sink_num = num_servers + num_shares + 1\n", "    sink_num = num_servers + num_shares\n", "C08.3"),
    M("share-numbered-twice", HZ,
      "            if shnum not in shares:\n                shares[shnum] = num\n                num += 1\n",
      "            shares[shnum] = num\n            num += 1\n", "C08.3"),
    M("server-counter-not-advanced", HZ,
      "        ret[num] = servermap[k]\n        num += 1\n", "        ret[num] = servermap[k]\n", "C08.3"),
    M("saturation-test-flipped", HU, "            if f[i][v] == 1:\n", "            if f[i][v] == 0:\n", "C08.3"),
    M("path-from-wrong-sink", HU, "        n = len(graph) - 1\n", "        n = len(graph) - 2\n", "C08.3"),
    M("residual-rows-shared", HU, "    new_graph = [[] for i in range(len(graph))]\n", "    new_graph = [[]] * len(graph)\n", "C08.3"),
    M("network-of-sharemap", HZ, "    graph = _flow_network_for(servermap)\n", "    graph = _flow_network_for(sharemap)\n", "C08.3"),
    M("idx-benign-generator-sum", HZ, "    return sum([flow_function[0][v] for v in range(1, num_servers+1)])",
      "    return sum(flow_function[0][v] for v in range(1, 1 + num_servers))", None),
    M("idx-benign-flipped-compare", HU, "            if f[i][v] == 1:\n", "            if 1 == f[i][v]:\n", None),

    M("idx-benign-path-appended", HU, "            path.insert(0, (bfs_tree[n], n))\n", "            path.append((bfs_tree[n], n))\n", None,
      note="the path is used as a set of edges (min over it, one update per edge): its order is irrelevant"),
    M("idx-benign-server-row-copied", HZ, "        graph.append(servermap[k])\n", "        graph.append(list(servermap[k]))\n", None),
    M("idx-benign-no-path-is-none", HU, "        return path\n    return False\n", "        return path\n    return None\n", None,
      note="sweep survivor: the caller only tests the result for truth"),
    M("idx-benign-unread-capacities", HU, "                cf[v][i] = 1\n                cf[i][v] = -1\n", "                cf[v][i] = 1\n", None,
      note="sweep survivor: the capacity of the direction that is NOT a residual edge is never read (delta ranges over path "
           "edges, which are residual edges; the flow network has no antiparallel edges)"),
    M("idx-benign-sink-reached-is-not-none", HU, "    if bfs_tree[len(graph) - 1]:\n", "    if bfs_tree[len(graph) - 1] is not None:\n", None),
    M("sink-reached-test-inverted", HU, "    if bfs_tree[len(graph) - 1]:\n", "    if bfs_tree[len(graph) - 1] is None:\n", "C08.3"),
    M("path-edges-reversed", HU, "            path.insert(0, (bfs_tree[n], n))\n", "            path.insert(0, (n, bfs_tree[n]))\n", "C08.3"),

    # ---- C08.4 bfs discipline
    M("bfs-not-coloured", HU, "                color[v] = GRAY\n", "", "C08.4"),
    M("bfs-enqueue-unless-black", HU, "            if color[v] == WHITE:\n", "            if color[v] != BLACK:\n", "C08.4"),
    M("bfs-no-predecessor", HU, "                predecessor[v] = n\n", "", "C08.4"),
    M("bfs-benign-start-left-white", HU, "    color[s] = GRAY\n", "", None,
      note="the source is re-discovered through a reverse edge, gets a predecessor nobody reads: same result"),
    M("bfs-benign-flipped-compare", HU, "            if color[v] == WHITE:\n", "            if WHITE == color[v]:\n", None),
    M("bfs-benign-depth-first", HU, "        n = queue.pop(0)\n", "        n = queue.pop()\n", None,
      note="any augmenting path gives the same max-flow value"),

    M("bfs-benign-explored-not-blackened", HU, "        color[n] = BLACK\n", "", None,
      note="sweep survivor: GRAY already is non-WHITE, BLACK is never tested"),
    M("bfs-benign-tables-by-multiplication", HU, "    color        = [WHITE for i in range(len(graph))]\n    predecessor  = [None for i in range(len(graph))]\n",
      "    color        = [WHITE] * len(graph)\n    predecessor  = [None] * len(graph)\n", None),
    M("bfs-all-start-gray", HU, "    color        = [WHITE for i in range(len(graph))]\n", "    color        = [GRAY] * len(graph)\n", "C08.4"),
    M("bfs-predecessor-table-short", HU, "    predecessor  = [None for i in range(len(graph))]\n", "    predecessor  = [None] * (len(graph) - 1)\n", "C08.4"),
    M("bfs-benign-no-distance", HU, "                distance[v] = distance[n] + 1\n", "", None,
      note="sweep survivor: distance is never read"),

    # ---- C08.5 faithful inversion of the share map (shares_by_server)
    M("inversion-one-set-per-share-aliased", HZ, _SBS,
      "        just_this_share = set([shareid])\n        for peerid in peers:\n            if peerid in ret:\n"
      "                ret[peerid].add(shareid)\n            else:\n                ret[peerid] = just_this_share\n", "C08.5",
      note="seeded C08-E: every server first seen on a share gets the same set object"),
    M("inversion-default-set-hoisted", HZ, "    ret = {}\n    for shareid, peers in servermap.items():\n        assert isinstance(peers, set)\n" + _SBS,
      "    ret = {}\n    no_shares = set()\n    for shareid, peers in servermap.items():\n        assert isinstance(peers, set)\n"
      "        for peerid in peers:\n            ret.setdefault(peerid, no_shares).add(shareid)\n", "C08.5",
      note="one default set for all servers: every server holds every share"),
    M("inversion-fromkeys-mutable", HZ, "    ret = {}\n    for shareid, peers in servermap.items():\n        assert isinstance(peers, set)\n" + _SBS,
      "    ret = dict.fromkeys(set().union(*servermap.values()), set())\n    for shareid, peers in servermap.items():\n"
      "        assert isinstance(peers, set)\n        for peerid in peers:\n            ret[peerid].add(shareid)\n", "C08.5"),
    M("inversion-later-shares-dropped", HZ, _SBS,
      "        for peerid in peers:\n            ret.setdefault(peerid, set([shareid]))\n", "C08.5",
      note="only the first share of each server is kept: happiness too low"),
    M("inversion-set-overwritten", HZ, _SBS,
      "        for peerid in peers:\n            ret[peerid] = set([shareid])\n", "C08.5"),
    M("inversion-not-inverted", HZ, _SBS,
      "        for peerid in peers:\n            ret.setdefault(shareid, set()).add(peerid)\n", "C08.5"),
    M("inversion-returns-inside-loop", HZ, _SBS + "    return ret\n",
      _SBS + "        return ret\n", "C08.5"),
    M("inversion-benign-local-for-the-set", HZ, _SBS,
      "        for peerid in peers:\n            held = ret.setdefault(peerid, set())\n            held.add(shareid)\n", None),
    M("inversion-benign-branch-with-new-set", HZ, _SBS,
      "        for peerid in peers:\n            if peerid in ret:\n                ret[peerid].add(shareid)\n"
      "            else:\n                ret[peerid] = set([shareid])\n", None,
      note="the seeded refactoring done right: a new set per server"),
    M("inversion-benign-set-made-per-server", HZ, _SBS,
      "        for peerid in peers:\n            mine = set()\n            ret.setdefault(peerid, mine).add(shareid)\n", None),
    M("inversion-benign-over-keys", HZ, "    for shareid, peers in servermap.items():\n        assert isinstance(peers, set)\n" + _SBS,
      "    for shareid in servermap:\n        assert isinstance(servermap[shareid], set)\n"
      "        for peerid in sorted(servermap[shareid]):\n            ret.setdefault(peerid, set()).add(shareid)\n", None),
    M("vanish-shares-by-server-loops", HZ, "    for shareid, peers in servermap.items():\n        assert isinstance(peers, set)\n" + _SBS,
      "    for peerid in set().union(*servermap.values()):\n        ret[peerid] = set(s for s in servermap if peerid in servermap[s])\n",
      "ANALYSIS-ERROR", note="another way to invert the map: not decided, reported as analysis error rather than passed"),

    # ---- C08.6 no state that outlives the call
    M("state-last-inversion-remembered", HZ,
      "    ret = {}\n    for shareid, peers in servermap.items():\n        assert isinstance(peers, set)\n" + _SBS + "    return ret\n",
      "    global _last_inversion\n    last_map, last_len, last_ret = _last_inversion\n"
      "    if servermap is last_map and len(servermap) == last_len:\n        return last_ret\n"
      "    ret = {}\n    for shareid, peers in servermap.items():\n        assert isinstance(peers, set)\n" + _SBS +
      "    _last_inversion = (servermap, len(servermap), ret)\n    return ret\n", "C08.6",
      edits=[(HZ, "def shares_by_server(servermap):\n", "_last_inversion = (None, 0, None)\n\ndef shares_by_server(servermap):\n")],
      note="seeded C08-H: the inversion of the same dict object with the same number of shares is answered from memory"),
    M("state-happiness-cached-by-identity", HZ, "    if sharemap == {}:\n        return 0\n    servermap = shares_by_server(sharemap)\n",
      "    if sharemap == {}:\n        return 0\n    known = _happiness_seen.get(id(sharemap))\n"
      "    if known is not None and known[0] == sorted(sharemap):\n        return known[1]\n"
      "    servermap = shares_by_server(sharemap)\n", "C08.6",
      edits=[(HZ, "def servers_of_happiness(sharemap):\n", "_happiness_seen = {}\n\ndef servers_of_happiness(sharemap):\n"),
             (HZ, "    return sum([flow_function[0][v] for v in range(1, num_servers+1)])\n",
              "    value = sum([flow_function[0][v] for v in range(1, num_servers+1)])\n"
              "    _happiness_seen[id(sharemap)] = (sorted(sharemap), value)\n    return value\n")],
      note="a module-level cache keyed by the identity and the share numbers, not by the servers of each share"),
    M("state-memo-in-mutable-default", HZ,
      "    ret = {}\n    for shareid, peers in servermap.items():\n        assert isinstance(peers, set)\n" + _SBS + "    return ret\n",
      "    hit = _memo.get(id(servermap))\n    if hit is not None and hit[0] == len(servermap):\n        return hit[1]\n"
      "    ret = {}\n    for shareid, peers in servermap.items():\n        assert isinstance(peers, set)\n" + _SBS +
      "    _memo[id(servermap)] = (len(servermap), ret)\n    return ret\n", "C08.6",
      edits=[(HZ, "def shares_by_server(servermap):\n", "def shares_by_server(servermap, _memo={}):\n")]),
    M("state-reindex-remembers-share-numbers", HZ, "    shares  = {} # shareid  -> vertex index\n",
      "    shares = _share_vertices\n", "C08.6",
      edits=[(HZ, "# XXX warning: this is different from happiness_upload's _reindex!\n",
              "_share_vertices = {} # shareid  -> vertex index\n\n# XXX warning: this is different from happiness_upload's _reindex!\n")],
      note="sibling site: the share numbering table survives the call, a second map re-uses vertex numbers of the first"),
    M("state-memo-on-a-class-attribute", HZ,
      "    ret = {}\n    for shareid, peers in servermap.items():\n        assert isinstance(peers, set)\n" + _SBS + "    return ret\n",
      "    if _Memo.last[0] is servermap and _Memo.last[1] == len(servermap):\n        return _Memo.last[2]\n"
      "    ret = {}\n    for shareid, peers in servermap.items():\n        assert isinstance(peers, set)\n" + _SBS +
      "    _Memo.last = (servermap, len(servermap), ret)\n    return ret\n", "C08.6",
      edits=[(HZ, "def shares_by_server(servermap):\n", "class _Memo(object):\n    last = (None, 0, None)\n\ndef shares_by_server(servermap):\n")]),
    M("state-call-counter-decides-the-result", HZ,
      "    ret = {}\n    for shareid, peers in servermap.items():\n        assert isinstance(peers, set)\n",
      "    global _inversions\n    _inversions += 1\n    if _inversions > 100000:\n        return {}\n"
      "    ret = {}\n    for shareid, peers in servermap.items():\n        assert isinstance(peers, set)\n", "C08.6",
      edits=[(HZ, "def shares_by_server(servermap):\n", "_inversions = 0\n\ndef shares_by_server(servermap):\n")]),
    M("state-benign-counter-logged", HZ,
      "    ret = {}\n    for shareid, peers in servermap.items():\n        assert isinstance(peers, set)\n",
      "    global _inversions\n    _inversions += 1\n    if _inversions % 1000 == 0:\n        print('inversions so far', _inversions)\n"
      "    ret = {}\n    for shareid, peers in servermap.items():\n        assert isinstance(peers, set)\n", None,
      edits=[(HZ, "def shares_by_server(servermap):\n", "_inversions = 0\n\ndef shares_by_server(servermap):\n")],
      note="the branch on the counter guards nothing but a message"),
    M("state-benign-call-counter", HZ, "    if sharemap == {}:\n        return 0\n    servermap = shares_by_server(sharemap)\n",
      "    global _happiness_computed\n    _happiness_computed += 1\n    _sizes_seen.append(len(sharemap))\n"
      "    if sharemap == {}:\n        return 0\n    servermap = shares_by_server(sharemap)\n", None,
      edits=[(HZ, "def servers_of_happiness(sharemap):\n", "_happiness_computed = 0\n_sizes_seen = []\n\ndef servers_of_happiness(sharemap):\n")],
      note="statistics that are written but never read by the computation"),
    M("state-benign-lazily-built-constant", HZ,
      "    ret = {}\n    for shareid, peers in servermap.items():\n        assert isinstance(peers, set)\n",
      "    global _SET_TYPES\n    if _SET_TYPES is None:\n        _SET_TYPES = (set, frozenset)\n"
      "    ret = {}\n    for shareid, peers in servermap.items():\n        assert isinstance(peers, _SET_TYPES)\n", None,
      edits=[(HZ, "def shares_by_server(servermap):\n", "_SET_TYPES = None\n\ndef shares_by_server(servermap):\n")],
      note="a module-level value built on first use from constants only: not state of earlier calls"),

    # ---- C08.7 who may change the flow table
    M("flow-greedy-warm-start-helper", HZ, "def servers_of_happiness(sharemap):\n",
      "def _greedy_initial_flow(graph, flow_function):\n    claimed = set()\n    for server in graph[0]:\n"
      "        for share in graph[server]:\n            if share not in claimed:\n                claimed.add(share)\n"
      "                flow_function[0][server] = 1\n                flow_function[server][0] = -1\n"
      "                flow_function[server][share] = 1\n                flow_function[share][server] = -1\n"
      "                break\n\n\ndef servers_of_happiness(sharemap):\n", "C08.7",
      edits=[(HZ, _SOH_INIT, _SOH_INIT.replace("\n    residual_graph", "\n    _greedy_initial_flow(graph, flow_function)\n    residual_graph", 1))],
      note="seeded C07-H at the sibling copy: units source->server->share without share->sink; a second server is routed "
      "through a claimed share and the value counts the share twice"),
    M("flow-source-edges-saturated-through-row", HZ, _SOH_INIT,
      _SOH_INIT.replace("\n    residual_graph", "\n    source_row = flow_function[0]\n    for v in graph[0]:\n        source_row[v] = 1\n    residual_graph", 1),
      "C08.7", note="the value is read from the source row: every server counts although nothing was matched"),
    M("flow-residual-network-clamps-the-flow", HU,
      "                new_graph[i].append(v)\n                cf[i][v] = 1\n                cf[v][i] = -1\n",
      "                new_graph[i].append(v)\n                cf[i][v] = 1\n                cf[v][i] = -1\n                f[i][v] = 0\n",
      "C08.7"),
    M("flow-benign-read-only-checker", HZ, "def servers_of_happiness(sharemap):\n",
      "def _assert_skew_symmetric(f):\n    for u in range(len(f)):\n        row = f[u]\n        for v in range(len(row)):\n"
      "            assert row[v] == -f[v][u]\n\n\ndef servers_of_happiness(sharemap):\n", None,
      edits=[(HZ, "    num_servers = len(servermap)\n    # The value of a flow", "    _assert_skew_symmetric(flow_function)\n    num_servers = len(servermap)\n    # The value of a flow")]),
    M("flow-benign-snapshot-copy", HZ, "    num_servers = len(servermap)\n    # The value of a flow",
      "    snapshot = deepcopy(flow_function)\n    snapshot.append([])\n    out_of_source = list(flow_function[0])\n    out_of_source.append(0)\n"
      "    num_servers = len(servermap)\n    # The value of a flow", None,
      note="copies of the table / of a row may be changed freely"),

    # ---- the loop in a shared helper (C08.1 / .2 / .3 / .7 follow the call from both copies)
    _helper("helper-benign-faithful", None, note="seeded C08-I with the slip repaired: the refactor itself is silent"),
    _helper("helper-benign-result-by-index-old-value", None, bind="    flow_function = maximum_flow(graph)[0]\n", value=None),
    _helper("helper-benign-recompute-per-edge", None,
            update=_U_OK + "            residual_graph, residual_function = residual_network(graph, flow_function)\n",
            tail="        path = augmenting_path_for(residual_graph)\n",
            value="    return sum(flow_function[0])",
            note="the placement copy's indentation of the recomputation; the whole source row sums to the same value"),
    _helper("helper-mirrored-update-dedented", "C08.2",
            update="            flow_function[u][v] += delta\n        flow_function[v][u] -= delta\n",
            note="seeded C08-I: the mirrored update runs for the last edge of the path only"),
    _helper("helper-mirrored-update-in-for-else", "C08.2",
            update="            flow_function[u][v] += delta\n        else:\n            flow_function[v][u] -= delta\n",
            note="same effect through the loop's else clause"),
    _helper("helper-mirrored-update-in-second-loop-over-tail", "C08.2",
            update="            flow_function[u][v] += delta\n        for (u, v) in path[1:]:\n            flow_function[v][u] -= delta\n",
            note="the mirrored updates skip the first edge of the path"),
    _helper("helper-path-not-searched-again", "C08.1",
            tail="        residual_graph, residual_function = residual_network(graph, flow_function)\n",
            note="the remembered path is tested and applied again"),
    _helper("helper-path-searched-before-recompute", "C08.1",
            tail="        path = augmenting_path_for(residual_graph)\n"
                 "        residual_graph, residual_function = residual_network(graph, flow_function)\n"),
    _helper("helper-results-swapped", "C08.3", bind="    _, flow_function = maximum_flow(graph)\n",
            note="the value is summed over the residual graph's source row"),
    _helper("helper-value-slice-short", "C08.3", value="    return sum(flow_function[0][1:num_servers])"),
    _helper("helper-network-of-sharemap", "C08.3", bind="    flow_function, _ = maximum_flow(_flow_network_for(sharemap))\n"),
    _helper("helper-table-changed-by-the-caller", "C08.7",
            bind=_B_OK + "    for v in graph[0]:\n        flow_function[0][v] = 1\n"),
    _helper("helper-vanish-result-used-inline", "ANALYSIS-ERROR", bind="",
            value="    return sum(maximum_flow(graph)[0][0][1:num_servers+1])",
            note="correct, but the binding of the helper's result is not a form the rule follows: reported, not passed"),
    _helper("helper-vanish-returns-a-dict", "ANALYSIS-ERROR", ret="    return {'flow': flow_function, 'residual': residual_graph}\n",
            bind="    flow_function = maximum_flow(graph)['flow']\n"),
    # the same loop shape without a helper
    M("whilepath-benign-in-place", HZ, _SOH_LOOP, _SOH_WHILE_PATH + "        path = augmenting_path_for(residual_graph)\n", None),
    M("whilepath-not-searched-again", HZ, _SOH_LOOP, _SOH_WHILE_PATH, "C08.1"),
    M("mirrored-update-in-for-else", HZ, "            flow_function[u][v] += delta\n            flow_function[v][u] -= delta\n",
      "            flow_function[u][v] += delta\n        else:\n            flow_function[v][u] -= delta\n", "C08.2"),
    M("mirrored-update-dedented", HZ, "            flow_function[u][v] += delta\n            flow_function[v][u] -= delta\n",
      "            flow_function[u][v] += delta\n        flow_function[v][u] -= delta\n", "C08.2"),

    # ---- vanished anchors
    M("vanish-bfs", HU, "def bfs(graph, s):", "def bfsX(graph, s):", "ANALYSIS-ERROR",
      edits=[(HU, "    bfs_tree = bfs(graph, 0)", "    bfs_tree = bfsX(graph, 0)")]),
    M("vanish-soh", HZ, "def servers_of_happiness(sharemap):", "def servers_of_happinessX(sharemap):", "ANALYSIS-ERROR"),
]
