from .runner import M

HU = "src/allmydata/immutable/happiness_upload.py"
HZ = "src/allmydata/util/happinessutil.py"

_SOH_LOOP = ("    while augmenting_path_for(residual_graph):\n        path = augmenting_path_for(residual_graph)\n"
             "        # Delta is the largest amount that we can increase flow across\n"
             "        # all of the edges in path. Because of the way that the residual\n"
             "        # function is constructed, f[u][v] for a particular edge (u, v)\n"
             "        # is the amount of unused capacity on that edge. Taking the\n"
             "        # minimum of a list of those values for each edge in the\n"
             "        # augmenting path gives us our delta.\n"
             "        delta = min(residual_function[u][v] for (u, v) in path)\n"
             "        for (u, v) in path:\n            flow_function[u][v] += delta\n            flow_function[v][u] -= delta\n"
             "        residual_graph, residual_function = residual_network(graph,\n"
             "                                                             flow_function)\n")

_SBS = "        for peerid in peers:\n            ret.setdefault(peerid, set()).add(shareid)\n"

MUTANTS = [
    # ---- C08.1 freshness of the residual network
    M("soh-recompute-dropped", HZ,
      "        residual_graph, residual_function = residual_network(graph,\n"
      "                                                             flow_function)\n    num_servers", "    num_servers", "C08.1"),
    M("cmg-recompute-dropped", HU,
      "            residual_graph, residual_function = residual_network(graph,flow_function)\n", "", "C08.1"),
    M("cmg-recompute-only-when-more", HU,
      "            residual_graph, residual_function = residual_network(graph,flow_function)\n",
      "            if delta > 1:\n                residual_graph, residual_function = residual_network(graph,flow_function)\n", "C08.1"),
    M("cmg-residual-of-residual", HU,
      "            residual_graph, residual_function = residual_network(graph,flow_function)\n",
      "            residual_graph, residual_function = residual_network(residual_graph,flow_function)\n", "C08.1"),
    M("soh-path-in-network", HZ,
      "        path = augmenting_path_for(residual_graph)\n", "        path = augmenting_path_for(graph)\n", "C08.1"),
    M("soh-result-before-exhaustion", HZ,
      "    while augmenting_path_for(residual_graph):\n        path = augmenting_path_for(residual_graph)\n",
      "    if augmenting_path_for(residual_graph):\n        path = augmenting_path_for(residual_graph)\n", "C08.1"),
    M("fresh-benign-recompute-after-path", HU,
      "            flow_function[v][u] -= delta\n            residual_graph, residual_function = residual_network(graph,flow_function)\n",
      "            flow_function[v][u] -= delta\n        residual_graph, residual_function = residual_network(graph,flow_function)\n", None),
    M("fresh-benign-single-search", HZ, _SOH_LOOP,
      "    while True:\n        path = augmenting_path_for(residual_graph)\n        if not path:\n            break\n"
      "        delta = min(residual_function[u][v] for (u, v) in path)\n"
      "        for (u, v) in path:\n            flow_function[u][v] += delta\n            flow_function[v][u] -= delta\n"
      "        residual_graph, residual_function = residual_network(graph, flow_function)\n", None),

    # ---- C08.2 skew-symmetric update, distinct rows
    M("reverse-update-dropped", HZ, "            flow_function[u][v] += delta\n            flow_function[v][u] -= delta\n",
      "            flow_function[u][v] += delta\n", "C08.2"),
    M("reverse-update-same-cell", HU, "            flow_function[v][u] -= delta\n", "            flow_function[u][v] -= delta\n", "C08.2"),
    M("reverse-update-doubles", HZ, "            flow_function[v][u] -= delta\n", "            flow_function[v][u] -= 2 * delta\n", "C08.2"),
    M("flow-matrix-shared-rows", HU, "    flow_function = [[0 for sh in range(dim)] for s in range(dim)]\n    residual_graph, residual_function = residual_network(graph, flow_function)\n\n",
      "    flow_function = [[0] * dim] * dim\n    residual_graph, residual_function = residual_network(graph, flow_function)\n\n", "C08.2"),
    M("delta-from-flow", HZ, "        delta = min(residual_function[u][v] for (u, v) in path)\n",
      "        delta = min(flow_function[u][v] for (u, v) in path)\n", "C08.2"),
    M("upd-benign-row-multiplication", HU,
      "    flow_function = [[0 for sh in range(dim)] for s in range(dim)]\n    residual_graph, residual_function = residual_network(graph, flow_function)\n\n",
      "    flow_function = [[0] * dim for s in range(dim)]\n    residual_graph, residual_function = residual_network(graph, flow_function)\n\n", None),
    M("upd-benign-unit-delta", HZ, "            flow_function[u][v] += delta\n            flow_function[v][u] -= delta\n",
      "            flow_function[u][v] += 1\n            flow_function[v][u] -= 1\n", None),

    # ---- C08.3 index space
    M("value-range-short", HZ, "for v in range(1, num_servers+1)])", "for v in range(1, num_servers)])", "C08.3"),
    M("value-counts-shares", HZ, "    num_servers = len(servermap)\n    # The value of a flow", "    num_servers = len(sharemap)\n    # The value of a flow", "C08.3"),
    M("servers-numbered-from-zero", HZ, "_reindex(servermap, base_index=1)", "_reindex(servermap, base_index=0)", "C08.3"),
    M("sink-off-by-one", HZ, "    sink_num = num_servers + num_shares + 1\n", "    sink_num = num_servers + num_shares\n", "C08.3"),
    M("share-numbered-twice", HZ,
      "            if shnum not in shares:\n                shares[shnum] = num\n                num += 1\n",
      "            shares[shnum] = num\n            num += 1\n", "C08.3"),
    M("server-counter-not-advanced", HZ,
      "        ret[num] = servermap[k]\n        num += 1\n", "        ret[num] = servermap[k]\n", "C08.3"),
    M("saturation-test-flipped", HU, "            if f[i][v] == 1:\n", "            if f[i][v] == 0:\n", "C08.3"),
    M("path-from-wrong-sink", HU, "        n = len(graph) - 1\n", "        n = len(graph) - 2\n", "C08.3"),
    M("residual-rows-shared", HU, "    new_graph = [[] for i in range(len(graph))]\n", "    new_graph = [[]] * len(graph)\n", "C08.3"),
    M("network-of-sharemap", HZ, "    graph = _flow_network_for(servermap)\n", "    graph = _flow_network_for(sharemap)\n", "C08.3"),
    M("idx-benign-generator-sum", HZ, "    return sum([flow_function[0][v] for v in range(1, num_servers+1)])",
      "    return sum(flow_function[0][v] for v in range(1, 1 + num_servers))", None),
    M("idx-benign-flipped-compare", HU, "            if f[i][v] == 1:\n", "            if 1 == f[i][v]:\n", None),

    M("idx-benign-path-appended", HU, "            path.insert(0, (bfs_tree[n], n))\n", "            path.append((bfs_tree[n], n))\n", None,
      note="the path is used as a set of edges (min over it, one update per edge): its order is irrelevant"),
    M("idx-benign-server-row-copied", HZ, "        graph.append(servermap[k])\n", "        graph.append(list(servermap[k]))\n", None),
    M("idx-benign-no-path-is-none", HU, "        return path\n    return False\n", "        return path\n    return None\n", None,
      note="sweep survivor: the caller only tests the result for truth"),
    M("idx-benign-unread-capacities", HU, "                cf[v][i] = 1\n                cf[i][v] = -1\n", "                cf[v][i] = 1\n", None,
      note="sweep survivor: the capacity of the direction that is NOT a residual edge is never read (delta ranges over path "
           "edges, which are residual edges; the flow network has no antiparallel edges)"),
    M("idx-benign-sink-reached-is-not-none", HU, "    if bfs_tree[len(graph) - 1]:\n", "    if bfs_tree[len(graph) - 1] is not None:\n", None),
    M("sink-reached-test-inverted", HU, "    if bfs_tree[len(graph) - 1]:\n", "    if bfs_tree[len(graph) - 1] is None:\n", "C08.3"),
    M("path-edges-reversed", HU, "            path.insert(0, (bfs_tree[n], n))\n", "            path.insert(0, (n, bfs_tree[n]))\n", "C08.3"),

    # ---- C08.4 bfs discipline
    M("bfs-not-coloured", HU, "                color[v] = GRAY\n", "", "C08.4"),
    M("bfs-enqueue-unless-black", HU, "            if color[v] == WHITE:\n", "            if color[v] != BLACK:\n", "C08.4"),
    M("bfs-no-predecessor", HU, "                predecessor[v] = n\n", "", "C08.4"),
    M("bfs-benign-start-left-white", HU, "    color[s] = GRAY\n", "", None,
      note="the source is re-discovered through a reverse edge, gets a predecessor nobody reads: same result"),
    M("bfs-benign-flipped-compare", HU, "            if color[v] == WHITE:\n", "            if WHITE == color[v]:\n", None),
    M("bfs-benign-depth-first", HU, "        n = queue.pop(0)\n", "        n = queue.pop()\n", None,
      note="any augmenting path gives the same max-flow value"),

    M("bfs-benign-explored-not-blackened", HU, "        color[n] = BLACK\n", "", None,
      note="sweep survivor: GRAY already is non-WHITE, BLACK is never tested"),
    M("bfs-benign-tables-by-multiplication", HU, "    color        = [WHITE for i in range(len(graph))]\n    predecessor  = [None for i in range(len(graph))]\n",
      "    color        = [WHITE] * len(graph)\n    predecessor  = [None] * len(graph)\n", None),
    M("bfs-all-start-gray", HU, "    color        = [WHITE for i in range(len(graph))]\n", "    color        = [GRAY] * len(graph)\n", "C08.4"),
    M("bfs-predecessor-table-short", HU, "    predecessor  = [None for i in range(len(graph))]\n", "    predecessor  = [None] * (len(graph) - 1)\n", "C08.4"),
    M("bfs-benign-no-distance", HU, "                distance[v] = distance[n] + 1\n", "", None,
      note="sweep survivor: distance is never read"),

    # ---- C08.5 faithful inversion of the share map (shares_by_server)
    M("inversion-one-set-per-share-aliased", HZ, _SBS,
      "        just_this_share = set([shareid])\n        for peerid in peers:\n            if peerid in ret:\n"
      "                ret[peerid].add(shareid)\n            else:\n                ret[peerid] = just_this_share\n", "C08.5",
      note="seeded C08-E: every server first seen on a share gets the same set object"),
    M("inversion-default-set-hoisted", HZ, "    ret = {}\n    for shareid, peers in servermap.items():\n        assert isinstance(peers, set)\n" + _SBS,
      "    ret = {}\n    no_shares = set()\n    for shareid, peers in servermap.items():\n        assert isinstance(peers, set)\n"
      "        for peerid in peers:\n            ret.setdefault(peerid, no_shares).add(shareid)\n", "C08.5",
      note="one default set for all servers: every server holds every share"),
    M("inversion-fromkeys-mutable", HZ, "    ret = {}\n    for shareid, peers in servermap.items():\n        assert isinstance(peers, set)\n" + _SBS,
      "    ret = dict.fromkeys(set().union(*servermap.values()), set())\n    for shareid, peers in servermap.items():\n"
      "        assert isinstance(peers, set)\n        for peerid in peers:\n            ret[peerid].add(shareid)\n", "C08.5"),
    M("inversion-later-shares-dropped", HZ, _SBS,
      "        for peerid in peers:\n            ret.setdefault(peerid, set([shareid]))\n", "C08.5",
      note="only the first share of each server is kept: happiness too low"),
    M("inversion-set-overwritten", HZ, _SBS,
      "        for peerid in peers:\n            ret[peerid] = set([shareid])\n", "C08.5"),
    M("inversion-not-inverted", HZ, _SBS,
      "        for peerid in peers:\n            ret.setdefault(shareid, set()).add(peerid)\n", "C08.5"),
    M("inversion-returns-inside-loop", HZ, _SBS + "    return ret\n",
      _SBS + "        return ret\n", "C08.5"),
    M("inversion-benign-local-for-the-set", HZ, _SBS,
      "        for peerid in peers:\n            held = ret.setdefault(peerid, set())\n            held.add(shareid)\n", None),
    M("inversion-benign-branch-with-new-set", HZ, _SBS,
      "        for peerid in peers:\n            if peerid in ret:\n                ret[peerid].add(shareid)\n"
      "            else:\n                ret[peerid] = set([shareid])\n", None,
      note="the seeded refactoring done right: a new set per server"),
    M("inversion-benign-set-made-per-server", HZ, _SBS,
      "        for peerid in peers:\n            mine = set()\n            ret.setdefault(peerid, mine).add(shareid)\n", None),
    M("inversion-benign-over-keys", HZ, "    for shareid, peers in servermap.items():\n        assert isinstance(peers, set)\n" + _SBS,
      "    for shareid in servermap:\n        assert isinstance(servermap[shareid], set)\n"
      "        for peerid in sorted(servermap[shareid]):\n            ret.setdefault(peerid, set()).add(shareid)\n", None),
    M("vanish-shares-by-server-loops", HZ, "    for shareid, peers in servermap.items():\n        assert isinstance(peers, set)\n" + _SBS,
      "    for peerid in set().union(*servermap.values()):\n        ret[peerid] = set(s for s in servermap if peerid in servermap[s])\n",
      "ANALYSIS-ERROR", note="another way to invert the map: not decided, reported as analysis error rather than passed"),

    # ---- vanished anchors
    M("vanish-bfs", HU, "def bfs(graph, s):", "def bfsX(graph, s):", "ANALYSIS-ERROR",
      edits=[(HU, "    bfs_tree = bfs(graph, 0)", "    bfs_tree = bfsX(graph, 0)")]),
    M("vanish-soh", HZ, "def servers_of_happiness(sharemap):", "def servers_of_happinessX(sharemap):", "ANALYSIS-ERROR"),
]
